"""Development helper: run checks against a scratch copy of /repo with one textual edit applied.

usage: tools_mut.py <file-rel-to-pkg> <old> <new> <Cnn> [<Cnn> ...]
The copy lives in a mkdtemp directory that is removed afterwards.
"""
import os, shutil, subprocess, sys, tempfile

def main():
    rel, old, new, *props = sys.argv[1:]
    d = tempfile.mkdtemp(prefix="csa_mut_")
    try:
        shutil.copytree("/repo/dissect", os.path.join(d, "dissect"), ignore=shutil.ignore_patterns("__pycache__"))
        p = os.path.join(d, "dissect/cstruct", rel)
        s = open(p).read()
        if s.count(old) < 1:
            print("OLD TEXT NOT FOUND"); return 3
        s = s.replace(old, new, 1)
        open(p, "w").write(s)
        import py_compile
        py_compile.compile(p, doraise=True)
        rc = 0
        for pr in props:
            r = subprocess.run([sys.executable, "-m", "csa", "check", pr, "--root", d], capture_output=True, text=True, cwd="/verif",
                               env={**os.environ, "CSA_EVIDENCE_DIR": d})
            lines = [l for l in r.stdout.splitlines() if l.startswith(("[csa] FAIL", "[csa]      ", "VIOLATION", "ANALYSIS", "KNOWN"))]
            print(f"--- {pr} rc={r.returncode}")
            print("\n".join(lines[:12]))
            if r.stderr.strip(): print(r.stderr[-800:])
        return 0
    finally:
        shutil.rmtree(d, ignore_errors=True)

sys.exit(main())
