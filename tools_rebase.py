"""Rebase archived patches (seeded / benign) that no longer apply to /repo HEAD after a fix commit.

usage: tools_rebase.py [--finish <kind>/<id> ...]
Without arguments: every archived patch that no longer applies is 3-way merged in a scratch worktree (/tmp/rb_<kind>_<id>).  A clean merge is
tested (500 tests must pass; a seed's demo must still fail on the mutated tree) and stored back; a merge with conflicts is left in the worktree for
manual resolution - resolve it there and run ``tools_rebase.py --finish <kind>/<id>``.
"""

from __future__ import annotations

import glob
import json
import os
import re
import shutil
import subprocess
import sys

from tools_seed import PY, fresh_copy, sh

HEAD = subprocess.run(["git", "-C", "/repo", "rev-parse", "--short", "HEAD"], capture_output=True, text=True).stdout.strip()


def applies(pd: str) -> bool:
    c = fresh_copy()
    try:
        r = sh(["git", "apply", "--unsafe-paths", "--directory", c, pd], cwd=c)
        if r.returncode != 0:
            r = sh(["patch", "-p1", "-s", "-f", "-d", c, "-i", pd])
        return r.returncode == 0
    finally:
        shutil.rmtree(c, ignore_errors=True)


def base_commit_for(pd: str) -> str | None:
    """Newest commit of /repo the patch applies to cleanly (3-way merging needs the blobs the patch was made against)."""
    revs = subprocess.run(["git", "-C", "/repo", "rev-list", "-n", "60", "HEAD"], capture_output=True, text=True).stdout.split()
    for rev in revs:
        wt = f"/tmp/rb_probe_{os.getpid()}"
        subprocess.run(["git", "-C", "/repo", "worktree", "add", "-q", "--detach", wt, rev], capture_output=True)
        try:
            if subprocess.run(["git", "apply", "--check", pd], cwd=wt, capture_output=True).returncode == 0:
                return rev
        finally:
            subprocess.run(["git", "-C", "/repo", "worktree", "remove", "--force", wt], capture_output=True)
    return None


def finish(kind: str, ident: str) -> bool:
    wt = f"/tmp/rb_{kind}_{ident}"
    if subprocess.run("grep -rn '^<<<<<<<\\|^>>>>>>>' dissect", shell=True, cwd=wt, capture_output=True, text=True).stdout.strip():
        print(f"{kind}/{ident}: conflict markers left in {wt}")
        return False
    r = sh([PY, "-m", "pytest", "-q", "-p", "no:cacheprovider", "-x", "-n", "4"], cwd=wt, env={**os.environ, "PYTHONPATH": wt, "PYTHONDONTWRITEBYTECODE": "1"})
    m = re.search(r"(\d+) passed", r.stdout)
    if r.returncode != 0 or not m or int(m.group(1)) < 500:
        print(f"{kind}/{ident}: tests fail after the rebase: {r.stdout[-300:]}")
        return False
    demo = f"/verif/{kind}/{ident}/demo.py"
    if kind == "seeded" and os.path.exists(demo):
        r1 = sh([PY, demo], cwd="/tmp", env={**os.environ, "PYTHONPATH": wt, "PYTHONDONTWRITEBYTECODE": "1"})
        r0 = sh([PY, demo], cwd="/tmp", env={**os.environ, "PYTHONPATH": "/repo", "PYTHONDONTWRITEBYTECODE": "1"})
        if r1.returncode == 0 or r0.returncode != 0:
            print(f"{kind}/{ident}: demo no longer separates (mutated rc={r1.returncode}, pristine rc={r0.returncode}) - left in {wt}")
            return False
    subprocess.run(["git", "add", "-A"], cwd=wt)
    diff = subprocess.run(["git", "diff", "--cached", "HEAD"], cwd=wt, capture_output=True, text=True).stdout
    if not diff.strip():
        print(f"{kind}/{ident}: the rebased patch is empty (the change is now part of the tree?)")
        return False
    with open(f"/verif/{kind}/{ident}/patch.diff", "w") as fh:
        fh.write(diff)
    mp = f"/verif/{kind}/{ident}/meta.json"
    meta = json.load(open(mp))
    note = f"rebased onto {HEAD}; tests re-run: {m.group(1)} passed" + ("; demo still fails on the changed tree and passes on the pristine one" if kind == "seeded" else "")
    r_ = meta.get("rebased")
    meta["rebased"] = (r_ if isinstance(r_, list) else ([r_] if r_ else [])) + [note]
    json.dump(meta, open(mp, "w"), indent=1)
    subprocess.run(["git", "-C", "/repo", "worktree", "remove", "--force", wt], capture_output=True)
    print(f"{kind}/{ident}: rebased")
    return True


def main() -> int:
    args = sys.argv[1:]
    if args and args[0] == "--finish":
        ok = all([finish(*a.split("/")) for a in args[1:]])
        subprocess.run(["git", "-C", "/repo", "worktree", "prune"])
        return 0 if ok else 1
    todo = []
    for pd in sorted(glob.glob("/verif/benign/*/patch.diff") + glob.glob("/verif/seeded/*/patch.diff")):
        if not applies(pd):
            todo.append(pd)
    print("stale:", [p.split("/")[-3] + "/" + p.split("/")[-2] for p in todo])
    for pd in todo:
        kind, ident = pd.split("/")[-3], pd.split("/")[-2]
        wt = f"/tmp/rb_{kind}_{ident}"
        subprocess.run(["git", "-C", "/repo", "worktree", "remove", "--force", wt], capture_output=True)
        subprocess.run(["git", "-C", "/repo", "worktree", "add", "-q", "--detach", wt, "HEAD"], check=True)
        r = subprocess.run(["git", "apply", "--3way", pd], cwd=wt, capture_output=True, text=True)
        conflicts = subprocess.run(["git", "diff", "--name-only", "--diff-filter=U"], cwd=wt, capture_output=True, text=True).stdout.split()
        if r.returncode != 0 and not conflicts:
            # the blobs named in the patch are unknown (hand-made patch): replay on the newest commit it applies to, then cherry-pick onto HEAD
            base = base_commit_for(pd)
            if base is None:
                print(f"{kind}/{ident}: cannot find a commit the patch applies to: {r.stderr[-200:]}")
                continue
            subprocess.run(["git", "checkout", "-q", "--detach", base], cwd=wt)
            subprocess.run(["git", "apply", pd], cwd=wt, check=True)
            subprocess.run(["git", "-c", "user.name=x", "-c", "user.email=x@x", "commit", "-qam", "tmp"], cwd=wt)
            tmp = subprocess.run(["git", "rev-parse", "HEAD"], cwd=wt, capture_output=True, text=True).stdout.strip()
            subprocess.run(["git", "checkout", "-q", "--detach", HEAD], cwd=wt)
            r = subprocess.run(["git", "cherry-pick", "-n", tmp], cwd=wt, capture_output=True, text=True)
            conflicts = subprocess.run(["git", "diff", "--name-only", "--diff-filter=U"], cwd=wt, capture_output=True, text=True).stdout.split()
        if conflicts:
            print(f"{kind}/{ident}: conflicts in {conflicts} - resolve in {wt}, then: tools_rebase.py --finish {kind}/{ident}")
            continue
        finish(kind, ident)
    subprocess.run(["git", "-C", "/repo", "worktree", "prune"])
    return 0


if __name__ == "__main__":
    sys.exit(main())
