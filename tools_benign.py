"""Evaluate behaviour-preserving refactorings (written by independent sub-agents) against the checks: every check must stay silent.

usage: tools_benign.py <dir-with refactor_k.diff [refactor_k.txt]> [--keep-as <prefix>] [--no-tests]
Each diff is applied to a scratch copy of /repo (removed afterwards); the test suite must still pass; then every claimed quick check runs with
--root <copy>.  Exit status 1 (VIOLATION) or 2 (ANALYSIS-ERROR) of any check is a false alarm of the checker.
With --keep-as the diffs are stored as /verif/benign/<prefix>-k/{patch.diff, meta.json}.
"""

from __future__ import annotations

import glob
import json
import os
import re
import shutil
import sys
import tempfile

from tools_seed import CLAIMED, PY, fresh_copy, sh


def evaluate(patch: str, run_tests: bool) -> dict:
    res: dict = {"patch": patch}
    d = fresh_copy()
    env = {**os.environ, "PYTHONPATH": d, "PYTHONDONTWRITEBYTECODE": "1"}
    try:
        r = sh(["git", "apply", "--unsafe-paths", "--directory", d, patch], cwd=d)
        if r.returncode != 0:
            r = sh(["patch", "-p1", "-s", "-d", d, "-i", patch])
        res["applies"] = r.returncode == 0
        if not res["applies"]:
            res["apply_error"] = (r.stdout + r.stderr)[-300:]
            return res
        if run_tests:
            r = sh([PY, "-m", "pytest", "-q", "-p", "no:cacheprovider", "-x", "-n", "4"], cwd=d, env=env)
            m = re.search(r"(\d+) passed", r.stdout)
            res["tests_passed"] = int(m.group(1)) if m else 0
            res["tests_ok"] = r.returncode == 0 and res["tests_passed"] >= 500
        alarms: dict[str, str] = {}
        ev = tempfile.mkdtemp(prefix="csa_benign_ev_")
        try:
            for p in CLAIMED:
                r = sh([PY, "-m", "csa", "check", p, "--root", d], cwd="/verif", env={**os.environ, "CSA_EVIDENCE_DIR": ev})
                if r.returncode != 0:
                    lines = [l for l in r.stdout.splitlines() if l.startswith(("[csa] FAIL", "[csa]      ", "ANALYSIS-ERROR"))]
                    alarms[p] = f"rc={r.returncode} " + " | ".join(lines[:6])[:900]
        finally:
            shutil.rmtree(ev, ignore_errors=True)
        res["alarms"] = alarms
        return res
    finally:
        shutil.rmtree(d, ignore_errors=True)


def main() -> int:
    args = sys.argv[1:]
    keep = None
    run_tests = True
    if "--keep-as" in args:
        i = args.index("--keep-as")
        keep = args[i + 1]
        del args[i:i + 2]
    if "--no-tests" in args:
        args.remove("--no-tests")
        run_tests = False
    src = args[0]
    pats = sorted(glob.glob(os.path.join(src, "refactor_*.diff"))) or sorted(glob.glob(os.path.join(src, "*", "patch.diff")))
    bad = 0
    for patch in pats:
        k = re.findall(r"refactor_(\w+)\.diff", patch)
        k = k[0] if k else os.path.basename(os.path.dirname(patch))
        r = evaluate(patch, run_tests)
        note_p = os.path.join(src, f"refactor_{k}.txt")
        note = open(note_p).read().strip() if os.path.exists(note_p) else ""
        ok = r.get("applies") and r.get("tests_ok", not run_tests)
        status = "SILENT" if ok and not r.get("alarms") else ("FALSE-ALARM" if ok else "UNUSABLE")
        if status != "SILENT":
            bad += 1
        print(f"== {os.path.basename(src.rstrip('/'))} refactor_{k}: {status} tests={r.get('tests_passed')} {note[:110]!r}")
        for p, a in (r.get("alarms") or {}).items():
            print(f"   {p}: {a}")
        if not ok:
            print("   ", {x: r.get(x) for x in ("applies", "apply_error", "tests_ok")})
        if keep and ok:
            dst = os.path.join("/verif/benign", f"{keep}-{k}")
            os.makedirs(dst, exist_ok=True)
            shutil.copy(patch, os.path.join(dst, "patch.diff"))
            json.dump({"origin": "independent sub-agent asked for a behaviour-preserving refactoring (no knowledge of /verif)", "description": note,
                       "tests_passed": r.get("tests_passed"), "alarms_when_first_evaluated": r.get("alarms")}, open(os.path.join(dst, "meta.json"), "w"), indent=1)
    return 1 if bad else 0


if __name__ == "__main__":
    sys.exit(main())
