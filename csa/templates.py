"""Harvest of code templates (f-strings / str.format templates / plain strings emitted as code).

Every program the source generators can emit is a concatenation of a finite set of templates, so a
per-template rule covers the unbounded space of definitions.  Holes become placeholder identifiers
named after the hole expression (equal holes compare equal); the text is dedented and parsed, never
executed.
"""

from __future__ import annotations

import ast
import re
import textwrap
from dataclasses import dataclass, field

from .model import ClassInfo, FuncInfo, Module, Repo
from .util import AnalysisError, call_name, chain, norm, parent_map, walk_body


PH = "\u0126"  # 'Ħ' - a letter, so placeholders stay identifiers even when glued to neighbouring text
PH_RE = re.compile(PH + r"([0-9A-Za-z_]+)" + PH)


def _ph(expr_text: str) -> str:
    s = re.sub(r"[^0-9A-Za-z_]", "_", expr_text)
    return PH + (s.strip("_") or "x") + PH


def placeholders_in(text: str) -> list[str]:
    return [PH + m + PH for m in PH_RE.findall(text)]


@dataclass
class Template:
    func: FuncInfo
    node: ast.AST  # the JoinedStr / Constant node in the generator
    text: str  # with placeholders
    holes: dict[str, ast.AST]  # placeholder -> hole expression (generator side)
    tree: ast.Module | None = None
    kind: str = "fragment"  # stmt | expr | fragment
    role: str = ""  # how the generator uses it (yield / append / assign:<name> / augassign:<name> / return / arg)

    @property
    def lineno(self) -> int:
        return getattr(self.node, "lineno", 0)

    @property
    def key(self) -> str:
        return f"{self.func.key}:template {' '.join(self.text.split())[:90]}"

    def loc(self) -> str:
        return f"{self.func.module.path}:{self.lineno}"


def _render(node: ast.AST) -> tuple[str, dict[str, ast.AST]]:
    holes: dict[str, ast.AST] = {}
    if isinstance(node, ast.Constant) and isinstance(node.value, str):
        text = node.value

        def sub(m: re.Match) -> str:
            name = m.group(1)
            ph = _ph(name)
            holes[ph] = ast.Name(id=name, ctx=ast.Load())
            return ph

        # str.format style holes
        text = re.sub(r"(?<!\{)\{([A-Za-z_][A-Za-z0-9_]*)\}(?!\})", sub, text)
        return text, holes
    assert isinstance(node, ast.JoinedStr)
    parts = []
    for v in node.values:
        if isinstance(v, ast.Constant):
            parts.append(str(v.value))
        elif isinstance(v, ast.FormattedValue) and isinstance(v.value, ast.Constant) and isinstance(v.value.value, (str, int)) and v.conversion == -1:
            parts.append(str(v.value.value))  # a literal passed through a (now inlined) helper parameter
        elif isinstance(v, ast.FormattedValue):
            ph = _ph(norm(v.value))
            holes[ph] = v.value
            parts.append(ph)
    return "".join(parts), holes


def _try_parse(text: str) -> tuple[ast.Module | None, str]:
    src = textwrap.dedent(text).strip("\n")
    if not src.strip():
        return None, "fragment"
    for cand in (src, src + "\n    ...", "class _K:\n" + textwrap.indent(src, "    ")):
        try:
            tree = ast.parse(cand)
        except SyntaxError:
            continue
        if cand.startswith("class _K:"):
            tree = ast.Module(body=tree.body[0].body, type_ignores=[])
        if all(isinstance(s, ast.Expr) and not isinstance(s.value, ast.Call) for s in tree.body):
            return tree, "expr"
        return tree, "stmt"
    return None, "fragment"


def _is_message_context(node: ast.AST, pm: dict[ast.AST, ast.AST]) -> bool:
    """Strings that are exception / log messages, file names, comparison operands, join separators, dict keys."""
    p = pm.get(node)
    hops = 0
    while p is not None and hops < 4:
        if isinstance(p, ast.Raise):
            return True
        if isinstance(p, ast.Call):
            n = call_name(p)
            c = chain(p.func)
            if n and (n.endswith("Error") or n in ("debug", "info", "warning", "error", "getLogger", "ArgumentParser", "add_argument")):
                return True
            if n in ("python_compile", "compile") and node in p.args[1:]:
                return True
            if n in ("indent",) and len(p.args) > 1 and node is p.args[1]:
                return True
            if isinstance(p.func, ast.Attribute) and p.func.value is node:
                return True  # "sep".join(...)
            if n in ("indent",) and any(kw.value is node for kw in p.keywords):
                return True
            break
        if isinstance(p, ast.Compare):
            return True
        if isinstance(p, ast.Subscript) and p.slice is node:
            return True
        if isinstance(p, ast.Dict):
            return node in p.keys
        if isinstance(p, (ast.stmt,)):
            break
        p = pm.get(p)
        hops += 1
    return False


def _role(node: ast.AST, pm: dict[ast.AST, ast.AST]) -> str:
    p = pm.get(node)
    hops = 0
    while p is not None and hops < 5:
        if isinstance(p, (ast.Yield, ast.YieldFrom)):
            return "yield"
        if isinstance(p, ast.Return):
            return "return"
        if isinstance(p, ast.Assign):
            t = p.targets[0]
            return "assign:" + (t.id if isinstance(t, ast.Name) else norm(t))
        if isinstance(p, ast.AugAssign):
            return "augassign:" + norm(p.target)
        if isinstance(p, ast.Call) and call_name(p) in ("append", "extend", "insert"):
            return "append:" + norm(p.func.value)
        if isinstance(p, ast.stmt):
            break
        p = pm.get(p)
        hops += 1
    return "arg"


def harvest(funcs: list[FuncInfo]) -> list[Template]:
    out: list[Template] = []
    for fi in funcs:
        pm = parent_map(fi.node)
        doc = ast.get_docstring(fi.node, clean=False)
        inner: set[int] = set()
        for n in walk_body(fi.node.body):
            if isinstance(n, ast.JoinedStr):
                for v in ast.walk(n):
                    if v is not n:
                        inner.add(id(v))
        for n in walk_body(fi.node.body):
            if id(n) in inner:
                continue
            is_str = isinstance(n, ast.Constant) and isinstance(n.value, str)
            if not (is_str or isinstance(n, ast.JoinedStr)):
                continue
            if is_str and doc is not None and n.value == doc:
                continue
            if _is_message_context(n, pm):
                continue
            text, holes = _render(n)
            tree, kind = _try_parse(text)
            t = Template(fi, n, text, holes, tree, kind, _role(n, pm))
            if tree is not None:
                for x in ast.walk(tree):
                    if hasattr(x, "lineno"):
                        x.lineno = t.lineno
                        x.end_lineno = t.lineno
            out.append(t)
    return out


# ---------------------------------------------------------------------------------------------------------------
# reader generator (compiler.py)

def generator_functions(repo: Repo) -> list[FuncInfo]:
    mod = repo.module("compiler.py")
    fs = [f for q, f in mod.functions.items() if q.startswith("_ReadSourceGenerator.")]
    if len(fs) < 8:
        raise AnalysisError(f"compiler.py: only {len(fs)} _ReadSourceGenerator functions found")
    return fs


_cache: dict[str, list[Template]] = {}


def reader_templates(repo: Repo) -> list[Template]:
    cached = getattr(repo, "_reader_templates", None)
    if cached is None:
        cached = harvest(generator_functions(repo))
        repo._reader_templates = cached
    return cached


def reader_skeleton(repo: Repo) -> tuple[ast.FunctionDef, list[Template]]:
    """``def _read(cls, stream, context=None): <preamble> <every statement template> <outro>`` as one function."""
    tpls = reader_templates(repo)
    gs = repo.func("compiler.py", "_ReadSourceGenerator.generate_source")
    pre = [t for t in tpls if t.func.key == gs.key and t.role in ("assign:preamble", "augassign:preamble") and t.tree]
    outro = [t for t in tpls if t.func.key == gs.key and t.role == "assign:outro" and t.tree]
    sig = [t for t in tpls if t.func.key == gs.key and t.role == "return" and t.text.lstrip().startswith("def ")]
    if not pre or not outro or not sig:
        raise AnalysisError("compiler.py: preamble / outro / signature template of generate_source not found")
    sig_tree = ast.parse(textwrap.dedent(re.sub(PH + r"\w+" + PH + r"\s*$", "    pass", sig[0].text.strip())))
    fn = sig_tree.body[0]
    if not isinstance(fn, ast.FunctionDef):
        raise AnalysisError("compiler.py: signature template does not define a function")
    body: list[ast.stmt] = []
    used: list[Template] = []
    for t in pre:
        body += t.tree.body
        used.append(t)
    # a statement that is just a hole ``{unpack}`` is replaced by the statement templates assigned to that name
    inlined: set[int] = set()
    expanded: dict[int, list[ast.stmt]] = {}
    for t in tpls:
        if t.tree is None or t.kind != "stmt":
            continue
        new_body: list[ast.stmt] = []
        for st in t.tree.body:
            if isinstance(st, ast.Expr) and isinstance(st.value, ast.Name) and st.value.id in t.holes and isinstance(t.holes[st.value.id], ast.Name):
                hole_name = t.holes[st.value.id].id
                alts = [u for u in tpls if u.func.key == t.func.key and u.role == f"assign:{hole_name}" and u.tree is not None and u.kind == "stmt"]
                for u in alts:
                    new_body += u.tree.body
                    inlined.add(id(u))
                if alts:
                    continue
            new_body.append(st)
        expanded[id(t)] = new_body
    for t in tpls:
        if t.func.key == gs.key or t.tree is None or t.kind != "stmt" or id(t) in inlined:
            continue
        body += expanded[id(t)]
        used.append(t)
    for t in outro:
        body += t.tree.body
        used.append(t)
    fn.body = body
    fn.lineno = gs.node.lineno
    ast.fix_missing_locations(fn)
    return fn, used


def reader_template_functions(repo: Repo) -> list[FuncInfo]:
    """Synthetic FuncInfo (a classmethod of Structure) for the generated reader, so that the call graph and the
    effect analysis treat generated code like ordinary source."""
    fn, _ = reader_skeleton(repo)
    mod = repo.module("compiler.py")
    cls = repo.cls("Structure")
    fi = FuncInfo(mod, "<generated>._read", fn, cls, "classmethod", None)
    return [fi]


# ---------------------------------------------------------------------------------------------------------------
# stub generator (tools/stubgen.py)

def stub_templates(repo: Repo) -> list[Template]:
    mod = repo.module("tools/stubgen.py")
    fs = [f for q, f in mod.functions.items() if q.startswith("generate_")]
    if len(fs) < 5:
        raise AnalysisError("tools/stubgen.py: generate_* functions vanished")
    return harvest(fs)
