"""Fold of the interpreted structure reader and writer (StructureMetaType._read / _write) over field-kind sequences.

The two functions are interpreted (whitelist evaluator, nothing imported from the repository) over symbolic field / type objects and an
in-memory stream model; the bit buffer they create is the repository's BitBuffer class interpreted the same way.  The reference is the
C layout restated in ``folds._ref_struct_layout`` plus the run-time rules for what lies behind a dynamically sized field (alignment on the
absolute stream position).  Checked per case: every non-bit field is read at start + its reference offset, bit-fields come out as the C-order
bits of their unit, the recorded sizes are the type sizes, the reader leaves the stream at start + size, and dumping the parsed values gives
the image back (padding zero) - for streams that start at 0 and at an aligned non-zero position.
"""

from __future__ import annotations

import itertools
from typing import Any

from .bbfold import BitBufferModel, c_order_field
from .codecfold import Stream
from .folds import _layout_kinds, _ref_struct_layout
from .minieval import Evaluator, Exhausted, Host, Raised, Refused, Sym, UserFunc
from .model import Repo


def _cases(max_len: int) -> list[tuple[str, ...]]:
    names = list(_layout_kinds())
    seqs: list[tuple[str, ...]] = []
    for n in range(0, max_len + 1):
        seqs += list(itertools.product(names, repeat=n))
    if max_len >= 2:
        tri = ["u8", "u32", "c5", "dyn", "u8:3", "u8:5", "u16:4", "u16:12", "u32:12", "e16:4", "i24:4", "i24:20", "i16:4", "u8@1"]
        seqs += [t_ for t_ in itertools.product(tri, repeat=3) if any(":" in x for x in t_)]
    seqs += [("u8", "u32", "u16"), ("u8:3", "u8:5", "u8:3"), ("u16:4", "u16:12", "u16:4"), ("u8", "dyn", "u32", "u8"), ("u8:3", "u16:4", "u8:3", "u32"),
             ("c5", "u64", "u8", "e16:4", "u16:4"), ("u8", "i24", "u8", "u64"), ("u8:3", "dyn4", "u8:3", "u32"), ("u8", "dyn", "u8:3", "u8:5", "u16"),
             ("u32@8", "u8", "u16:4"), ("u16", "u8@1", "u32")]
    return seqs


class _Model:
    def __init__(self, repo: Repo, endian: str):
        self.repo, self.endian = repo, endian
        self.rd = repo.func("types/structure.py", "StructureMetaType._read")
        self.wr = repo.func("types/structure.py", "StructureMetaType._write")
        self.bb = BitBufferModel(repo)
        self.enum_meta = Sym("EnumMetaType")
        self.order = "little" if endian == "<" else "big"

    # ---- symbolic types: they read / write through the stream model and log where they were asked to
    def make_type(self, base: str, k: dict, log: list, stream_of) -> Sym:
        size = k["size"]

        def read(stream, context=None):
            st: Stream = stream_of(stream)
            start = st.pos
            if size is None:
                n = st.data[st.pos] if st.pos < len(st.data) else 0
                raw = st.data[st.pos:st.pos + 1 + n]
                st.pos += len(raw)
                log.append(("read", base, start))
                return raw
            raw = st.data[st.pos:st.pos + size]
            st.pos += len(raw)
            if len(raw) != size:
                raise EOFError("short")
            log.append(("read", base, start))
            return raw if base.startswith("c") else int.from_bytes(raw, self.order)

        def write(stream, value):
            st: Stream = stream_of(stream)
            v = getattr(value, "attrs", {}).get("value", value) if isinstance(value, Sym) else value
            raw = v if isinstance(v, (bytes, bytearray)) else int(v).to_bytes(size, self.order)
            st.written += bytes(raw)
            st.pos += len(raw)
            log.append(("write", base, st.pos - len(raw)))
            return len(raw)

        attrs: dict[str, Any] = {"size": size, "alignment": k["align"], "__name__": base, "signed": False}
        t = Sym(f"type:{base}", attrs, {"_read": Host(read), "_write": Host(write), "__default__": Host(lambda: 0)})
        if k.get("enum_of"):
            t.attrs["is_enum"] = True
            t.call = Host(lambda v: Sym("member", {"value": v}))
        return t

    def run(self, seq: tuple[str, ...], align: bool, start: int) -> list[str]:
        """Complaints for one case (empty = agrees with the reference)."""
        kinds = _layout_kinds()
        ks = [kinds[n] for n in seq]
        ref = _ref_struct_layout(ks, align)
        if ref == "raise":
            return []
        size, alignment, offs = ref
        log: list = []
        streams: dict[int, Stream] = {}

        def stream_of(sym) -> Stream:
            return streams[id(sym)]

        types: dict[str, Sym] = {}
        for n, k in zip(seq, ks):
            base = n.split(":")[0].split("@")[0]
            if base not in types:
                types[base] = self.make_type(base, k, log, stream_of)
            if k.get("enum_of") and k["enum_of"] not in types:
                types[k["enum_of"]] = self.make_type(k["enum_of"], kinds[k["enum_of"]], log, stream_of)
            if k.get("enum_of"):
                types[base].attrs["type"] = types[k["enum_of"]]
        fields = [Sym(f"field{i}", {"_name": f"f{i}", "name": f"f{i}", "type": types[n.split(":")[0].split("@")[0]], "bits": k.get("bits"), "offset": offs[i],
                                   "alignment": k["align"]}) for i, (n, k) in enumerate(zip(seq, ks))]
        # ---- the reference image and the expected read positions / values, walking like the run-time must
        image = bytearray(start)
        pos = start
        expect_reads: list[tuple[str, int]] = []
        expect_vals: dict[str, Any] = {}
        unit: dict | None = None
        fill = itertools.count(0x11)

        def ensure(n: int) -> None:
            if len(image) < n:
                image.extend(b"\x00" * (n - len(image)))

        units: list[dict] = []
        placed: list[int] = []
        for i, (n, k) in enumerate(zip(seq, ks)):
            base = n.split(":")[0].split("@")[0]
            storage = k.get("storage") or k.get("enum_of") or base
            if k.get("bits"):
                if unit is None or unit["type"] != storage or unit["remaining"] == 0:
                    # a new unit: at its recorded offset, or (behind a dynamic field) at the aligned current position
                    if offs[i] is not None:
                        pos = start + offs[i]
                    elif align:
                        pos += -pos & (k["align"] - 1)
                    total = k["size"] * 8
                    unit = {"type": storage, "at": pos, "remaining": total, "total": total, "used": 0, "size": k["size"], "fields": []}
                    units.append(unit)
                    expect_reads.append((storage, pos))
                    placed.append(k["size"])
                    pos += k["size"]
                v = (next(fill) * 13) & ((1 << k["bits"]) - 1) or 1
                unit["fields"].append((unit["used"], k["bits"], v))
                unit["used"] += k["bits"]
                unit["remaining"] -= k["bits"]
                expect_vals[f"f{i}"] = v
                continue
            unit = None
            if offs[i] is not None:
                pos = start + offs[i]
            elif align:
                pos += -pos & (k["align"] - 1)
            if k["size"] is None:
                n_ = 3
                raw = bytes([n_]) + bytes((next(fill) + j) & 0xFF for j in range(n_))
            else:
                raw = bytes((next(fill) * 29 + j * 7) & 0xFF or 1 for j in range(k["size"]))
            ensure(pos + len(raw))
            image[pos:pos + len(raw)] = raw
            expect_reads.append((base, pos))
            placed.append(len(raw))
            expect_vals[f"f{i}"] = raw if (base.startswith("c") or k["size"] is None) else int.from_bytes(raw, self.order)
            pos += len(raw)
        # explicit offsets that overlay an earlier field or move backwards are outside this fold (the writer cannot go back; the reference image
        # would have to be defined per overlay): skip such layouts
        high = start
        overlay = False
        for (_b, p_), ln in zip(expect_reads, placed):
            if p_ < high:
                overlay = True
            high = max(high, p_ + ln)
        for u in units:
            val = 0
            for used, bits, v in u["fields"]:
                val |= v << (used if self.endian == "<" else u["total"] - used - bits)
            ensure(u["at"] + u["size"])
            image[u["at"]:u["at"] + u["size"]] = val.to_bytes(u["size"], self.order)
        if overlay:
            # explicit offsets that overlay an earlier field or move backwards: the reader must fetch every field from its own recorded position
            # (the writer cannot go back: only the reader is folded on these layouts); values are what the final image holds there
            if any(k["size"] is None for k in ks):
                return []
            it = iter(zip(expect_reads, placed))
            ui, unit2 = 0, None
            for i, (n, k) in enumerate(zip(seq, ks)):
                base = n.split(":")[0].split("@")[0]
                if k.get("bits"):
                    storage = k.get("storage") or k.get("enum_of") or base
                    if unit2 is None or unit2["type"] != storage or unit2["remaining2"] == 0:
                        unit2 = units[ui]
                        ui += 1
                        next(it)
                        unit2["remaining2"], unit2["used2"] = unit2["total"], 0
                        unit2["value2"] = int.from_bytes(image[unit2["at"]:unit2["at"] + unit2["size"]], self.order)
                    off_ = unit2["used2"]
                    expect_vals[f"f{i}"] = (unit2["value2"] >> (off_ if self.endian == "<" else unit2["total"] - off_ - k["bits"])) & ((1 << k["bits"]) - 1)
                    unit2["used2"] += k["bits"]
                    unit2["remaining2"] -= k["bits"]
                    continue
                unit2 = None
                (_b2, p2), ln2 = next(it)
                raw2 = bytes(image[p2:p2 + ln2])
                expect_vals[f"f{i}"] = raw2 if base.startswith("c") else int.from_bytes(raw2, self.order)
        # unused bits of partly used units must be zero in the image for the round trip: rebuild those units from their fields only
        # the tail padding is on the absolute stream position in reader and writer alike (for a stream that starts aligned this is start + size)
        end = pos
        if align and alignment:
            end += -end & (alignment - 1)
        if size is not None and start % 16 == 0:
            assert end == start + size, (seq, align, start, end, size)
        ensure(end)
        image_bytes = bytes(image) + b"\xee\xee\xee"
        # ---- interpret the reader
        st = Stream(image_bytes)
        st.pos = start
        stream_sym = st.sym()
        streams[id(stream_sym)] = st
        made: dict = {}

        def type_call(c, **kw):
            made["values"] = dict(kw)
            return Sym("obj", dict(kw))

        cs = Sym("cs", {"endian": self.endian}, {"resolve": Host(lambda t: t)})
        cls = Sym("S", {"__fields__": fields, "__align__": align, "alignment": alignment, "size": size, "cs": cs})

        def bitbuffer(stream, endian):
            bb = self.bb.buffer(endian)
            bb.attrs["stream"] = stream
            return bb

        env = dict(self.bb.base_env)
        env.update({"BitBuffer": Host(bitbuffer), "EnumMetaType": self.enum_meta, "io": Sym("io", {"SEEK_CUR": 1, "SEEK_SET": 0, "SEEK_END": 2}),
                    "type": Sym("type", {}, {"__call__": Host(type_call)}),
                    "isinstance": Host(lambda o, k: (k is self.enum_meta and isinstance(o, Sym) and bool(o.attrs.get("is_enum"))) or (k is bytes and isinstance(o, bytes))),
                    "getattr": Host(lambda o, n, *d: o.attrs.get(n, *d) if isinstance(o, Sym) else (d[0] if d else None)), "bytes": bytes})
        out: list[str] = []
        try:
            obj = Evaluator(env, steps=60000).call_user(UserFunc(self.rd.node), [cls, stream_sym], {})
        except Raised as e:
            return [f"reader raised {e}"]
        except EOFError:
            return ["reader ran past the end of the image"]
        got_reads = [(b, p) for op, b, p in log if op == "read"]
        if got_reads != expect_reads:
            out.append(f"reader fetched (type, absolute position) {got_reads}, reference {expect_reads}")
        vals = {k_: (v.attrs.get("value") if isinstance(v, Sym) else v) for k_, v in made.get("values", {}).items()}
        if vals != expect_vals:
            diff = {k_: (vals.get(k_), expect_vals.get(k_)) for k_ in sorted(set(vals) | set(expect_vals)) if vals.get(k_) != expect_vals.get(k_)}
            out.append(f"reader values differ (got, reference): {diff}")
        if st.pos != end:
            out.append(f"reader leaves the stream at {st.pos}, reference {end}")
        sizes = obj.attrs.get("_sizes") if isinstance(obj, Sym) else None
        want_sizes = {f"f{i}": (len(expect_vals[f'f{i}']) if isinstance(expect_vals[f'f{i}'], bytes) else k["size"]) for i, k in enumerate(ks) if not k.get("bits")}
        if sizes != want_sizes:
            out.append(f"recorded sizes {sizes}, reference {want_sizes}")
        if out or overlay:
            return out
        # ---- interpret the writer on the parsed values: the image comes back (bytes outside fields are zero in the image already, except unused unit bits)
        log.clear()
        ws = Stream(b"")
        ws.pos = start
        ws.written = bytearray(b"\x00" * start)
        wsym = ws.sym()
        # the stream model's tell() follows pos; writes append: keep them in step
        def wwrite(b, ws=ws):
            b = bytes(b)
            ws.written += b
            ws.pos += len(b)
            return len(b)
        wsym.methods["write"] = Host(wwrite)
        streams[id(wsym)] = ws
        data = Sym("data", {k_: (Sym("member", {"value": v}) if kinds[seq[int(k_[1:])]].get("enum_of") and kinds[seq[int(k_[1:])]].get("bits") else v)
                            for k_, v in expect_vals.items()})
        try:
            Evaluator(env, steps=60000).call_user(UserFunc(self.wr.node), [cls, wsym, data], {})
        except Raised as e:
            return [f"writer raised {e}"]
        want = bytearray(image[:end])
        if bytes(ws.written) != bytes(want):
            out.append(f"writer produced {bytes(ws.written)[start:].hex()}, reference {bytes(want)[start:].hex()} (stream started at {start})")
        return out


def fold_struct_rw(repo: Repo, max_len: int = 2) -> dict | None:
    from .foldpool import cached, pmap

    def chunk(work: list) -> dict:
        out: dict = {"cases": 0, "bad": [], "refused": False}
        models: dict[str, _Model] = {}
        try:
            for endian, seq in work:
                m = models.get(endian) or models.setdefault(endian, _Model(repo, endian))
                for align in (False, True):
                    for start in (0, 16, 3):
                        out["cases"] += 1
                        complaints = m.run(seq, align, start)
                        if complaints and len(out["bad"]) < 6:
                            out["bad"].append((list(seq), "aligned" if align else "packed", f"endian {endian}", f"stream at {start}", complaints[0]))
        except (Refused, Exhausted):
            out["refused"] = True
        except (TypeError, KeyError, IndexError, ValueError, AttributeError, AssertionError):
            out["refused"] = True
        return out

    def compute() -> dict | None:
        work = [(endian, seq) for endian in "<>" for seq in _cases(max_len if endian == "<" else min(max_len, 1))]
        parts = pmap(chunk, work)
        if any(p_["refused"] for p_ in parts):
            return None
        out: dict = {"cases": sum(p_["cases"] for p_ in parts), "bad": []}
        for p_ in parts:
            out["bad"] += p_["bad"]
        out["bad"].sort(key=lambda b_: (len(b_[0]), b_[0], b_[1:4]))
        out["bad"] = [tuple(b_) for b_ in out["bad"][:6]]
        return out

    return cached(repo, "structrw", ("types/structure.py", "bitbuffer.py"), max_len, compute)
