"""Extraction of literal tables (dict / set / tuple literals) with constant folding."""

from __future__ import annotations

import ast

from .model import FuncInfo, Repo
from .util import AnalysisError, chain, const_value, is_const, norm, walk_body


def dict_items(node: ast.AST) -> list[tuple[object, ast.AST, ast.AST]]:
    """[(folded key, key node, value node)] of a dict literal."""
    if not isinstance(node, ast.Dict):
        raise AnalysisError(f"expected a dict literal, found {type(node).__name__}")
    out = []
    for k, v in zip(node.keys, node.values):
        if k is None:
            raise AnalysisError("dict unpacking in a table literal")
        out.append((const_value(k) if is_const(k) else norm(k), k, v))
    return out


def class_attr(repo: Repo, cls: str, name: str) -> ast.AST:
    ci = repo.cls(cls)
    if name not in ci.attrs:
        raise AnalysisError(f"anchor table vanished: {cls}.{name}")
    return ci.attrs[name]


def module_attr(repo: Repo, rel: str, name: str) -> ast.AST:
    m = repo.module(rel)
    if name not in m.assigns:
        raise AnalysisError(f"anchor table vanished: {rel}:{name}")
    return m.assigns[name]


def self_attr_assign(fi: FuncInfo, attr: str) -> ast.AST:
    """Value assigned to ``self.<attr>`` inside ``fi``."""
    for n in walk_body(fi.node.body):
        if isinstance(n, (ast.Assign, ast.AnnAssign)):
            targets = n.targets if isinstance(n, ast.Assign) else [n.target]
            for t in targets:
                c = chain(t)
                if c and len(c) == 2 and c[0] == fi.self_name and c[1] == attr and n.value is not None:
                    return n.value
    raise AnalysisError(f"anchor vanished: {fi.key} no longer assigns self.{attr}")


def typedef_table(repo: Repo) -> list[tuple[str, ast.AST, ast.AST]]:
    fi = repo.func("cstruct.py", "cstruct.__init__")
    return [(k, kn, v) for k, kn, v in dict_items(self_attr_assign(fi, "typedefs"))]


def kwargs_of(call: ast.Call) -> dict[str, ast.AST]:
    return {kw.arg: kw.value for kw in call.keywords if kw.arg}
