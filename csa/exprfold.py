"""Fold of the expression evaluator (expression.py): ``Expression(cs, text).evaluate(context)`` is interpreted by the checker's evaluator on a corpus of
expression texts and compared with a reference computed by an independent recursive-descent evaluator written here (C precedence and
associativity over Python integers, ``/`` as floor division as the library documents it, C literal spellings, identifiers looked up in the context
first and in the constants second, ``sizeof(T)`` from the model cstruct object).

The corpus is bounded-exhaustive where it matters: every ordered pair of binary operators in ``a op1 b op2 c`` (precedence and associativity decide
the grouping), every unary operator in front of and behind every binary operator, parentheses around either half, and a list of fixed texts for
literals, suffixes, lookups (a name bound to 0 in the context with a same-named non-zero constant, names starting with an underscore), ``sizeof``,
ill-formed texts that must be refused, and - on one Expression object - a sequence of evaluations with different contexts (repeatability: the
n-th result depends on the n-th context only).
"""

from __future__ import annotations

import ast
import itertools
from typing import Any

from .folds import repo_exception_parents
from .foldpool import disk_cached
from .minieval import ClassObj, Evaluator, Host, Raised, Refused, Sym, UserFunc
from .model import Repo

BIN = ["|", "^", "&", "<<", ">>", "+", "-", "*", "/", "%"]
C_PREC = {"|": 0, "^": 1, "&": 2, "<<": 3, ">>": 3, "+": 4, "-": 4, "*": 5, "/": 5, "%": 5}
SIZES = {"uint8": 1, "uint32": 4, "hdr": 12}


class RefError(Exception):
    pass


class Odd(int):
    """An int subclass whose own arithmetic is not integer arithmetic (as enum / flag members and pointers have): an operand taken from the context or
    the constants must be converted to a plain int before the operators see it."""

    def _odd(self, other):
        return 424242

    __add__ = __radd__ = __sub__ = __rsub__ = __mul__ = __rmul__ = __or__ = __ror__ = __and__ = __rand__ = __xor__ = __rxor__ = _odd
    __lshift__ = __rlshift__ = __rshift__ = __rrshift__ = __floordiv__ = __rfloordiv__ = __mod__ = __rmod__ = __neg__ = __invert__ = _odd


def _tokens(text: str) -> list[str]:
    import re

    toks = re.findall(r"0[xX][0-9a-fA-F]+|0[bB][01]+|[0-9]+|[A-Za-z_][A-Za-z0-9_]*|<<|>>|[-+*/%&^|~()]|\S", text)
    out = []
    i = 0
    while i < len(toks):
        t = toks[i]
        # integer suffixes stick to the literal
        if t[0].isdigit() and i + 1 < len(toks) and toks[i + 1].lower() in ("u", "l", "ul", "lu", "ull", "llu", "ll", "lul") and text[text.find(t) + len(t):text.find(t) + len(t) + 1].isalpha():
            out.append(t)
            i += 2
            continue
        out.append(t)
        i += 1
    return out


def reference(text: str, context: dict[str, int], consts: dict[str, int]) -> int:
    """Independent evaluator: precedence climbing over the C operator table."""
    toks = _tokens(text)
    pos = [0]

    def peek():
        return toks[pos[0]] if pos[0] < len(toks) else None

    def take():
        t = peek()
        if t is None:
            raise RefError("unexpected end")
        pos[0] += 1
        return t

    def atom() -> int:
        t = take()
        if t == "(":
            v = expr(0)
            if take() != ")":
                raise RefError("missing )")
            return v
        if t == "-":
            return -atom()
        if t == "~":
            return ~atom()
        if t == "sizeof":
            if take() != "(":
                raise RefError("sizeof")
            name = take()
            if take() != ")":
                raise RefError("sizeof")
            if name not in SIZES:
                raise RefError("unknown type")
            return SIZES[name]
        if t[0].isdigit():
            if t[:2].lower() == "0x":
                return int(t, 16)
            if t[:2].lower() == "0b":
                return int(t, 2)
            if len(t) > 1 and t[0] == "0":
                return int(t, 8)
            return int(t)
        if t[0].isalpha() or t[0] == "_":
            if t in context:
                return int(context[t])
            if t in consts:
                return int(consts[t])
            raise RefError(f"unknown name {t}")
        raise RefError(f"unexpected {t}")

    def expr(min_prec: int) -> int:
        left = atom()
        while True:
            op = peek()
            if op not in C_PREC or C_PREC[op] < min_prec:
                return left
            take()
            right = expr(C_PREC[op] + 1)  # left associative
            if op in ("/", "%") and right == 0:
                raise RefError("division by zero")
            if op in ("<<", ">>") and right < 0:
                raise RefError("negative shift")
            left = {"|": left | right, "^": left ^ right, "&": left & right, "<<": left << right if op == "<<" else 0, ">>": left >> right if op == ">>" else 0,
                    "+": left + right, "-": left - right, "*": left * right, "/": left // right if op == "/" else 0, "%": left % right if op == "%" else 0}[op]

    v = expr(0)
    if peek() is not None:
        raise RefError("trailing tokens")
    return v


def corpus() -> list[tuple[str, dict, dict]]:
    """(text, context, constants)"""
    out: list[tuple[str, dict, dict]] = []
    vals = (7, 3, 2)
    for o1, o2 in itertools.product(BIN, repeat=2):
        out.append((f"{vals[0]} {o1} {vals[1]} {o2} {vals[2]}", {}, {}))
        out.append((f"a {o1} b {o2} c", {"a": 29, "b": 5, "c": 3}, {}))
    for o1 in BIN:
        for u in ("-", "~"):
            out.append((f"{u}6 {o1} 2", {}, {}))
            out.append((f"6 {o1} {u}2" if o1 not in ("<<", ">>", "/", "%") else f"6 {o1} {u}{u}2", {}, {}))
            out.append((f"{u}(6 {o1} 2)", {}, {}))
        out.append((f"(9 {o1} 2) * 3", {}, {}))
        out.append((f"3 * (9 {o1} 2)", {}, {}))
        out.append((f"20 {o1} 3 {o1} 2", {}, {}))  # associativity within one operator
    # three operators: a low, high, low pattern needs more than the top of the operator stack to be applied (one per precedence level, plus - and /)
    for o1, o2, o3 in itertools.product(["|", "^", "&", "<<", "-", "*", "/"], repeat=3):
        out.append((f"29 {o1} 5 {o2} 3 {o3} 2", {}, {}))
    for u in ("-", "~"):
        for o1, o2 in itertools.product(["|", "&", "<<", "-", "*"], repeat=2):
            out.append((f"9 {o1} {u}3 {o2} 2", {}, {}))
    fixed = [
        # one-letter and operator-like names are names: nothing the evaluator uses internally (a marker for the unary minus, ...) may be spellable as one
        ("u - 1", {"u": 5}, {}), ("-u", {"u": 3}, {}), ("u * -u + u", {"u": 2}, {}), ("m - u", {"m": 9, "u": 4}, {}), ("x + o + b", {"x": 1, "o": 2, "b": 4}, {}),
        ("sizeofx + 1", {"sizeofx": 2}, {}), ("l", {"l": 7}, {}), ("U + L", {}, {"U": 1, "L": 2}),
        ("n + 1", {"n": Odd(3)}, {}), ("K * 2", {}, {"K": Odd(5)}), ("n", {"n": Odd(7)}, {}), ("-n", {"n": Odd(2)}, {}), ("n << 1 | K", {"n": Odd(1)}, {"K": Odd(4)}),
        ("0x10 + 0b101 + 010 + 9", {}, {}), ("0X1f", {}, {}), ("0B11", {}, {}), ("10u + 1", {}, {}), ("10UL * 2", {}, {}), ("7ull", {}, {}), ("1lu", {}, {}), ("0", {}, {}),
        ("00", {}, {}), ("- - 3", {}, {}), ("~~5", {}, {}), ("-~5", {}, {}), ("2 - -3", {}, {}), ("2 - - -3", {}, {}), ("(((4)))", {}, {}), ("2*(3+(4-1))", {}, {}),
        ("n", {"n": 0}, {"n": 5}), ("n", {"n": 4}, {"n": 5}), ("n", {}, {"n": 5}), ("n * 2", {"n": 0}, {"n": 5}), ("_len", {"_len": 3}, {"_len": 9}), ("_len * 1", {"_len": 0}, {"_len": 9}),
        ("a_b + a", {"a": 1, "a_b": 10}, {"b": 100}), ("count1 + 1", {"count1": 4}, {}), ("K", {}, {"K": 0}), ("K + 1", {"J": 7}, {"K": 2}), ("x", {"x": True}, {}),
        ("sizeof(uint32)", {}, {}), ("sizeof(hdr) * 2 + 1", {}, {}), ("2 * sizeof(uint8)", {}, {}), ("n + sizeof(uint32)", {"n": 1}, {}),
        ("1 << 2 + 1", {}, {}), ("1 + 2 << 1", {}, {}), ("6 & 3 + 1", {}, {}), ("6 | 1 ^ 3 & 2", {}, {}), ("7 - 2 - 1", {}, {}), ("64 / 4 / 2", {}, {}), ("64 >> 2 >> 1", {}, {}),
        ("7 % 4 * 2", {}, {}), ("-7 / 2", {}, {}), ("-7 % 3", {}, {}), ("1\t+\t2", {}, {}), (" 1 ", {}, {}),
    ]
    out += fixed
    bad = ["", "1 +", "* 2", "(1 + 2", "1 + 2)", "()", "1 2", "unknown", "1 $ 2", "sizeof(nosuch)", "sizeof uint8", "0x", "3 (4)", "1 / 0"]
    out += [(t, {}, {}) for t in bad]
    return out


SEQUENCES = [
    ("n", {"n": 5}, [{"n": 2}, {"n": 1}, {"n": 0}, {"n": 7}, {}]),
    ("n * 2 + k", {"k": 1}, [{"n": 3}, {"n": 0}, {"n": 3, "k": 0}, {"n": 1}]),
    ("sizeof(uint32) + n", {}, [{"n": 1}, {"n": 2}, {"n": 1}]),
    ("1 + n", {}, [{"n": 1}, {}, {"n": 2}, {}, {"n": 3}]),  # a failed evaluation (unknown name) in between leaves nothing behind
    ("(n + 2) * 3", {}, [{}, {"n": 1}]),
]


class Harness:
    def __init__(self, repo: Repo):
        self.repo = repo
        self.mod = repo.module("expression.py")
        if "Expression" not in {n.name for n in self.mod.tree.body if isinstance(n, ast.ClassDef)}:
            raise Refused("Expression class not found")
        self.parents = repo_exception_parents(repo)

    def env(self) -> dict[str, Any]:
        import string

        env: dict[str, Any] = {
            "string": Sym("string", {k: getattr(string, k) for k in ("hexdigits", "digits", "ascii_letters", "octdigits", "ascii_lowercase", "ascii_uppercase", "whitespace")}),
            "__exc_parents__": self.parents, "int": int, "str": str, "len": len, "set": set, "list": list, "TYPE_CHECKING": False, "isinstance": isinstance,
            "__name__": "dissect.cstruct.expression", "ClassVar": Sym("ClassVar"), "Callable": Sym("Callable"),
        }
        ev = Evaluator(env, steps=20000)
        for st in self.mod.tree.body:
            if isinstance(st, ast.FunctionDef):
                env[st.name] = UserFunc(st, env)
            elif isinstance(st, ast.ClassDef):
                env[st.name] = ClassObj(st, env)
            elif isinstance(st, (ast.Assign, ast.AnnAssign)):
                ev.steps = 20000
                ev.run([st], env)
        return env

    @staticmethod
    def cs(consts: dict[str, int]) -> Sym:
        def resolve(name):
            if name not in SIZES:
                raise Raised("ResolveError('Unknown type')")
            t = Sym(f"type:{name}", {"size": SIZES[name]})
            t.methods["__len__"] = Host(lambda: SIZES[name])
            return t

        return Sym("cs", {"consts": dict(consts)}, {"resolve": Host(resolve)})


def _len_host(o):
    if isinstance(o, Sym) and o.label.startswith("type:"):
        return o.attrs["size"]
    return len(o)


@disk_cached('expression', ('expression.py', 'exceptions.py'))
def fold_expression(repo: Repo) -> dict | None:
    try:
        h = Harness(repo)
        env = h.env()
    except (Refused, Raised):
        return None
    env["len"] = Host(_len_host)
    out: dict = {"cases": 0, "bad": [], "sequences": 0}
    make = ast.parse("Expression(cs, text)", mode="eval").body

    def run(text, context, consts, inst=None):
        """-> ('ok', value, inst) | ('raise', name, inst)"""
        ev = Evaluator(env, steps=60000)
        try:
            if inst is None:
                inst = ev.ev(make, {**env, "cs": Harness.cs(consts), "text": text})
            ev.steps = 60000
            v = ev.call_user(inst.methods["evaluate"], [inst, dict(context)] if context is not None else [inst], {})
            return ("ok", v, inst)
        except Raised as e:
            return ("raise", str(e).split("(")[0].split(":")[0].strip(), inst)
        except (ZeroDivisionError, ValueError, OverflowError) as e:
            return ("raise", type(e).__name__, inst)

    try:
        for text, context, consts in corpus():
            try:
                want: Any = ("ok", reference(text, context, consts))
            except RefError as e:
                want = ("raise", str(e))
            got = run(text, context, consts)
            out["cases"] += 1
            if want[0] == "ok":
                if got[0] != "ok" or got[1] != want[1] or type(got[1]) is not int:
                    out["bad"].append((text, context, consts, f"{got[1]!r}" if got[0] == "ok" else f"raises {got[1]}", f"{want[1]!r}"))
            elif got[0] == "ok":
                out["bad"].append((text, context, consts, f"{got[1]!r}", f"an error ({want[1]})"))
            if len(out["bad"]) > 40:
                return out
        # repeatability: one object, several contexts; the n-th result is what a fresh object gives for the n-th context
        for text, consts, contexts in SEQUENCES:
            inst = None
            for k, ctx in enumerate(contexts):
                try:
                    want = ("ok", reference(text, ctx, consts))
                except RefError as e:
                    want = ("raise", str(e))
                got = run(text, ctx, consts, inst)
                inst = got[2]
                out["sequences"] += 1
                ok = (got[0] == "ok" and want[0] == "ok" and got[1] == want[1]) or (got[0] == "raise" and want[0] == "raise")
                if not ok:
                    out["bad"].append((text, ctx, consts, (f"{got[1]!r}" if got[0] == "ok" else f"raises {got[1]}") + f" on evaluation {k + 1} of one Expression object "
                                       f"(contexts so far {contexts[:k + 1]})", f"{want[1]!r}" if want[0] == "ok" else f"an error ({want[1]})"))
                if inst is None:
                    break
        return out
    except Refused:
        return None
    except (TypeError, KeyError, IndexError, AttributeError):
        return None
