"""Finite truth-table evaluation of guard expressions over named atoms (no solver)."""

from __future__ import annotations

import ast
import itertools
from typing import Callable

from .util import norm

# an interpretation maps a sub-expression to:  a bool constant, a name of an atom (str), ('not', atom-name), or None
Interp = Callable[[ast.AST], object]


class Formula:
    """Propositional formula built from an expression; unknown sub-expressions become free atoms keyed by text."""

    def __init__(self, expr: ast.AST, interp: Interp | None = None):
        self.atoms: list[str] = []
        self.interp = interp or (lambda e: None)
        self.tree = self._build(expr)

    def _atom(self, name: str):
        if name not in self.atoms:
            self.atoms.append(name)
        return ("atom", name)

    def _build(self, e: ast.AST):
        r = self.interp(e)
        if r is not None:
            return self._from_interp(r)
        if isinstance(e, ast.BoolOp):
            return ("and" if isinstance(e.op, ast.And) else "or", [self._build(v) for v in e.values])
        if isinstance(e, ast.UnaryOp) and isinstance(e.op, ast.Not):
            return ("not", self._build(e.operand))
        if isinstance(e, ast.Constant) and isinstance(e.value, (bool, int, type(None))):
            return ("const", bool(e.value))
        if isinstance(e, ast.NamedExpr):
            return self._build(e.value)
        if isinstance(e, ast.Compare) and len(e.ops) == 1:
            op = e.ops[0]
            l, r2 = norm(e.left), norm(e.comparators[0])
            neg = {ast.NotEq: ast.Eq, ast.IsNot: ast.Is, ast.NotIn: ast.In}
            if type(op) in neg:
                pos = ast.Compare(left=e.left, ops=[neg[type(op)]()], comparators=e.comparators)
                return ("not", self._build(pos))
            if isinstance(op, ast.Eq) and r2 < l:
                l, r2 = r2, l
            sym = {ast.Eq: "==", ast.Is: "is", ast.In: "in", ast.Lt: "<", ast.LtE: "<=", ast.Gt: ">", ast.GtE: ">="}.get(type(op), "?")
            return self._atom(f"({l}) {sym} ({r2})")
        return self._atom(norm(e))

    def _from_interp(self, r):
        if isinstance(r, bool):
            return ("const", r)
        if isinstance(r, str):
            return self._atom(r)
        if isinstance(r, tuple):
            kind = r[0]
            if kind == "not":
                return ("not", self._from_interp(r[1]))
            if kind in ("and", "or"):
                return (kind, [self._from_interp(x) for x in r[1]])
        raise ValueError(r)

    def eval(self, env: dict[str, bool]) -> bool:
        def ev(t) -> bool:
            k = t[0]
            if k == "const":
                return t[1]
            if k == "atom":
                return env[t[1]]
            if k == "not":
                return not ev(t[1])
            if k == "and":
                return all(ev(x) for x in t[1])
            if k == "or":
                return any(ev(x) for x in t[1])
            raise ValueError(k)

        return ev(self.tree)

    def always(self, fixed: dict[str, bool], want: bool = True) -> bool:
        """Formula == want under every assignment of the free atoms once ``fixed`` is imposed."""
        free = [a for a in self.atoms if a not in fixed]
        if len(free) > 12:
            return False
        for vals in itertools.product((False, True), repeat=len(free)):
            env = dict(fixed)
            env.update(zip(free, vals))
            if self.eval(env) != want:
                return False
        return True

    def satisfiable_with(self, fixed: dict[str, bool], want: bool = True) -> bool:
        free = [a for a in self.atoms if a not in fixed]
        for vals in itertools.product((False, True), repeat=len(free)):
            env = dict(fixed)
            env.update(zip(free, vals))
            if self.eval(env) == want:
                return True
        return False


def equivalent(f: Formula, g: Formula, fixed: dict[str, bool] | None = None) -> bool:
    fixed = fixed or {}
    atoms = sorted(set(f.atoms) | set(g.atoms))
    free = [a for a in atoms if a not in fixed]
    for vals in itertools.product((False, True), repeat=len(free)):
        env = dict(fixed)
        env.update(zip(free, vals))
        for a in atoms:
            env.setdefault(a, False)
        if f.eval(env) != g.eval(env):
            return False
    return True


def implies(f: Formula, g: Formula, fixed: dict[str, bool] | None = None) -> bool:
    fixed = fixed or {}
    atoms = sorted(set(f.atoms) | set(g.atoms))
    free = [a for a in atoms if a not in fixed]
    for vals in itertools.product((False, True), repeat=len(free)):
        env = dict(fixed)
        env.update(zip(free, vals))
        if f.eval(env) and not g.eval(env):
            return False
    return True
