"""Small AST helpers shared by every rule."""

from __future__ import annotations

import ast
from typing import Iterable, Iterator


class AnalysisError(Exception):
    """The checker could not analyse the tree (vanished anchor, count below floor, unknown construct)."""


FUNC_TYPES = (ast.FunctionDef, ast.AsyncFunctionDef, ast.Lambda)
SCOPE_TYPES = (ast.FunctionDef, ast.AsyncFunctionDef, ast.Lambda, ast.ClassDef)


def chain(node: ast.AST | None) -> tuple[str, ...] | None:
    """``cls.cs.endian`` -> ('cls', 'cs', 'endian');  None if not a pure Name/Attribute chain."""
    parts: list[str] = []
    while isinstance(node, ast.Attribute):
        parts.append(node.attr)
        node = node.value
    if isinstance(node, ast.Name):
        parts.append(node.id)
        return tuple(reversed(parts))
    return None


def root_name(node: ast.AST | None) -> str | None:
    """Name at the root of an attribute / subscript / call chain."""
    while True:
        if isinstance(node, ast.Attribute):
            node = node.value
        elif isinstance(node, ast.Subscript):
            node = node.value
        elif isinstance(node, ast.Starred):
            node = node.value
        else:
            break
    if isinstance(node, ast.Name):
        return node.id
    return None


def norm(node: ast.AST | None) -> str:
    """Layout-independent text of a node."""
    if node is None:
        return ""
    try:
        return ast.unparse(node)
    except Exception:  # pragma: no cover
        return ast.dump(node)


def short(node: ast.AST | None, n: int = 110) -> str:
    s = " ".join(norm(node).split())
    return s if len(s) <= n else s[: n - 3] + "..."


def stmt_head(node: ast.AST, n: int = 110) -> str:
    """First line of a (possibly compound) statement, normalised."""
    if isinstance(node, (ast.If, ast.While)):
        kw = "if" if isinstance(node, ast.If) else "while"
        return short(ast.parse(f"{kw} {norm(node.test)}: pass").body[0], n).replace(":\n    pass", ":").replace(": pass", ":")
    if isinstance(node, ast.For):
        return f"for {norm(node.target)} in {short(node.iter, n)}:"
    if isinstance(node, ast.With):
        return "with " + ", ".join(norm(i) for i in node.items) + ":"
    if isinstance(node, ast.Try):
        return "try:"
    if isinstance(node, (ast.FunctionDef, ast.AsyncFunctionDef)):
        return f"def {node.name}(...)"
    if isinstance(node, ast.ClassDef):
        return f"class {node.name}"
    return short(node, n)


def walk_local(node: ast.AST, *, include_root: bool = True) -> Iterator[ast.AST]:
    """ast.walk that does not descend into nested function / class scopes (lambdas and comprehensions are entered)."""
    stack = [node]
    first = True
    while stack:
        cur = stack.pop()
        if not first and isinstance(cur, (ast.FunctionDef, ast.AsyncFunctionDef, ast.ClassDef)):
            continue
        if first:
            first = False
            if include_root:
                yield cur
        else:
            yield cur
        stack.extend(reversed(list(ast.iter_child_nodes(cur))))


def walk_body(body: Iterable[ast.stmt]) -> Iterator[ast.AST]:
    for st in body:
        if isinstance(st, (ast.FunctionDef, ast.AsyncFunctionDef, ast.ClassDef)):
            yield st
            continue
        yield from walk_local(st)


def calls(node: ast.AST) -> Iterator[ast.Call]:
    for n in walk_local(node):
        if isinstance(n, ast.Call):
            yield n


def call_name(call: ast.Call) -> str | None:
    """Last component of the callee: ``a.b.c(...)`` -> 'c', ``f(...)`` -> 'f'."""
    f = call.func
    if isinstance(f, ast.Attribute):
        return f.attr
    if isinstance(f, ast.Name):
        return f.id
    return None


def names_loaded(node: ast.AST) -> set[str]:
    return {n.id for n in ast.walk(node) if isinstance(n, ast.Name) and isinstance(n.ctx, ast.Load)}


def names_stored(node: ast.AST) -> set[str]:
    out = set()
    for n in ast.walk(node):
        if isinstance(n, ast.Name) and isinstance(n.ctx, (ast.Store, ast.Del)):
            out.add(n.id)
    return out


def const_value(node: ast.AST | None):
    """Fold a constant expression (numbers, strings, tuples, unary minus, simple binops). Raises ValueError."""
    if isinstance(node, ast.Constant):
        return node.value
    if isinstance(node, ast.UnaryOp) and isinstance(node.op, (ast.USub, ast.UAdd, ast.Invert, ast.Not)):
        v = const_value(node.operand)
        return {ast.USub: lambda a: -a, ast.UAdd: lambda a: +a, ast.Invert: lambda a: ~a, ast.Not: lambda a: not a}[
            type(node.op)
        ](v)
    if isinstance(node, (ast.Tuple, ast.List)):
        return tuple(const_value(e) for e in node.elts)
    if isinstance(node, ast.Set):
        return frozenset(const_value(e) for e in node.elts)
    if isinstance(node, ast.BinOp):
        a, b = const_value(node.left), const_value(node.right)
        ops = {
            ast.Add: lambda: a + b,
            ast.Sub: lambda: a - b,
            ast.Mult: lambda: a * b,
            ast.FloorDiv: lambda: a // b,
            ast.Mod: lambda: a % b,
            ast.Pow: lambda: a**b,
            ast.LShift: lambda: a << b,
            ast.RShift: lambda: a >> b,
            ast.BitOr: lambda: a | b,
            ast.BitAnd: lambda: a & b,
            ast.BitXor: lambda: a ^ b,
        }
        if type(node.op) in ops:
            return ops[type(node.op)]()
    raise ValueError(f"not a constant: {norm(node)}")


def is_const(node: ast.AST | None) -> bool:
    try:
        const_value(node)
        return True
    except (ValueError, TypeError, ZeroDivisionError):
        return False


def always_raises(body: list[ast.stmt]) -> bool:
    """True when every path through ``body`` ends in ``raise`` (syntactic, no loops needed)."""
    if not body:
        return False
    last = body[-1]
    if isinstance(last, ast.Raise):
        return True
    if isinstance(last, ast.If):
        return bool(last.orelse) and always_raises(last.body) and always_raises(last.orelse)
    if isinstance(last, ast.With):
        return always_raises(last.body)
    return False


def always_leaves(body: list[ast.stmt]) -> bool:
    """True when every path through ``body`` ends in raise / return / continue / break."""
    if not body:
        return False
    last = body[-1]
    if isinstance(last, (ast.Raise, ast.Return, ast.Continue, ast.Break)):
        return True
    if isinstance(last, ast.If):
        return bool(last.orelse) and always_leaves(last.body) and always_leaves(last.orelse)
    if isinstance(last, ast.With):
        return always_leaves(last.body)
    return False


def raised_names(body: list[ast.stmt]) -> set[str]:
    out = set()
    for n in walk_body(body):
        if isinstance(n, ast.Raise) and n.exc is not None:
            e = n.exc.func if isinstance(n.exc, ast.Call) else n.exc
            c = chain(e)
            if c:
                out.add(c[-1])
    return out


def strip_docstring(body: list[ast.stmt]) -> list[ast.stmt]:
    if body and isinstance(body[0], ast.Expr) and isinstance(body[0].value, ast.Constant) and isinstance(body[0].value.value, str):
        return body[1:]
    return body


def parent_map(tree: ast.AST) -> dict[ast.AST, ast.AST]:
    pm: dict[ast.AST, ast.AST] = {}
    for p in ast.walk(tree):
        for c in ast.iter_child_nodes(p):
            pm[c] = p
    return pm


def enclosing_stmt(node: ast.AST, pm: dict[ast.AST, ast.AST]) -> ast.stmt | None:
    cur = node
    while cur is not None and not isinstance(cur, ast.stmt):
        cur = pm.get(cur)
    return cur


def single_defs(fn: ast.AST) -> dict[str, ast.AST]:
    """Local names of a function that are bound exactly once, by a plain ``name = value`` assignment -> that value."""
    seen: dict[str, list[ast.AST | None]] = {}
    for n in walk_body(fn.body):
        if isinstance(n, ast.Assign) and len(n.targets) == 1 and isinstance(n.targets[0], ast.Name):
            seen.setdefault(n.targets[0].id, []).append(n.value)
        elif isinstance(n, ast.AnnAssign) and isinstance(n.target, ast.Name) and n.value is not None:
            seen.setdefault(n.target.id, []).append(n.value)
        elif isinstance(n, ast.Name) and isinstance(n.ctx, (ast.Store, ast.Del)):
            seen.setdefault(n.id, []).append(None)
    out = {}
    for k, v in seen.items():
        vals = [x for x in v if x is not None]
        # every plain assignment also shows up once as a Store name: one value and one store means a single binding
        if len(vals) == 1 and len(v) == 2:
            out[k] = vals[0]
    return out


def resolve_local(fn: ast.AST, expr: ast.AST | None, depth: int = 4) -> ast.AST | None:
    """Follow ``expr`` through singly-bound locals (copies / hoisted sub-expressions) to the expression that produces the value."""
    defs = single_defs(fn)
    while depth and isinstance(expr, ast.Name) and expr.id in defs:
        expr = defs[expr.id]
        depth -= 1
    return expr


def in_progress_result_names(fn: ast.AST) -> set[str]:
    """Local dicts that receive ``X[<field name>] = <value>`` in a reader (the in-progress result) - not the size bookkeeping, whose stored value is
    computed from stream positions."""
    out: set[str] = set()
    for st in ast.walk(fn):
        if isinstance(st, ast.Assign) and len(st.targets) == 1 and isinstance(st.targets[0], ast.Subscript) and isinstance(st.targets[0].value, ast.Name):
            sl = norm(resolve_local(fn, st.targets[0].slice))
            if "name" not in sl:
                continue
            v = st.value
            positional = isinstance(v, ast.BinOp) or any(isinstance(c, ast.Call) and call_name(c) == "tell" for c in ast.walk(v))
            if not positional:
                out.add(st.targets[0].value.id)
    return out
