"""Restricted partial evaluator (constant folding over a whitelist of pure constructs).

Used to instantiate the repository's code *templates* for concrete arities and to fold small pure
arithmetic fragments.  It interprets AST nodes of a fixed whitelist over ints / strs / lists / tuples /
dicts and a few symbolic helper objects defined in the checker; anything else raises ``Refused``.
Nothing from the repository is imported or executed - the function objects of the repository never
exist in this process.
"""

from __future__ import annotations

import ast
import textwrap
from typing import Any

from .util import norm


class Refused(Exception):
    pass


class Exhausted(Refused):
    """The step budget ran out: the interpreted fragment loops (far) longer than any of the checker's inputs can justify."""


class Raised(Exception):
    """The interpreted fragment executed a ``raise`` statement (payload: the normalised exception expression)."""


SAFE_BUILTINS = {
    "len": len, "range": range, "enumerate": enumerate, "str": str, "int": int, "list": list, "tuple": tuple, "sum": sum, "max": max, "min": min,
    "dedent": textwrap.dedent, "indent": textwrap.indent, "zip": zip, "next": next, "iter": iter, "isinstance": isinstance, "sorted": sorted, "repr": repr, "bool": bool, "abs": abs, "reversed": reversed, "ord": ord, "chr": chr, "set": set, "frozenset": frozenset, "any": any, "all": all, "dict": dict, "map": map, "filter": filter, "bytes": bytes, "bytearray": bytearray, "divmod": divmod,
}
SAFE_METHODS = {
    str: {"encode", "isdigit", "isalpha", "isalnum", "isnumeric", "isidentifier", "isspace", "join", "strip", "lstrip", "rstrip", "format", "startswith", "endswith", "split", "replace", "upper", "lower", "partition",
          "count", "find", "rfind", "index", "rindex", "splitlines", "rsplit", "rpartition", "removeprefix", "removesuffix", "zfill", "ljust", "rjust", "center", "title", "capitalize", "casefold",
          "swapcase", "isupper", "islower", "isdecimal", "isascii", "isprintable", "expandtabs", "format_map"},
    int: {"bit_length", "to_bytes"},
    list: {"index", "count", "copy", "append", "extend", "insert", "pop", "clear", "remove", "reverse", "sort"},
    set: {"union", "intersection", "difference", "issubset", "issuperset", "copy", "add", "discard", "update", "remove", "clear"},
    frozenset: {"union", "intersection", "difference", "issubset", "issuperset"},
    tuple: {"index", "count"},
    dict: {"get", "keys", "values", "items", "setdefault", "update", "pop", "popitem", "copy", "clear"},
    bytearray: {"append", "extend", "find", "rfind", "index", "count", "startswith", "endswith", "decode", "hex", "clear", "split", "partition", "strip", "rstrip", "lstrip", "ljust", "rjust", "center", "zfill", "replace"},
    bytes: {"hex", "startswith", "endswith", "decode", "join", "find", "rfind", "index", "count", "split", "partition", "rpartition", "strip", "rstrip", "lstrip", "replace", "ljust", "rjust", "center", "zfill", "upper", "lower", "isdigit", "isalpha", "removeprefix", "removesuffix"},
}
import re as _re_mod

_RE_MATCH = type(_re_mod.match("", ""))
_RE_PATTERN = type(_re_mod.compile(""))
SAFE_METHODS[_RE_MATCH] = {"group", "groups", "groupdict", "start", "end", "span", "expand"}
SAFE_METHODS[_RE_PATTERN] = {"match", "search", "fullmatch", "findall", "finditer", "sub", "subn", "split"}
def _int_new(c: Any = None, v: Any = 0, *a: Any) -> int:
    """int.__new__(cls, value): the models carry scalar values as plain integers, whatever int subclass the code names."""
    if isinstance(v, (str, bytes)) or a:
        return int(v, *a)
    return int(v)


_SAFE_STATIC = {("int", "from_bytes"): (int, int.from_bytes), ("bytes", "fromhex"): (bytes, bytes.fromhex), ("str", "join"): (str, str.join),
                ("int", "__new__"): (int, _int_new)}
_BIN = {
    ast.Add: lambda a, b: a + b, ast.Sub: lambda a, b: a - b, ast.Mult: lambda a, b: a * b, ast.FloorDiv: lambda a, b: a // b,
    ast.Mod: lambda a, b: a % b, ast.Pow: lambda a, b: a ** b if not (isinstance(b, int) and b > 4096) else (_ for _ in ()).throw(Refused("pow too large")),
    ast.LShift: lambda a, b: a << b if b < 4096 else (_ for _ in ()).throw(Refused("shift too large")), ast.RShift: lambda a, b: a >> b,
    ast.BitAnd: lambda a, b: a & b, ast.BitOr: lambda a, b: a | b, ast.BitXor: lambda a, b: a ^ b,
}
_CMP = {
    ast.Eq: lambda a, b: a == b, ast.NotEq: lambda a, b: a != b, ast.Lt: lambda a, b: a < b, ast.LtE: lambda a, b: a <= b, ast.Gt: lambda a, b: a > b,
    ast.GtE: lambda a, b: a >= b, ast.Is: lambda a, b: a is b, ast.IsNot: lambda a, b: a is not b, ast.In: lambda a, b: a in b, ast.NotIn: lambda a, b: a not in b,
}


class Sym:
    """Opaque symbolic object with whitelisted attributes / zero-argument methods returning other values."""

    def __init__(self, label: str, attrs: dict[str, Any] | None = None, methods: dict[str, Any] | None = None):
        self.label = label
        self.attrs = attrs or {}
        self.methods = methods or {}

    def __repr__(self) -> str:
        return f"<{self.label}>"

    def __eq__(self, other: object) -> bool:
        return isinstance(other, Sym) and other.label == self.label

    def __hash__(self) -> int:
        return hash(self.label)


def _own_nodes(fn: ast.AST):
    """Nodes of a function body without those of nested functions / lambdas / classes."""
    stack = list(ast.iter_child_nodes(fn))
    while stack:
        n = stack.pop()
        yield n
        if not isinstance(n, (ast.FunctionDef, ast.AsyncFunctionDef, ast.Lambda, ast.ClassDef)):
            stack.extend(ast.iter_child_nodes(n))


class UserFunc:
    """A function of the analysed repository given as AST; calling it interprets its body with this evaluator."""

    def __init__(self, node: ast.FunctionDef, env: dict[str, Any] | None = None, closure: bool = False):
        self.node = node
        self.env = env if env is not None else {}
        self.closure = closure  # env is the live frame of the enclosing function: read at call time, written through 'nonlocal'
        decos = {norm(d).split(".")[-1] for d in getattr(node, "decorator_list", [])}
        self.static = "staticmethod" in decos
        self.classmethod = "classmethod" in decos
        self.property = bool(decos & {"property", "cached_property"})
        self.generator = any(isinstance(n, (ast.Yield, ast.YieldFrom)) for n in _own_nodes(node))


class GenList:
    """Result of calling a generator function of the interpreted fragment: evaluated eagerly, handed out once (like a generator, a second
    iteration yields nothing).  Storing it in a variable for later is refused - only immediate consumption is the same eagerly and lazily."""

    def __init__(self, items: list):
        self.items = items
        self.consumed = False

    def __iter__(self):
        if self.consumed:
            return iter(())
        self.consumed = True
        return iter(self.items)


class ClassObj:
    """A class of the analysed repository given as AST: calling it makes a symbolic instance and interprets ``__init__``."""

    _n = 0

    def __init__(self, node: ast.ClassDef, env: dict[str, Any]):
        self.node, self.env = node, env
        self.methods: dict[str, UserFunc] = {}
        self.attrs: dict[str, Any] = {}
        self.mro_classes: list = []
        for b in node.bases:
            base = env.get(norm(b))
            if isinstance(base, ClassObj):
                self.methods.update(base.methods)
                self.attrs.update(base.attrs)
                self.mro_classes += [base, *base.mro_classes]
            elif norm(b) not in ("object",):
                self.opaque_base = norm(b)
        decos = {norm(d.func if isinstance(d, ast.Call) else d).split(".")[-1] for d in node.decorator_list}
        self.record = "dataclass" in decos or any(norm(b_).split(".")[-1] == "NamedTuple" for b_ in node.bases)
        if self.record and getattr(self, "opaque_base", "").split(".")[-1] == "NamedTuple":
            del self.opaque_base
        self.fields: list[tuple[str, ast.AST | None]] = list(getattr(next((env.get(norm(b_)) for b_ in node.bases if isinstance(env.get(norm(b_)), ClassObj)), None), "fields", []))
        for st in node.body:
            if isinstance(st, ast.FunctionDef):
                self.methods[st.name] = UserFunc(st, env)
                self.methods[st.name].owner = self
            elif isinstance(st, ast.AnnAssign) and isinstance(st.target, ast.Name):
                self.fields.append((st.target.id, st.value))
                if not self.record and st.value is not None:
                    self._class_attr(st.target.id, st.value)
            elif isinstance(st, ast.Assign) and len(st.targets) == 1 and isinstance(st.targets[0], ast.Name) and isinstance(st.value, ast.Constant):
                self.attrs[st.targets[0].id] = st.value.value
            elif isinstance(st, ast.Assign) and len(st.targets) == 1 and isinstance(st.targets[0], ast.Name):
                self._class_attr(st.targets[0].id, st.value)

    def _class_attr(self, name: str, value: ast.AST) -> None:
        """A class-level table (dict / tuple / set literal, possibly of lambdas) evaluated once, in the class body's scope; left out when it is outside the whitelist."""
        if isinstance(value, ast.Constant):
            self.attrs[name] = value.value
            return
        try:
            self.attrs[name] = Evaluator(self.env, steps=20000).ev(value, {**self.env, **self.attrs})
        except (Refused, Raised, TypeError, ValueError, KeyError, AttributeError, IndexError):
            pass

    def __repr__(self) -> str:
        return f"<class {self.node.name}>"


class Host:
    """A callable defined by the checker itself (never by the repository) that templates may call."""

    def __init__(self, fn):
        self.fn = fn


class LambdaFn:
    """A lambda of the interpreted fragment: callable from the evaluator and from whitelisted builtins (sorted / max / min keys, map)."""

    def __init__(self, ev: "Evaluator", node: ast.Lambda, env: dict[str, Any]):
        self.ev, self.node, self.env = ev, node, env
        self.default_values = [ev.ev(d_, env) for d_ in node.args.defaults]  # evaluated when the lambda expression is (early binding idiom)

    def __call__(self, *args: Any) -> Any:
        a = self.node.args
        params = [x.arg for x in [*a.posonlyargs, *a.args]]
        if len(args) > len(params) or a.vararg or a.kwarg or a.kwonlyargs:
            raise Refused("lambda call shape")
        env = dict(self.env)
        env.update(zip(params, args))
        nd = len(a.defaults)
        for i, p_ in enumerate(params):
            if p_ not in env or i >= len(args):
                j = i - (len(params) - nd)
                if i >= len(args):
                    if j < 0:
                        raise Refused("lambda argument missing")
                    env[p_] = self.default_values[j]
        return self.ev.ev(self.node.body, env)


class Evaluator:
    def __init__(self, env: dict[str, Any] | None = None, steps: int = 200000):
        self.env = dict(env or {})
        self.steps = steps

    def call_user(self, f: "UserFunc", args: list, kwargs: dict) -> Any:
        a = f.node.args
        params = [x.arg for x in [*a.posonlyargs, *a.args]]
        env = dict(self.env)
        env.update(f.env)
        if len(args) > len(params) and a.vararg is None:
            raise Refused("too many arguments")
        bound = dict(zip(params, args))
        if a.vararg is not None:
            bound[a.vararg.arg] = tuple(args[len(params):])
        extra_kw: dict[str, Any] = {}
        for k, v in kwargs.items():
            if k not in params and k not in [x.arg for x in a.kwonlyargs]:
                if a.kwarg is None:
                    raise Refused(f"unexpected keyword {k}")
                extra_kw[k] = v
                continue
            bound[k] = v
        if a.kwarg is not None:
            bound[a.kwarg.arg] = extra_kw
        ndef = len(a.defaults)
        for i, p in enumerate(params):
            if p not in bound:
                j = i - (len(params) - ndef)
                if j < 0:
                    raise Refused(f"missing argument {p}")
                dv = getattr(f, "default_values", None)
                bound[p] = dv[j] if dv is not None else self.ev(a.defaults[j], env)
        for i_kw, (kw, d) in enumerate(zip(a.kwonlyargs, a.kw_defaults)):
            if kw.arg not in bound:
                if d is None:
                    raise Refused(f"missing keyword {kw.arg}")
                kdv = getattr(f, "kw_default_values", None)
                bound[kw.arg] = kdv[i_kw] if kdv is not None else self.ev(d, env)
        env.update(bound)
        owner = getattr(f, "owner", None)
        if owner is not None and owner.mro_classes and params and args and isinstance(args[0], Sym):
            inst_, ev_ = args[0], self

            def _super(*_a, owner=owner, inst_=inst_, ev_=ev_):
                proxy = Sym(f"super:{owner.node.name}")
                for base in reversed(owner.mro_classes):
                    for mn, mf in base.methods.items():
                        proxy.methods[mn] = Host(lambda *a, _mf=mf, **k: ev_.call_user(_mf, [inst_, *a], k))
                return proxy

            env["super"] = Host(_super)
        env.pop("__nonlocal__", None)
        env["__outer__"] = f.env if f.closure else None
        if f.generator:
            out: list = []
            env["__yield__"] = out
            self.run(f.node.body, env)
            return GenList(out)
        env["__yield__"] = None
        r = self.run(f.node.body, env)
        return r[1]

    def _tick(self) -> None:
        self.steps -= 1
        if self.steps < 0:
            raise Exhausted("evaluation budget exhausted")

    # ------------------------------------------------------------------ expressions
    def ev(self, e: ast.AST, env: dict[str, Any] | None = None) -> Any:
        self._tick()
        env = self.env if env is None else env
        if isinstance(e, ast.Constant):
            return e.value
        if isinstance(e, ast.Name):
            if e.id in env:
                return env[e.id]
            if e.id in SAFE_BUILTINS:
                return SAFE_BUILTINS[e.id]
            raise Refused(f"unknown name {e.id}")
        if isinstance(e, ast.JoinedStr):
            out = []
            for v in e.values:
                if isinstance(v, ast.Constant):
                    out.append(str(v.value))
                else:
                    val = self.ev(v.value, env)
                    if v.conversion == 114:
                        val = repr(val)
                    if v.format_spec is not None:
                        val = format(val, self.ev(v.format_spec, env))
                    out.append(str(val))
            return "".join(out)
        if isinstance(e, (ast.Tuple, ast.List, ast.Set)):
            out = []
            for x in e.elts:
                if isinstance(x, ast.Starred):
                    out.extend(self.ev(x.value, env))
                else:
                    out.append(self.ev(x, env))
            return tuple(out) if isinstance(e, ast.Tuple) else (set(out) if isinstance(e, ast.Set) else out)
        if isinstance(e, ast.Dict):
            outd0: dict = {}
            for k, v in zip(e.keys, e.values):
                if k is None:
                    more = self.ev(v, env)
                    if not isinstance(more, dict):
                        raise Refused("** of a non-dict in a dict display")
                    outd0.update(more)
                else:
                    outd0[self.ev(k, env)] = self.ev(v, env)
            return outd0
        if isinstance(e, ast.BinOp):
            if type(e.op) not in _BIN:
                raise Refused(f"operator {type(e.op).__name__}")
            return _BIN[type(e.op)](self.ev(e.left, env), self.ev(e.right, env))
        if isinstance(e, ast.UnaryOp):
            v = self.ev(e.operand, env)
            return {ast.USub: lambda: -v, ast.UAdd: lambda: +v, ast.Invert: lambda: ~v, ast.Not: lambda: not v}[type(e.op)]()
        if isinstance(e, ast.BoolOp):
            val = None
            for x in e.values:
                val = self.ev(x, env)
                if isinstance(e.op, ast.Or) and val:
                    return val
                if isinstance(e.op, ast.And) and not val:
                    return val
            return val
        if isinstance(e, ast.IfExp):
            return self.ev(e.body, env) if self.ev(e.test, env) else self.ev(e.orelse, env)
        if isinstance(e, ast.Compare):
            left = self.ev(e.left, env)
            for op, c in zip(e.ops, e.comparators):
                right = self.ev(c, env)
                if not self._compare(op, left, right):
                    return False
                left = right
            return True
        if isinstance(e, ast.Subscript):
            v = self.ev(e.value, env)
            if isinstance(e.slice, ast.Slice):
                lo = self.ev(e.slice.lower, env) if e.slice.lower else None
                hi = self.ev(e.slice.upper, env) if e.slice.upper else None
                st = self.ev(e.slice.step, env) if e.slice.step else None
                return v[lo:hi:st]
            return v[self.ev(e.slice, env)]
        if isinstance(e, ast.Attribute) and isinstance(e.value, ast.Name) and e.value.id == "dict" and e.attr == "fromkeys" and "dict" not in env:
            return dict.fromkeys
        if isinstance(e, ast.Attribute) and isinstance(e.value, ast.Name) and (e.value.id, e.attr) in _SAFE_STATIC and env.get(e.value.id, _SAFE_STATIC[(e.value.id, e.attr)][0]) is _SAFE_STATIC[(e.value.id, e.attr)][0]:
            return _SAFE_STATIC[(e.value.id, e.attr)][1]
        if isinstance(e, ast.Attribute):
            v = self.ev(e.value, env)
            if isinstance(v, Sym):
                if e.attr in v.attrs:
                    return v.attrs[e.attr]
                if e.attr in v.methods:
                    m = v.methods[e.attr]
                    if isinstance(m, UserFunc) and m.property:
                        return self.call_user(m, [v], {})
                    return ("symmethod", v, e.attr)
                ga = v.methods.get("__getattr__")
                if isinstance(ga, UserFunc):
                    return self.call_user(ga, [v, e.attr], {})
                if getattr(v, "strict", True):
                    raise Refused(f"attribute {e.attr} of {v}")
                raise AttributeError(f"{v} has no attribute {e.attr}")
            if isinstance(v, ClassObj):
                if e.attr in v.attrs:
                    return v.attrs[e.attr]
                if e.attr in v.methods and (v.methods[e.attr].static or v.methods[e.attr].classmethod):
                    return ("classmethod", v, e.attr)
                if e.attr == "__name__":
                    return v.node.name
                raise Refused(f"attribute {e.attr} of {v}")
            for t, names in SAFE_METHODS.items():
                if isinstance(v, t) and e.attr in names:
                    return getattr(v, e.attr)
            if isinstance(v, _RE_MATCH) and e.attr in ("string", "pos", "endpos", "lastgroup", "lastindex"):
                return getattr(v, e.attr)
            if type(v).__name__ == "Scanner" and type(v).__module__ == "re" and e.attr in ("match", "scan"):
                return getattr(v, e.attr)
            raise Refused(f"attribute {e.attr} on {type(v).__name__}")
        if isinstance(e, ast.Call):
            f = self.ev(e.func, env)
            args = []
            for a in e.args:
                if isinstance(a, ast.Starred):
                    args.extend(self.ev(a.value, env))
                else:
                    args.append(self.ev(a, env))
            kwargs = {k.arg: self.ev(k.value, env) for k in e.keywords if k.arg}
            for k in e.keywords:
                if k.arg is None:
                    more = self.ev(k.value, env)
                    if not isinstance(more, dict):
                        raise Refused("** of a non-dict")
                    kwargs.update(more)
            if isinstance(f, UserFunc):
                return self.call_user(f, args, kwargs)
            if isinstance(f, ClassObj):
                if getattr(f, "opaque_base", None):
                    raise Refused(f"class {f.node.name} derives from {f.opaque_base}")
                ClassObj._n += 1
                inst = Sym(f"{f.node.name}#{ClassObj._n}", dict(f.attrs), dict(f.methods))
                inst.cls = f
                if "__init__" in f.methods:
                    self.call_user(f.methods["__init__"], [inst, *args], kwargs)
                elif f.record:
                    # a dataclass / NamedTuple: the generated __init__ binds the annotated fields in order (defaults evaluated at call time here)
                    names = [n_ for n_, _d in f.fields]
                    if len(args) > len(names) or any(k_ not in names for k_ in kwargs):
                        raise Raised("TypeError: unexpected argument")
                    vals = dict(zip(names, args))
                    for k_, v_ in kwargs.items():
                        if k_ in vals:
                            raise Raised("TypeError: multiple values")
                        vals[k_] = v_
                    for n_, d_ in f.fields:
                        if n_ not in vals:
                            if d_ is None:
                                raise Raised(f"TypeError: missing argument {n_}")
                            if isinstance(d_, ast.Call) and norm(d_.func).split(".")[-1] == "field":
                                fac = next((k_.value for k_ in d_.keywords if k_.arg == "default_factory"), None)
                                dv = next((k_.value for k_ in d_.keywords if k_.arg == "default"), None)
                                if fac is not None:
                                    fv = self.ev(fac, f.env)
                                    vals[n_] = fv() if fv in (list, dict, set, tuple) else self.ev(ast.Call(func=fac, args=[], keywords=[]), f.env)
                                elif dv is not None:
                                    vals[n_] = self.ev(dv, f.env)
                                else:
                                    raise Raised(f"TypeError: missing argument {n_}")
                            else:
                                vals[n_] = self.ev(d_, f.env)
                    inst.attrs.update(vals)
                    inst.record_fields = names
                    if "__post_init__" in f.methods:
                        self.call_user(f.methods["__post_init__"], [inst], {})
                elif args or kwargs:
                    raise Raised("TypeError: takes no arguments")
                return inst
            if isinstance(f, tuple) and f and f[0] == "classmethod":
                m = f[1].methods[f[2]]
                return self.call_user(m, args if m.static else [f[1], *args], kwargs)
            if isinstance(f, Host):
                return f.fn(*args, **kwargs)
            if isinstance(f, LambdaFn):
                if kwargs:
                    raise Refused("keyword call of a lambda")
                return f(*args)
            if isinstance(f, Sym) and isinstance(getattr(f, "call", None), Host):
                return f.call.fn(*args, **kwargs)
            if isinstance(f, tuple) and f and f[0] == "symmethod":
                m = f[1].methods[f[2]]
                if isinstance(m, UserFunc):
                    if m.static:
                        return self.call_user(m, args, kwargs)
                    if m.classmethod:
                        return self.call_user(m, [getattr(f[1], "cls", f[1]), *args], kwargs)
                    return self.call_user(m, [f[1], *args], kwargs)
                if isinstance(m, Host):
                    return m.fn(*args, **kwargs)
                return m(*args, **kwargs) if callable(m) else m
            if f == dict.fromkeys:
                return dict.fromkeys(*args)
            if any(f is v_[1] for v_ in _SAFE_STATIC.values()):
                return f(*[list(a_) if isinstance(a_, GenList) else a_ for a_ in args], **kwargs)
            if f is len and len(args) == 1 and self._user_method(args[0], "__len__") is not None:
                return self.call_user(args[0].methods["__len__"], [args[0]], {})
            if f is isinstance and len(args) == 2 and (isinstance(args[1], ClassObj) or (isinstance(args[1], tuple) and any(isinstance(k_, ClassObj) for k_ in args[1]))):
                ks_ = args[1] if isinstance(args[1], tuple) else (args[1],)
                return any(isinstance(k_, ClassObj) and isinstance(args[0], Sym) and getattr(args[0], "cls", None) is not None and
                           (args[0].cls is k_ or k_ in getattr(args[0].cls, "mro_classes", ())) for k_ in ks_) or \
                    any(isinstance(k_, type) and isinstance(args[0], k_) and not isinstance(args[0], Sym) for k_ in ks_)
            if hasattr(f, "__self__") and type(f.__self__).__name__ == "Scanner" and type(f.__self__).__module__ == "re" and f.__name__ == "scan":
                return f(*args)
            if f in SAFE_BUILTINS.values() or (hasattr(f, "__self__") and type(f.__self__) in SAFE_METHODS and f.__name__ in SAFE_METHODS[type(f.__self__)]):
                def _callable(v_):
                    # a function of the interpreted fragment handed to a builtin (sorted / max / min key, map / filter function)
                    if isinstance(v_, UserFunc):
                        return lambda *a_, _f=v_: self.call_user(_f, list(a_), {})
                    if isinstance(v_, tuple) and v_ and v_[0] == "symmethod" and isinstance(v_[1].methods.get(v_[2]), UserFunc):
                        return lambda *a_, _o=v_[1], _m=v_[1].methods[v_[2]]: self.call_user(_m, [_o, *a_], {})
                    if isinstance(v_, Host):
                        return v_.fn
                    return v_

                args = [list(a_) if isinstance(a_, GenList) else _callable(a_) for a_ in args]
                kwargs = {k_: _callable(v_) for k_, v_ in kwargs.items()}
                r = f(*args, **kwargs)
                if isinstance(r, (range, enumerate, zip, map, filter)) or type(r).__name__ in ("dict_keys", "dict_values", "dict_items", "reversed", "list_reverseiterator"):
                    r = list(r)
                return r
            raise Refused(f"call of {norm(e.func)}")
        if isinstance(e, (ast.ListComp, ast.GeneratorExp, ast.SetComp)):
            out: list = []
            self._comp(e.generators, 0, dict(env), lambda en: out.append(self.ev(e.elt, en)))
            return out
        if isinstance(e, ast.DictComp):
            outd: dict = {}
            self._comp(e.generators, 0, dict(env), lambda en: outd.__setitem__(self.ev(e.key, en), self.ev(e.value, en)))
            return outd
        if isinstance(e, ast.Lambda):
            return LambdaFn(self, e, env)  # the live frame: free variables are looked up when the lambda is called (late binding)
        if isinstance(e, ast.NamedExpr):
            v = self.ev(e.value, env)
            env[e.target.id] = v
            return v
        raise Refused(f"expression {type(e).__name__}: {norm(e)[:60]}")

    def _user_method(self, o: Any, name: str) -> "UserFunc | None":
        m = o.methods.get(name) if isinstance(o, Sym) else None
        return m if isinstance(m, UserFunc) else None

    def _eq(self, a: Any, b: Any) -> bool:
        """== with the __eq__ an interpreted class defines (either operand)."""
        m = self._user_method(a, "__eq__")
        if m is not None:
            return bool(self.call_user(m, [a, b], {}))
        m = self._user_method(b, "__eq__")
        if m is not None:
            return bool(self.call_user(m, [b, a], {}))
        return a == b

    def _compare(self, op: ast.cmpop, left: Any, right: Any) -> bool:
        if isinstance(op, ast.Eq):
            return self._eq(left, right)
        if isinstance(op, ast.NotEq):
            m = self._user_method(left, "__ne__")
            return bool(self.call_user(m, [left, right], {})) if m is not None else not self._eq(left, right)
        if isinstance(op, (ast.In, ast.NotIn)):
            m = self._user_method(right, "__contains__")
            if m is not None:
                found = bool(self.call_user(m, [right, left], {}))
            elif isinstance(right, (list, tuple)) and (self._user_method(left, "__eq__") or any(self._user_method(x, "__eq__") for x in right)):
                found = any(x is left or self._eq(left, x) for x in right)
            else:
                found = left in right
            return found if isinstance(op, ast.In) else not found
        return _CMP[type(op)](left, right)

    def _comp(self, gens, i, env, emit) -> None:
        if i == len(gens):
            emit(env)
            return
        g = gens[i]
        for item in self.ev(g.iter, env):
            self._tick()
            e2 = dict(env)
            self._bind(g.target, item, e2)
            if all(self.ev(c, e2) for c in g.ifs):
                self._comp(gens, i + 1, e2, emit)

    def _bind(self, target: ast.AST, value: Any, env: dict[str, Any]) -> None:
        if isinstance(target, ast.Name):
            if isinstance(value, GenList):
                raise Refused("a generator object is stored for later (evaluated eagerly here)")
            env[target.id] = value
            if target.id in env.get("__nonlocal__", ()):
                outer = env.get("__outer__")
                if outer is None:
                    raise Refused("nonlocal without an enclosing frame")
                outer[target.id] = value
                if target.id in outer.get("__nonlocal__", ()) and outer.get("__outer__") is not None:
                    outer["__outer__"][target.id] = value
        elif isinstance(target, ast.Subscript) and isinstance(target.slice, ast.Slice):
            box = self.ev(target.value, env)
            if not isinstance(box, list):
                raise Refused("slice store on a non-list")
            sl = target.slice
            box[(self.ev(sl.lower, env) if sl.lower else None):(self.ev(sl.upper, env) if sl.upper else None)] = list(value)
        elif isinstance(target, ast.Attribute):
            box = self.ev(target.value, env)
            if not isinstance(box, Sym):
                raise Refused("attribute store on a non-symbolic object")
            box.attrs[target.attr] = value
        elif isinstance(target, ast.Subscript) and not isinstance(target.slice, ast.Slice):
            box = self.ev(target.value, env)
            if not isinstance(box, (list, dict)):
                raise Refused("subscript store on a non-container")
            box[self.ev(target.slice, env)] = value
        elif isinstance(target, (ast.Tuple, ast.List)):
            if isinstance(value, Sym) and hasattr(value, "record_fields"):
                value = [value.attrs[n_] for n_ in value.record_fields]
            vals = list(value)
            if len(vals) != len(target.elts):
                raise Refused("unpack arity")
            for t, v in zip(target.elts, vals):
                self._bind(t, v, env)
        else:
            raise Refused("bind target")

    _EXC_PARENTS = {"KeyError": "LookupError", "IndexError": "LookupError", "OverflowError": "ArithmeticError", "ZeroDivisionError": "ArithmeticError",
                    "EOFError": "Exception", "UnicodeDecodeError": "ValueError"}

    def _handle(self, st: ast.Try, name: str, env: dict[str, Any], exc: BaseException):
        chain_ = [name]
        extra = env.get("__exc_parents__") or self.env.get("__exc_parents__") or {}
        i_ = 0
        while i_ < len(chain_):  # closure over the (possibly multiple) bases: the built-in table plus the repository's own exception classes
            cur = chain_[i_]
            for par in ([self._EXC_PARENTS[cur]] if cur in self._EXC_PARENTS else []) + list(extra.get(cur, [])):
                if par not in chain_:
                    chain_.append(par)
            i_ += 1
        chain_ += ["Exception", "BaseException"]
        for h in st.handlers:
            types = [] if h.type is None else ([norm(e).split(".")[-1] for e in h.type.elts] if isinstance(h.type, ast.Tuple) else [norm(h.type).split(".")[-1]])
            if h.type is None or any(t in chain_ for t in types):
                if h.name:
                    env[h.name] = Sym(f"exception:{name}")
                return self.run(h.body, env)
        raise exc

    # ------------------------------------------------------------------ straight-line statements
    def run(self, body: list[ast.stmt], env: dict[str, Any] | None = None):
        """Execute a whitelisted straight-line / if body; returns ('return', value) or ('fall', None).

        An operation of the interpreted fragment that fails on the checker's values the way it would fail on the real ones (None + 1, a missing key,
        division by zero) is an outcome of the fragment, reported as ``Raised`` - not a failure of the fold."""
        try:
            return self._run(body, env)
        except (Refused, Raised):
            raise
        except (TypeError, ValueError, KeyError, IndexError, ZeroDivisionError, OverflowError, AttributeError, StopIteration) as exc:
            raise Raised(f"{type(exc).__name__}: {exc}") from exc

    def _run(self, body: list[ast.stmt], env: dict[str, Any] | None = None):
        env = self.env if env is None else env
        for st in body:
            self._tick()
            if isinstance(st, ast.Expr) and isinstance(st.value, ast.Constant):
                continue  # docstring
            if isinstance(st, ast.Assign):
                v = self.ev(st.value, env)
                for t in st.targets:
                    self._bind(t, v, env)
            elif isinstance(st, ast.AnnAssign) and st.value is not None:
                self._bind(st.target, self.ev(st.value, env), env)
            elif isinstance(st, ast.AugAssign) and isinstance(st.target, ast.Name):
                cur = env.get(st.target.id)
                self._bind(st.target, _BIN[type(st.op)](cur, self.ev(st.value, env)), env)
            elif isinstance(st, ast.AugAssign) and isinstance(st.target, (ast.Attribute, ast.Subscript)) and type(st.op) in _BIN:
                cur = self.ev(st.target, env)
                self._bind(st.target, _BIN[type(st.op)](cur, self.ev(st.value, env)), env)
            elif isinstance(st, ast.Raise):
                raise Raised(norm(st.exc) if st.exc is not None else "")
            elif isinstance(st, ast.If):
                r = self.run(st.body if self.ev(st.test, env) else st.orelse, env)
                if r[0] in ("return", "break", "continue"):
                    return r
            elif isinstance(st, ast.For):
                broke = False
                for item in self.ev(st.iter, env):
                    self._tick()
                    self._bind(st.target, item, env)
                    r = self.run(st.body, env)
                    if r[0] == "return":
                        return r
                    if r[0] == "break":
                        broke = True
                        break
                if st.orelse and not broke:
                    r = self.run(st.orelse, env)
                    if r[0] in ("return", "break", "continue"):
                        return r
            elif isinstance(st, ast.While):
                broke = False
                while self.ev(st.test, env):
                    self._tick()
                    r = self.run(st.body, env)
                    if r[0] == "return":
                        return r
                    if r[0] == "break":
                        broke = True
                        break
                if st.orelse and not broke:
                    r = self.run(st.orelse, env)
                    if r[0] in ("return", "break", "continue"):
                        return r
            elif isinstance(st, ast.Try) and not st.finalbody:
                try:
                    r = self.run(st.body, env)
                except Raised as exc:
                    name = str(exc).split("(")[0].split(":")[0].split(".")[-1].strip()
                    r = self._handle(st, name, env, exc)
                except (TypeError, ValueError, KeyError, IndexError, OverflowError, ZeroDivisionError, AttributeError, StopIteration) as exc:
                    # raised by a host / builtin operation on the checker's own values: catchable by the fragment exactly like the real exception
                    r = self._handle(st, type(exc).__name__, env, exc)
                else:
                    if r[0] == "fall" and st.orelse:
                        r = self.run(st.orelse, env)
                if r[0] in ("return", "break", "continue"):
                    return r
            elif isinstance(st, (ast.Import, ast.ImportFrom)):
                # a function-level import binds a name the fold's harness has to provide (under '__imports__'); nothing is imported
                provided = env.get("__imports__") or self.env.get("__imports__") or {}
                for al in st.names:
                    nm = al.asname or al.name.split(".")[0]
                    if nm not in provided:
                        raise Refused(f"import of {al.name}")
                    env[nm] = provided[nm]
            elif isinstance(st, ast.FunctionDef):
                uf = UserFunc(st, env, closure=True)
                # default values are evaluated once, when the def statement runs (the early-binding idiom 'name=name')
                uf.default_values = [self.ev(d_, env) for d_ in st.args.defaults]
                uf.kw_default_values = [None if d_ is None else self.ev(d_, env) for d_ in st.args.kw_defaults]
                env[st.name] = uf
            elif isinstance(st, ast.Nonlocal):
                env["__nonlocal__"] = set(env.get("__nonlocal__", ())) | set(st.names)
            elif isinstance(st, ast.Expr) and isinstance(st.value, (ast.Yield, ast.YieldFrom)):
                sink = env.get("__yield__")
                if sink is None:
                    raise Refused("yield outside an interpreted generator")
                if isinstance(st.value, ast.Yield):
                    sink.append(self.ev(st.value.value, env) if st.value.value is not None else None)
                else:
                    sink.extend(self.ev(st.value.value, env))
            elif isinstance(st, ast.Delete) and all(isinstance(t, ast.Subscript) for t in st.targets):
                for t in st.targets:
                    box = self.ev(t.value, env)
                    if not isinstance(box, (list, dict)):
                        raise Refused("del on a non-container")
                    if isinstance(t.slice, ast.Slice):
                        del box[(self.ev(t.slice.lower, env) if t.slice.lower else None):(self.ev(t.slice.upper, env) if t.slice.upper else None)]
                    else:
                        del box[self.ev(t.slice, env)]
            elif isinstance(st, ast.Break):
                return ("break", None)
            elif isinstance(st, ast.Continue):
                return ("continue", None)
            elif isinstance(st, ast.Return):
                return ("return", self.ev(st.value, env) if st.value is not None else None)
            elif isinstance(st, ast.Pass):
                continue
            elif isinstance(st, ast.Expr) and isinstance(st.value, ast.Call):
                self.ev(st.value, env)  # only whitelisted callables get through: builders of evaluator-local lists / dicts
            elif isinstance(st, ast.Assign) and False:
                pass
            else:
                raise Refused(f"statement {type(st).__name__}")
        return ("fall", None)
