"""C12 - enums and flags preserve every underlying value and number members like C."""

from __future__ import annotations

import ast
import re

from ..model import FuncInfo, Repo
from ..report import Report
from ..util import AnalysisError, call_name, chain, const_value, is_const, norm, short, walk_body

SLOT_NAMES = ("_read", "_read_array", "_read_0", "_write", "_write_array", "_write_0")


def delegation_rule(repo: Repo, rep: Report, rid: str) -> None:
    rep.rule(rid, "each of EnumMetaType's six slots delegates to the same-named slot of the underlying type: readers wrap the result with the "
                  "enum class, writers unwrap .value, _write_0 appends the underlying default")
    n = 0
    for s in SLOT_NAMES:
        fi = repo.func("types/enum.py", f"EnumMetaType.{s}")
        me = fi.self_name
        calls = [c for c in walk_body(fi.node.body) if isinstance(c, ast.Call) and isinstance(c.func, ast.Attribute) and norm(c.func.value) == f"{me}.type"]
        n += 1
        key = f"{fi.key}:delegate"
        if s == "_write_0":
            inner = [c for c in walk_body(fi.node.body) if isinstance(c, ast.Call) and call_name(c) == "_write_array"]
            dflt = [c for c in calls if c.func.attr == "__default__"]
            rep.check(bool(inner) and bool(dflt), rid, key, "writes the elements plus cls.type.__default__() through _write_array",
                      "EnumMetaType._write_0 does not append the underlying type's default as terminator", fi.loc())
            continue
        same = [c for c in calls if c.func.attr == s]
        ok = len(same) == 1
        detail = f"delegates to cls.type.{s}"
        if not ok:
            detail = f"EnumMetaType.{s} calls {[c.func.attr for c in calls]} on the underlying type instead of {s}"
        elif s.startswith("_read"):
            # wrapped with cls(...) or map(cls, ...)
            rets = [r for r in walk_body(fi.node.body) if isinstance(r, ast.Return)]
            v = rets[0].value if rets else None
            wrapped = False
            for x in ast.walk(v) if v is not None else []:
                if isinstance(x, ast.Call) and ((isinstance(x.func, ast.Name) and x.func.id == me) or
                                                (call_name(x) == "map" and x.args and norm(x.args[0]) == me)):
                    wrapped = True
            ok = wrapped
            detail = "result wrapped with the enum class" if ok else f"EnumMetaType.{s} does not wrap the underlying value(s) with the enum class"
            # arguments forwarded unchanged
            a = [norm(x) for x in same[0].args]
            if ok and a != fi.params[1:]:
                ok, detail = False, f"EnumMetaType.{s} forwards {a} instead of its own arguments {fi.params[1:]}"
        else:
            txt = " ".join(norm(st) for st in fi.node.body)
            ok = ".value" in txt
            detail = "members unwrapped with .value" if ok else f"EnumMetaType.{s} does not unwrap .value before writing"
            if ok and norm(same[0].args[0]) != fi.params[1]:
                ok, detail = False, "stream argument not forwarded"
        rep.check(ok, rid, key, detail, detail, fi.loc())
    rep.floor(rid, "delegating slots", n, 6)


def missing_rule(repo: Repo, rep: Report, rid: str) -> None:
    rep.rule(rid, "unknown values are kept: Enum._missing_ builds a pseudo member with int.__new__(cls, value), _value_ = value, _name_ = None; "
                  "Flag derives from IntFlag without a restricting boundary")
    fi = repo.func("types/enum.py", "Enum._missing_")
    v = fi.params[1]
    new = [s for s in walk_body(fi.node.body) if isinstance(s, ast.Assign) and isinstance(s.value, ast.Call) and norm(s.value.func) == "int.__new__"]
    ok = len(new) == 1 and [norm(a) for a in new[0].value.args] == [fi.self_name, v]
    m = norm(new[0].targets[0]) if new else "?"
    sets = {norm(s.targets[0]): norm(s.value) for s in walk_body(fi.node.body) if isinstance(s, ast.Assign) and isinstance(s.targets[0], ast.Attribute)}
    rets = [norm(r.value) for r in walk_body(fi.node.body) if isinstance(r, ast.Return)]
    ok = ok and sets.get(f"{m}._value_") == v and sets.get(f"{m}._name_") == "None" and rets == [m]
    rep.check(ok, rid, f"{fi.key}:pseudo-member", "int.__new__(cls, value) with _value_ = value, _name_ = None",
              f"Enum._missing_ no longer preserves the raw value (new={[norm(s.value) for s in new]}, sets={sets}, returns={rets})", fi.loc())
    raises = [x for x in walk_body(fi.node.body) if isinstance(x, (ast.Raise, ast.Assert))]
    rep.check(not raises and len(rets) == 1, rid, f"{fi.key}:total", "_missing_ accepts every value (no raise, single return)",
              f"Enum._missing_ rejects some values ({[short(x, 60) for x in raises]}): an underlying integer that names no member must still be "
              f"preserved (e.g. negative values of an enum on a signed type)", fi.loc())
    ci = repo.cls("Flag")
    kw = [k.arg for k in ci.node.keywords]
    rep.check("IntFlag" in ci.bases and "boundary" not in kw, rid, "types/flag.py:Flag:bases", "IntFlag without a boundary (KEEP semantics)",
              f"Flag bases {ci.bases} / keywords {kw}: unknown bits would be rejected or dropped", f"{ci.module.path}:{ci.node.lineno}")
    ce = repo.cls("Enum")
    rep.check("IntEnum" in ce.bases, rid, "types/enum.py:Enum:bases", "IntEnum", f"Enum bases {ce.bases}", f"{ce.module.path}:{ce.node.lineno}")
    call = repo.func("types/enum.py", "EnumMetaType.__call__")
    conv = [c for c in walk_body(call.node.body) if isinstance(c, ast.Call) and norm(c.func) == "cls.type"]
    sup = [c for c in walk_body(call.node.body) if isinstance(c, ast.Call) and isinstance(c.func, ast.Attribute) and isinstance(c.func.value, ast.Call)
           and call_name(c.func.value) == "super" and [norm(a) for a in c.args] == ["value"]]
    rep.check(bool(sup), rid, f"{call.key}:value-lookup", "value looked up through EnumMeta.__call__(value) (-> _missing_)",
              "EnumMetaType.__call__ no longer looks the value up through the enum machinery", call.loc())


def _next_pow2_above(v: int) -> int:
    return 1 if v <= 0 else 1 << v.bit_length()


def numbering_rule(repo: Repo, rep: Report, rid: str) -> None:
    rep.rule(rid, "member numbering agrees between the token parser and the legacy parser and follows C: enums start at 0 and continue with "
                  "previous + 1, flags start at 1 and continue with the next higher power of two (arms folded over sample values, not matched as text); "
                  "keys are stripped")
    from ..minieval import Evaluator, Refused

    a = repo.func("parser.py", "TokenParser._enum")
    b = repo.func("parser.py", "CStyleParser._enums")
    samples = list(range(0, 70)) + [127, 128, 255, 256, 1023, 1024, 65535, 65536, 2**31, 2**32 - 1, 2**63, 2**64 + 5]
    for name, fi in (("token", a), ("legacy", b)):
        # initial value:  nextval = 0 ; if enumtype == "flag": nextval = 1
        init = [s for s in walk_body(fi.node.body) if (isinstance(s, ast.Assign) and norm(s.targets[0]) == "nextval" and is_const(s.value))]
        first = next((s for s in walk_body(fi.node.body) if isinstance(s, ast.Assign) and norm(s.targets[0]) == "nextval"), None)
        flag_init = next((s for s in walk_body(fi.node.body) if isinstance(s, ast.If) and "enumtype" in norm(s.test) and len(s.body) == 1
                          and isinstance(s.body[0], ast.Assign) and norm(s.body[0].targets[0]) == "nextval" and is_const(s.body[0].value)), None)
        for kind, want in (("enum", 0), ("flag", 1)):
            try:
                env = {"enumtype": kind}
                ev = Evaluator(env)
                ev.run([x for x in (first, flag_init) if x is not None], env)
                got = env.get("nextval")
            except Refused as e:
                got = f"<not foldable: {e}>"
            rep.check(got == want, rid, f"{fi.key}:first-{kind}", f"first implicit {kind} value is {want}",
                      f"{fi.qualname}: the first implicit {kind} member gets {got}, C numbering starts at {want}", fi.loc(first))
        # continuation arms
        arm = next((s for s in walk_body(fi.node.body) if isinstance(s, ast.If) and "enumtype" in norm(s.test) and s.orelse and
                    any(isinstance(x, ast.Assign) and norm(x.targets[0]) == "nextval" for x in s.body)), None)
        if arm is None:
            rep.fail(rid, f"{fi.key}:continuation", "no if/else selecting the continuation rule by enumtype", fi.loc())
            continue
        for kind, oracle in (("flag", _next_pow2_above), ("enum", lambda v: v + 1)):
            bad = None
            try:
                for v in samples:
                    env = {"enumtype": kind, "val": v, "nextval": -12345}
                    Evaluator(env).run([arm], env)
                    if env["nextval"] != oracle(v):
                        bad = (v, env["nextval"], oracle(v))
                        break
            except Refused as e:
                bad = ("not foldable", str(e), "")
            rep.check(bad is None, rid, f"{fi.key}:next-{kind}", f"{kind}: next implicit value follows the C rule on {len(samples)} sample values",
                      f"{fi.qualname}: after {kind} value {bad[0] if bad else ''} the next implicit member gets {bad[1] if bad else ''}, expected {bad[2] if bad else ''}", fi.loc(arm))
        stm = {norm(s) for s in walk_body(fi.node.body) if isinstance(s, ast.Assign)}
        rep.check("values[key] = val" in stm and any(x.startswith("key = key.strip(") for x in stm), rid, f"{fi.key}:store", "stored under the stripped key",
                  f"{fi.qualname}: the member is not stored under its stripped name", fi.loc())
    for name, fi in (("token", a), ("legacy", b)):
        pass
    for name, fi in (("token", a), ("legacy", b)):
        ev = [s for s in walk_body(fi.node.body) if isinstance(s, ast.Assign) and norm(s.targets[0]) == "val" and isinstance(s.value, ast.IfExp)]
        ok = len(ev) == 1 and norm(ev[0].value.body) == "nextval" and norm(ev[0].value.test) == "not val" and "evaluate" in norm(ev[0].value.orelse)
        rep.check(ok, rid, f"{fi.key}:explicit", "val = nextval if not val else <evaluate explicit value>", f"{fi.qualname}: explicit/implicit value selection changed", fi.loc())
    ev = [s for s in walk_body(a.node.body) if isinstance(s, ast.Assign) and norm(s.targets[0]) == "val" and isinstance(s.value, ast.IfExp)]
    rep.check(bool(ev) and norm(ev[0].value.orelse).endswith(".evaluate(values)"), rid, f"{a.key}:earlier-members", "explicit values may refer to earlier members",
              "the token parser no longer evaluates explicit values over the members seen so far", a.loc())
    # default underlying type and factory selection
    for name, fi in (("token", a), ("legacy", b)):
        txt = " ".join(norm(s) for s in fi.node.body)
        rep.check("d['type'] = 'uint32'" in txt and "_make_flag" in txt and "_make_enum" in txt, rid, f"{fi.key}:factory", "uint32 default, flag/enum factory by keyword",
                  f"{fi.qualname}: default underlying type or factory selection changed", fi.loc())


def equality_rule(repo: Repo, rep: Report, rid: str) -> None:
    rep.rule(rid, "class-scoped equality on both Enum and Flag: a member of another enum class is never equal; otherwise values compare; the hash "
                  "includes the class; __ne__ negates __eq__")
    n = 0
    bodies = {}
    for cls, rel in (("Enum", "types/enum.py"), ("Flag", "types/flag.py")):
        eq = repo.func(rel, f"{cls}.__eq__")
        other = eq.params[1]
        first = eq.body[0] if eq.body else None
        ok = isinstance(first, ast.If) and isinstance(first.test, ast.BoolOp) and isinstance(first.test.op, ast.And) and \
            f"isinstance({other}, {cls})" in norm(first.test) and f"{other}.__class__ is not self.__class__" in norm(first.test) and \
            len(first.body) == 1 and norm(first.body[0]) == "return False"
        n += 1
        rep.check(ok, rid, f"{eq.key}:class-scope", "other-class members compare unequal first",
                  f"{cls}.__eq__ does not start by returning False for members of another class ('{short(first, 80)}')", eq.loc())
        rets = [norm(r.value) for r in walk_body(eq.node.body) if isinstance(r, ast.Return)]
        n += 1
        rep.check(rets[-1:] == [f"self.value == {other}"], rid, f"{eq.key}:value", "then compares values", f"{cls}.__eq__ returns {rets}", eq.loc())
        h = repo.func(rel, f"{cls}.__hash__")
        hv = [r.value for r in walk_body(h.node.body) if isinstance(r, ast.Return)]
        n += 1
        rep.check(len(hv) == 1 and isinstance(hv[0], ast.Call) and norm(hv[0].func) == "hash" and "self.__class__" in norm(hv[0]) and "self.value" in norm(hv[0]),
                  rid, f"{h.key}:hash", "hash over (class, name, value)", f"{cls}.__hash__ returns '{short(hv[0] if hv else None, 60)}'", h.loc())
        ne = repo.func(rel, f"{cls}.__ne__")
        nv = [norm(r.value) for r in walk_body(ne.node.body) if isinstance(r, ast.Return)]
        n += 1
        rep.check(nv == [f"not self.__eq__({ne.params[1]})"] or nv == [f"not self == {ne.params[1]}"], rid, f"{ne.key}:ne", "negates __eq__", f"{cls}.__ne__ returns {nv}", ne.loc())
        bodies[cls] = [re.sub(r"\b" + cls + r"\b", "K", norm(s)) for s in eq.body]
    rep.check(bodies["Enum"] == bodies["Flag"], rid, "types:Enum/Flag.__eq__:siblings", "Enum.__eq__ and Flag.__eq__ are the same modulo the class name",
              "Enum.__eq__ and Flag.__eq__ differ: one of the siblings was edited alone", repo.func("types/flag.py", "Flag.__eq__").loc())
    rep.floor(rid, "equality obligations", n, 6)


def run(repo: Repo, rep: Report, tier: str) -> None:
    delegation_rule(repo, rep, "C12.R1")
    missing_rule(repo, rep, "C12.R2")
    numbering_rule(repo, rep, "C12.R3")
    equality_rule(repo, rep, "C12.R4")
