"""C12 - enums and flags preserve every underlying value and number members like C."""

from __future__ import annotations

import ast
import re

from ..model import FuncInfo, Repo
from ..report import Report
from ..util import AnalysisError, call_name, chain, const_value, is_const, norm, short, walk_body

SLOT_NAMES = ("_read", "_read_array", "_read_0", "_write", "_write_array", "_write_0")


def delegation_rule(repo: Repo, rep: Report, rid: str) -> None:
    rep.rule(rid, "each of EnumMetaType's six slots delegates to the same-named slot of the underlying type: readers wrap the result with the "
                  "enum class, writers unwrap .value, _write_0 appends the underlying default")
    n = 0
    for s in SLOT_NAMES:
        fi = repo.func("types/enum.py", f"EnumMetaType.{s}")
        me = fi.self_name
        calls = [c for c in walk_body(fi.node.body) if isinstance(c, ast.Call) and isinstance(c.func, ast.Attribute) and norm(c.func.value) == f"{me}.type"]
        n += 1
        key = f"{fi.key}:delegate"
        if s == "_write_0":
            inner = [c for c in walk_body(fi.node.body) if isinstance(c, ast.Call) and call_name(c) == "_write_array"]
            dflt = [c for c in calls if c.func.attr == "__default__"]
            rep.check(bool(inner) and bool(dflt), rid, key, "writes the elements plus cls.type.__default__() through _write_array",
                      "EnumMetaType._write_0 does not append the underlying type's default as terminator", fi.loc())
            continue
        same = [c for c in calls if c.func.attr == s]
        ok = len(same) == 1
        detail = f"delegates to cls.type.{s}"
        if not ok:
            detail = f"EnumMetaType.{s} calls {[c.func.attr for c in calls]} on the underlying type instead of {s}"
        elif s.startswith("_read"):
            # wrapped with cls(...) or map(cls, ...)
            rets = [r for r in walk_body(fi.node.body) if isinstance(r, ast.Return)]
            v = rets[0].value if rets else None
            wrapped = False
            for x in ast.walk(v) if v is not None else []:
                if isinstance(x, ast.Call) and ((isinstance(x.func, ast.Name) and x.func.id == me) or
                                                (call_name(x) == "map" and x.args and norm(x.args[0]) == me)):
                    wrapped = True
            ok = wrapped
            detail = "result wrapped with the enum class" if ok else f"EnumMetaType.{s} does not wrap the underlying value(s) with the enum class"
            # arguments forwarded unchanged
            a = [norm(x) for x in same[0].args]
            if ok and a != fi.params[1:]:
                ok, detail = False, f"EnumMetaType.{s} forwards {a} instead of its own arguments {fi.params[1:]}"
        else:
            txt = " ".join(norm(st) for st in fi.node.body)
            ok = ".value" in txt
            detail = "members unwrapped with .value" if ok else f"EnumMetaType.{s} does not unwrap .value before writing"
            if ok and norm(same[0].args[0]) != fi.params[1]:
                ok, detail = False, "stream argument not forwarded"
        rep.check(ok, rid, key, detail, detail, fi.loc())
    rep.floor(rid, "delegating slots", n, 6)


def missing_rule(repo: Repo, rep: Report, rid: str) -> None:
    rep.rule(rid, "unknown values are kept: Enum._missing_ builds a pseudo member with int.__new__(cls, value), _value_ = value, _name_ = None; "
                  "Flag derives from IntFlag without a restricting boundary")
    fi = repo.func("types/enum.py", "Enum._missing_")
    v = fi.params[1]
    new = [s for s in walk_body(fi.node.body) if isinstance(s, ast.Assign) and isinstance(s.value, ast.Call) and norm(s.value.func) == "int.__new__"]
    ok = len(new) == 1 and [norm(a) for a in new[0].value.args] == [fi.self_name, v]
    m = norm(new[0].targets[0]) if new else "?"
    sets = {norm(s.targets[0]): norm(s.value) for s in walk_body(fi.node.body) if isinstance(s, ast.Assign) and isinstance(s.targets[0], ast.Attribute)}
    rets = [norm(r.value) for r in walk_body(fi.node.body) if isinstance(r, ast.Return)]
    ok = ok and sets.get(f"{m}._value_") == v and sets.get(f"{m}._name_") == "None" and rets == [m]
    rep.check(ok, rid, f"{fi.key}:pseudo-member", "int.__new__(cls, value) with _value_ = value, _name_ = None",
              f"Enum._missing_ no longer preserves the raw value (new={[norm(s.value) for s in new]}, sets={sets}, returns={rets})", fi.loc())
    raises = [x for x in walk_body(fi.node.body) if isinstance(x, (ast.Raise, ast.Assert))]
    rep.check(not raises and len(rets) == 1, rid, f"{fi.key}:total", "_missing_ accepts every value (no raise, single return)",
              f"Enum._missing_ rejects some values ({[short(x, 60) for x in raises]}): an underlying integer that names no member must still be "
              f"preserved (e.g. negative values of an enum on a signed type)", fi.loc())
    ci = repo.cls("Flag")
    kw = [k.arg for k in ci.node.keywords]
    rep.check("IntFlag" in ci.bases and "boundary" not in kw, rid, "types/flag.py:Flag:bases", "IntFlag without a boundary (KEEP semantics)",
              f"Flag bases {ci.bases} / keywords {kw}: unknown bits would be rejected or dropped", f"{ci.module.path}:{ci.node.lineno}")
    # negative values: IntFlag (Python >= 3.11) maps a negative value onto the bits of the known members, so a flag over a signed type needs its own
    # _missing_ (as Enum has) or signed underlying types must be refused for flags
    own_missing = "_missing_" in ci.methods
    mk = repo.func("cstruct.py", "cstruct._make_flag")
    refuses_signed = any(isinstance(x, ast.Raise) for x in walk_body(mk.node.body)) or any(
        isinstance(x, ast.Raise) and "signed" in norm(x) for f_ in repo.cls("EnumMetaType").methods.values() for x in walk_body(f_.node.body))
    rep.check(own_missing or refuses_signed, rid, "types/flag.py:Flag:negative values", "negative values are preserved (own _missing_) or signed flag types are refused",
              "Flag has no _missing_ of its own and flags over signed types are accepted: for a negative underlying integer IntFlag (Python >= 3.11) substitutes "
              "the bits of the known members, so the parsed value is not the integer that was read and dumping writes another byte "
              "(flag f : int8 { A = 1 }; on b'\\xff' gives <f.A: 1> and dumps b'\\x01'), while Enum keeps it through its _missing_",
              f"{ci.module.path}:{ci.node.lineno}")
    ce = repo.cls("Enum")
    rep.check("IntEnum" in ce.bases, rid, "types/enum.py:Enum:bases", "IntEnum", f"Enum bases {ce.bases}", f"{ce.module.path}:{ce.node.lineno}")
    call = repo.func("types/enum.py", "EnumMetaType.__call__")
    conv = [c for c in walk_body(call.node.body) if isinstance(c, ast.Call) and norm(c.func) == "cls.type"]
    sup = [c for c in walk_body(call.node.body) if isinstance(c, ast.Call) and isinstance(c.func, ast.Attribute) and isinstance(c.func.value, ast.Call)
           and call_name(c.func.value) == "super" and c.func.attr == "__call__" and len(c.args) == 1 and not c.keywords]
    rep.check(bool(sup), rid, f"{call.key}:value-lookup", "value looked up through EnumMeta.__call__(value) (-> _missing_)",
              "EnumMetaType.__call__ no longer looks the value up through the enum machinery", call.loc())


def _next_pow2_above(v: int) -> int:
    return 1 if v <= 0 else 1 << v.bit_length()


def _enum_roles(fi: FuncInfo) -> dict | None:
    """Discover the roles of the locals of an enum-body parser by dataflow shape, not by name:
    members[K] = X inside the member loop, X = N if not E else <Expression(.., E).evaluate(..)>, T compared with 'flag'."""
    nodes = list(walk_body(fi.node.body))
    dict_inits = {s.targets[0].id for s in nodes if isinstance(s, ast.Assign) and len(s.targets) == 1 and isinstance(s.targets[0], ast.Name)
                  and isinstance(s.value, ast.Dict) and not s.value.keys}
    for st in nodes:
        if not (isinstance(st, ast.Assign) and len(st.targets) == 1 and isinstance(st.targets[0], ast.Subscript)):
            continue
        t = st.targets[0]
        if not (isinstance(t.value, ast.Name) and t.value.id in dict_inits and isinstance(t.slice, ast.Name) and isinstance(st.value, ast.Name)):
            continue
        V, K, X = t.value.id, t.slice.id, st.value.id
        sel = [a for a in nodes if isinstance(a, ast.Assign) and len(a.targets) == 1 and norm(a.targets[0]) == X and isinstance(a.value, ast.IfExp)]
        if len(sel) != 1:
            continue
        ife = sel[0].value
        if not (isinstance(ife.body, ast.Name) and isinstance(ife.test, ast.UnaryOp) and isinstance(ife.test.op, ast.Not) and isinstance(ife.test.operand, ast.Name)):
            continue
        N, E = ife.body.id, ife.test.operand.id
        flag_tests = [c for c in nodes if isinstance(c, ast.Compare) and isinstance(c.left, ast.Name) and len(c.comparators) == 1
                      and is_const(c.comparators[0]) and const_value(c.comparators[0]) == "flag"]
        T = flag_tests[0].left.id if flag_tests else None
        return {"V": V, "K": K, "X": X, "N": N, "E": E, "T": T, "store": st, "select": sel[0]}
    return None


def _assigns(st: ast.stmt, name: str) -> bool:
    return any(isinstance(x, (ast.Assign, ast.AugAssign, ast.AnnAssign)) and any(norm(t) == name for t in (x.targets if isinstance(x, ast.Assign) else [x.target]))
               for x in ast.walk(st))


def _stmt_list_of(fi: FuncInfo, target: ast.stmt) -> list[ast.stmt] | None:
    for n in ast.walk(fi.node):
        for f in ("body", "orelse", "finalbody"):
            lst = getattr(n, f, None)
            if isinstance(lst, list) and any(x is target for x in lst):
                return lst
    return None


def numbering_rule(repo: Repo, rep: Report, rid: str) -> None:
    rep.rule(rid, "member numbering agrees between the token parser and the legacy parser and follows C: enums start at 0 and continue with "
                  "previous + 1, flags start at 1 and continue with the next higher power of two (statements folded over sample values; the locals are "
                  "identified by their dataflow roles, not by name); keys are stripped")
    from ..minieval import Evaluator, Refused

    a = repo.func("parser.py", "TokenParser._enum")
    b = repo.func("parser.py", "CStyleParser._enums")
    samples = list(range(0, 70)) + [127, 128, 255, 256, 1023, 1024, 65535, 65536, 2**31, 2**32 - 1, 2**63, 2**64 + 5]
    for name, fi in (("token", a), ("legacy", b)):
        roles = _enum_roles(fi)
        if roles is None or roles["T"] is None:
            rep.fail(rid, f"{fi.key}:roles", f"{fi.qualname}: no 'members[key] = value' store fed by 'value = next if not explicit else evaluate(explicit)' found", fi.loc())
            continue
        V, K, X, N, E, T = (roles[k] for k in "VKXNET")
        nodes = list(walk_body(fi.node.body))
        # ---- initial value: the statements assigning N in the statement list that holds its first assignment, before the member loop
        first = next((s for s in nodes if isinstance(s, ast.Assign) and norm(s.targets[0]) == N), None)
        lst = _stmt_list_of(fi, first) if first is not None else None
        init: list[ast.stmt] = []
        for s in lst or []:
            if any(x is roles["store"] for x in ast.walk(s)):
                break
            if _assigns(s, N):
                init.append(s)
        for kind, want in (("enum", 0), ("flag", 1)):
            try:
                env = {T: kind}
                Evaluator(env).run(init, env)
                got = env.get(N)
            except Refused as e:
                got = f"<not foldable: {e}>"
            rep.check(got == want, rid, f"{fi.key}:first-{kind}", f"first implicit {kind} value is {want}",
                      f"{fi.qualname}: the first implicit {kind} member gets {got}, C numbering starts at {want}", fi.loc(first))
        # ---- continuation: the statements of the store's statement list that assign N (with their helpers), between the selection and the end of the iteration
        loop_list = _stmt_list_of(fi, roles["store"]) or []
        after = False
        cont: list[ast.stmt] = []
        for s in loop_list:
            if s is roles["select"]:
                after = True
                continue
            if after and s is not roles["store"]:
                cont.append(s)
        if not any(_assigns(s, N) for s in cont):
            rep.fail(rid, f"{fi.key}:continuation", "the member loop no longer advances the implicit value after a member", fi.loc())
            continue
        for kind, oracle in (("flag", _next_pow2_above), ("enum", lambda v: v + 1)):
            bad = None
            try:
                for v in samples:
                    env = {T: kind, X: v, N: -12345}
                    Evaluator(env).run(cont, env)
                    if env[N] != oracle(v):
                        bad = (v, env[N], oracle(v))
                        break
            except Refused as e:
                bad = ("not foldable", str(e), "")
            rep.check(bad is None, rid, f"{fi.key}:next-{kind}", f"{kind}: next implicit value follows the C rule on {len(samples)} sample values",
                      f"{fi.qualname}: after {kind} value {bad[0] if bad else ''} the next implicit member gets {bad[1] if bad else ''}, expected {bad[2] if bad else ''}",
                      fi.loc(cont[0] if cont else None))
        stripped = any(isinstance(s, ast.Assign) and norm(s.targets[0]) == K and isinstance(s.value, ast.Call) and call_name(s.value) == "strip" and not s.value.args
                       for s in nodes)
        rep.check(stripped, rid, f"{fi.key}:store", "stored under the stripped key", f"{fi.qualname}: the member is not stored under its stripped name", fi.loc(roles["store"]))
        # ---- explicit / implicit selection
        ife = roles["select"].value
        ev_calls = [c for c in ast.walk(ife.orelse) if isinstance(c, ast.Call) and call_name(c) == "evaluate"]
        src_ok = any(isinstance(c, ast.Call) and call_name(c) == "Expression" and any(norm(x) == E for x in c.args) for c in ast.walk(ife.orelse))
        rep.check(len(ev_calls) == 1 and src_ok, rid, f"{fi.key}:explicit", "value = next if not explicit else Expression(.., explicit).evaluate(..)",
                  f"{fi.qualname}: explicit/implicit value selection changed", fi.loc(roles["select"]))
        if fi is a:
            rep.check(len(ev_calls) == 1 and [norm(x) for x in ev_calls[0].args] == [V], rid, f"{a.key}:earlier-members", "explicit values may refer to earlier members",
                      "the token parser no longer evaluates explicit values over the members seen so far", a.loc(roles["select"]))
        # ---- default underlying type and factory selection
        consts = {const_value(c) for c in ast.walk(fi.node) if is_const(c)}
        sel = [n for n in ast.walk(fi.node) if isinstance(n, (ast.If, ast.IfExp)) and isinstance(n.test, ast.Compare) and norm(n.test.left) == T
               and isinstance(n.test.ops[0], ast.Eq) and const_value(n.test.comparators[0]) == "flag"]

        def attrs(x) -> set[str]:
            return {y.attr for z in (x if isinstance(x, list) else [x]) for y in ast.walk(z) if isinstance(y, ast.Attribute)}

        fac_ok = any("_make_flag" in attrs(n.body) and "_make_enum" not in attrs(n.body) for n in sel) and "_make_enum" in attrs(fi.node)
        rep.check("uint32" in consts and fac_ok, rid, f"{fi.key}:factory", "uint32 default, flag/enum factory by keyword",
                  f"{fi.qualname}: default underlying type or factory selection changed", fi.loc())


def equality_rule(repo: Repo, rep: Report, rid: str) -> None:
    rep.rule(rid, "class-scoped equality on both Enum and Flag: a member of another enum class is never equal; otherwise values compare (the body of "
                  "__eq__ is folded over the six kinds of right-hand operand, so any equivalent arrangement of the tests passes); the hash includes the "
                  "class; __ne__ negates __eq__")
    from ..minieval import Evaluator, Host, Refused, Sym

    n = 0
    for cls, rel in (("Enum", "types/enum.py"), ("Flag", "types/flag.py")):
        eq = repo.func(rel, f"{cls}.__eq__")
        me, other = eq.params[0], eq.params[1]
        own, foreign = Sym("own-class"), Sym("foreign-class")
        this = Sym("member:self", {"__class__": own, "value": 5, "_value_": 5})
        cases = {
            "same class, same value": (Sym("member:a", {"__class__": own, "value": 5, "_value_": 5}), True),
            "same class, other value": (Sym("member:b", {"__class__": own, "value": 6, "_value_": 6}), False),
            "other class, same value": (Sym("member:c", {"__class__": foreign, "value": 5, "_value_": 5}), False),
            "other class, other value": (Sym("member:d", {"__class__": foreign, "value": 6, "_value_": 6}), False),
            "plain int, same value": (5, True),
            "plain int, other value": (6, False),
        }
        family = Sym(cls)

        def isinst(o, k, family=family):
            if k != family:
                raise Refused(f"isinstance against {k}")
            return isinstance(o, Sym) and o.label.startswith("member:")

        bad = None
        for label, (operand, want) in cases.items():
            env = {me: this, other: operand, cls: family, "isinstance": Host(isinst), "type": Host(lambda o: o.attrs["__class__"])}
            try:
                r = Evaluator(env).run(eq.body, env)
                got = r[1] if r[0] == "return" else "<no return>"
            except Refused as e:
                got = f"<not foldable: {e}>"
            if got is not want:
                bad = (label, got, want)
                break
        n += 1
        rep.check(bad is None, rid, f"{eq.key}:class-scope", "members of another class compare unequal, otherwise the values compare (6 operand kinds folded)",
                  f"{cls}.__eq__ gives {bad[1] if bad else ''} for an operand of kind '{bad[0] if bad else ''}', expected {bad[2] if bad else ''}", eq.loc())
        h = repo.func(rel, f"{cls}.__hash__")
        hv = [r.value for r in walk_body(h.node.body) if isinstance(r, ast.Return)]
        n += 1
        rep.check(len(hv) == 1 and isinstance(hv[0], ast.Call) and norm(hv[0].func) == "hash" and "self.__class__" in norm(hv[0]) and "self.value" in norm(hv[0]),
                  rid, f"{h.key}:hash", "hash over (class, name, value)", f"{cls}.__hash__ returns '{short(hv[0] if hv else None, 60)}'", h.loc())
        ne = repo.func(rel, f"{cls}.__ne__")
        nv = [norm(r.value) for r in walk_body(ne.node.body) if isinstance(r, ast.Return)]
        n += 1
        rep.check(nv == [f"not self.__eq__({ne.params[1]})"] or nv == [f"not self == {ne.params[1]}"], rid, f"{ne.key}:ne", "negates __eq__", f"{cls}.__ne__ returns {nv}", ne.loc())
    rep.floor(rid, "equality obligations", n, 6)


DECODERS = ("from_bytes", "unpack", "unpack_from", "iter_unpack")


def own_codec_rule(repo: Repo, rep: Report, rid: str) -> None:
    rep.rule(rid, "enums and flags never decode or encode bytes themselves: no int.from_bytes / to_bytes / struct call anywhere in types/enum.py and "
                  "types/flag.py - every conversion goes through the underlying type (which knows its signedness and byte order)")
    fx = [c for c in ast.walk(ast.parse("def f(cls, b):\n    return int.from_bytes(b, 'little', signed=getattr(cls.type, 'signed', False))\n"))
          if isinstance(c, ast.Call) and call_name(c) in DECODERS + ("to_bytes", "pack")]
    if len(fx) != 1:
        raise AnalysisError("own-codec matcher no longer recognises its positive fixture")
    n = 0
    for rel in ("types/enum.py", "types/flag.py"):
        mod = repo.module(rel)
        n += 1
        bad = [c for c in ast.walk(mod.tree) if isinstance(c, ast.Call) and call_name(c) in DECODERS + ("to_bytes", "pack", "Struct")]
        rep.check(not bad, rid, f"{rel}:own-codec", "no byte-level conversion in this module",
                  f"'{short(bad[0], 70) if bad else ''}' converts bytes inside the enum layer: it bypasses the underlying type, whose signedness (packchar for "
                  "int8..int64) and byte order it would have to reproduce; E(raw) then differs from E.reads(raw)", f"{mod.path}:{bad[0].lineno}" if bad else mod.path)
    call = repo.func("types/enum.py", "EnumMetaType.__call__")
    conv = [c for c in walk_body(call.node.body) if isinstance(c, ast.Call) and norm(c.func) == f"{call.self_name}.type" and len(c.args) == 1]
    rep.check(bool(conv), rid, f"{call.key}:parsable", "a non-integer value is converted by calling the underlying type on it",
              "EnumMetaType.__call__ no longer hands parsable values to the underlying type", call.loc())
    rep.floor(rid, "enum modules", n, 2)


def factory_rule(repo: Repo, rep: Report, rid: str) -> None:
    rep.rule(rid, "every enum / flag declaration gets the class its own member values describe: cstruct._make_enum / _make_flag build the class from the "
                  "'values' argument, and if they memoise, the key contains the member values (values.items()), not only the member names")
    from ..util import resolve_local

    for name, cls in (("_make_enum", "Enum"), ("_make_flag", "Flag")):
        fi = repo.func("cstruct.py", f"cstruct.{name}")
        vals = fi.params[3] if len(fi.params) > 3 else "values"
        me = fi.self_name
        made = [c for c in walk_body(fi.node.body) if isinstance(c, ast.Call) and any(norm(a) == vals for a in c.args) and
                (norm(c.func) == cls or norm(resolve_local(fi.node, c.func)) == cls or isinstance(c.func, ast.Name))]
        rep.check(bool(made), rid, f"{fi.key}:from-values", f"the class is built from '{vals}'", f"{fi.qualname} no longer builds the class from its '{vals}' argument", fi.loc())
        stores = []
        for st in walk_body(fi.node.body):
            if isinstance(st, ast.Assign):
                stores += [t for t in st.targets if isinstance(t, ast.Subscript) and (chain(t.value) or ("",))[0] == me]
        bad = None
        for t in stores:
            key = resolve_local(fi.node, t.slice) if isinstance(t.slice, ast.Name) else t.slice
            has_items = any(isinstance(c, ast.Call) and call_name(c) == "items" and norm(c.func.value) == vals for c in ast.walk(key))
            if not has_items:
                bad = (t, norm(key))
        rep.check(bad is None, rid, f"{fi.key}:memo", "no memo, or a memo whose key contains values.items()",
                  f"{fi.qualname} memoises the class under the key '{bad[1] if bad else ''}', which does not contain the member values ('tuple({vals})' is only the "
                  "names): a later declaration with the same names but other values gets the stale class, with the old values and numbering", fi.loc(bad[0]) if bad else fi.loc())


def run(repo: Repo, rep: Report, tier: str) -> None:
    delegation_rule(repo, rep, "C12.R1")
    missing_rule(repo, rep, "C12.R2")
    from .c13 import token_parser_shape

    token_parser_shape(repo, rep, numbering_rule, "C12.R3")
    equality_rule(repo, rep, "C12.R4")
    own_codec_rule(repo, rep, "C12.R5")
    factory_rule(repo, rep, "C12.R6")
    from .c10 import lookup_order_rule

    from .c10 import lookup_order_shared

    lookup_order_shared(repo, rep, "C12.R7")
    from .memo import memo_rule

    memo_rule(repo, rep, "C12.R8")
    from .share import share_rules
    from .c06 import mask_rule

    share_rules(repo, rep, tier, "c10", {"C10.R1": "C12.R9", "C10.R2": "C12.R10", "C10.R3": "C12.R11"},
                "explicit enum / flag values are computed by the expression evaluator: a mis-evaluated value renumbers every following member")
    mask_rule(repo, rep, "C12.R12")
    from .compiled import compiled_fold_rule

    compiled_fold_rule(repo, rep, "C12.R13", tier)
    from .c05 import codec_fold_rule as _cfr12

    _cfr12(repo, rep, "C12.R14")
    from .c05 import leb128_rule as _leb

    _leb(repo, rep, "C12.R15")
    from .c13 import parser_fold_rule

    parser_fold_rule(repo, rep, "C12.R16")
    from .c04 import struct_rw_fold_rule

    # enum members and enum bit-fields inside structures are read and written through the structure reader / writer
    struct_rw_fold_rule(repo, rep, "C12.R17", 3 if tier == "thorough" else 2)
    from .c10 import expression_fold_rule

    # member values written as expressions (A = 1 << 4, B = A | 3) are numbered by the expression evaluator
    expression_fold_rule(repo, rep, "C12.R18")
    from .c06 import signed_unit_rule

    # an enum bit-field: a member value wider than the field is refused when it is written, not OR-ed over the neighbouring field
    signed_unit_rule(repo, rep, "C12.R19")
    from .c13 import getattr_fold_rule

    # members of an anonymous enum are constants of the cstruct object: cs.NAME is the member, whatever else is called NAME
    getattr_fold_rule(repo, rep, "C12.R20")
