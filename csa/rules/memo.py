"""Generic memoisation rules, shared by every property that a stale cached artefact would break.

M1  decorator caches (functools.lru_cache / cache, directly or as ``lru_cache(f)``): the cached function takes only immutable scalar arguments
    (str / int / bool / bytes / tuples of them) - a cache keyed by a class, a cstruct instance, a Field, a list or a dict is keyed by identity of a
    *mutable* object and returns results computed from its earlier state - and its body reads no instance / module state besides its arguments.
M2  hand-written memos (``if (v := M.get(k)) is None: v = M[k] = <compute>``; M rooted at self / cls / a module global): everything the computed
    value depends on - parameters and attributes of self - occurs in the key; a mapping parameter is keyed by its items, not by ``tuple(p)`` /
    ``frozenset(p)`` / ``sorted(p)`` (which are only its keys).

Both are necessary conditions of "the result does not depend on history": a memo that violates them returns, after some history, a result that
differs from what a fresh computation gives.
"""

from __future__ import annotations

import ast

from ..model import FuncInfo, Repo
from ..report import Report
from ..util import AnalysisError, call_name, chain, norm, resolve_local, short, walk_body

SCALAR_ANNOTATIONS = {"str", "int", "bool", "bytes", "float", "None"}
MUTABLE_HINTS = ("type[", "list", "dict", "set", "cstruct", "Structure", "Union", "Field", "BaseType", "MetaType", "Enum", "Flag", "Pointer", "Array", "Any", "object",
                 "Callable", "Iterator", "BinaryIO")

FIXTURE = '''
import functools

@functools.lru_cache(maxsize=None)
def render(structure: type[Structure], prefix: str = "") -> str:
    return prefix + structure.__name__

class K:
    def make(self, target: type[BaseType]) -> type:
        if (t := self._cache.get(target)) is None:
            t = self._cache[target] = self._build(target, self.pointer.size)
        return t

    def make_enum(self, name: str, values: dict[str, int]) -> type:
        key = (name, tuple(values))
        if key not in self._enums:
            self._enums[key] = Enum(self, name, values)
        return self._enums[key]
'''


def _is_cache_decorator(d: ast.AST) -> bool:
    t = norm(d.func) if isinstance(d, ast.Call) else norm(d)
    last = t.split(".")[-1]
    return last in ("lru_cache", "cache", "cached_property", "memoize", "memoized") or "cache" in last.lower()


def _scalar_annotation(a: ast.AST | None) -> bool | None:
    """True: immutable scalar; False: a mutable / identity-keyed object; None: unknown."""
    if a is None:
        return None
    t = norm(a)
    if isinstance(a, ast.Constant) and isinstance(a.value, str):
        t = a.value
    parts = [p.strip() for p in t.replace("Optional[", "").replace("]", "").split("|")]
    if all(p in SCALAR_ANNOTATIONS or p.startswith("Literal[") or p.startswith("tuple[") and not any(h in p for h in MUTABLE_HINTS) for p in parts):
        return True
    if any(h in t for h in MUTABLE_HINTS):
        return False
    return None


def decorator_cache_gaps(fn: ast.FunctionDef) -> list[str]:
    """Reasons why the arguments of a cached function do not determine its result."""
    out = []
    a = fn.args
    params = [*a.posonlyargs, *a.args, *a.kwonlyargs]
    for p in params:
        sc = _scalar_annotation(p.annotation)
        used_as_object = any(isinstance(x, ast.Attribute) and isinstance(x.value, ast.Name) and x.value.id == p.arg for x in ast.walk(fn)) or \
            any(isinstance(c, ast.Call) and call_name(c) in ("issubclass", "isinstance", "getattr", "len") and c.args and norm(c.args[0]) == p.arg for c in ast.walk(fn))
        if p.arg in ("self", "cls"):
            out.append(f"it is a method: the cache is keyed by '{p.arg}', whose state can change")
        elif sc is False or (sc is None and used_as_object):
            out.append(f"parameter '{p.arg}'" + (f": {norm(p.annotation)}" if p.annotation is not None else "") + " is an object with mutable state, the cache is keyed by its identity")
    if a.vararg or a.kwarg:
        out.append("it takes *args / **kwargs of unknown kind")
    return out


def find_decorator_caches(tree: ast.AST):
    """(function node, how) for ``@lru_cache`` style decorators and for ``lru_cache(f)`` / ``lru_cache(...)(f)`` applied to a local function."""
    defs = {n.name: n for n in ast.walk(tree) if isinstance(n, (ast.FunctionDef, ast.AsyncFunctionDef))}
    seen = set()
    for n in defs.values():
        for d in n.decorator_list:
            if _is_cache_decorator(d):
                seen.add(n.name)
                yield n, f"@{short(d, 40)}"
    for c in ast.walk(tree):
        if isinstance(c, ast.Call) and _is_cache_decorator(c.func if not isinstance(c.func, ast.Call) else c.func) and len(c.args) == 1 and isinstance(c.args[0], ast.Name):
            f = defs.get(c.args[0].id)
            if f is not None and f.name not in seen:
                seen.add(f.name)
                yield f, f"{short(c, 40)}"


def _deps(fn: ast.AST, expr: ast.AST, me: str | None, depth: int = 3) -> tuple[set[str], set[str]]:
    """(parameter / local names, attributes of self) an expression is computed from, following singly-bound locals."""
    names: set[str] = set()
    state: set[str] = set()
    stack = [(expr, depth)]
    seen: set[int] = set()
    while stack:
        e, d = stack.pop()
        for x in ast.walk(e):
            if isinstance(x, ast.Attribute) and isinstance(x.value, ast.Name) and x.value.id == me and isinstance(x.ctx, ast.Load):
                state.add(x.attr)
            elif isinstance(x, ast.Name) and isinstance(x.ctx, ast.Load) and x.id != me:
                names.add(x.id)
                if d > 0 and id(x) not in seen:
                    seen.add(id(x))
                    v = resolve_local(fn, x, 1)
                    if v is not x and v is not None:
                        stack.append((v, d - 1))
    return names, state


def memo_gaps(fn: ast.FunctionDef) -> list[tuple[ast.AST, str]]:
    """Hand-written memo stores whose key does not determine the stored value."""
    params = [a.arg for a in [*fn.args.posonlyargs, *fn.args.args, *fn.args.kwonlyargs]]
    me = params[0] if params and params[0] in ("self", "cls") else None
    out = []
    for st in walk_body(fn.body):
        if not isinstance(st, ast.Assign):
            continue
        for t in st.targets:
            if not (isinstance(t, ast.Subscript) and (chain(t.value) or ("",))[0] in ((me,) if me else ()) + tuple()):
                continue
            table = norm(t.value)
            # a memo is read back in the same function (get / in / subscript load)
            read_back = any((isinstance(c, ast.Call) and norm(c.func) == f"{table}.get") or
                            (isinstance(c, ast.Compare) and any(isinstance(o, (ast.In, ast.NotIn)) for o in c.ops) and any(norm(k) == table for k in c.comparators)) or
                            (isinstance(c, ast.Subscript) and isinstance(c.ctx, ast.Load) and norm(c.value) == table)
                            for c in ast.walk(fn))
            if not read_back:
                continue
            stored = resolve_local(fn, st.value) if isinstance(st.value, ast.Name) else st.value
            if isinstance(stored, ast.Name) and stored.id in params:
                continue  # a registry (the caller's object stored under the caller's key), not a memo of something computed here
            vnames, vstate = _deps(fn, st.value, me)
            knames, kstate = _deps(fn, t.slice, me)
            table_attr = (chain(t.value) or ("", ""))[1] if len(chain(t.value) or ()) > 1 else None
            vstate -= {table_attr}
            vstate = {a for a in vstate if not a.startswith("_make_") and a not in ("resolve", "_make_type", "_next_anonymous")}
            missing_params = sorted(p for p in params if p != me and p in vnames and p not in knames)
            missing_state = sorted(vstate - kstate)
            key_expr = resolve_local(fn, t.slice) if isinstance(t.slice, ast.Name) else t.slice
            keys_only = sorted({norm(c.args[0]) for c in ast.walk(key_expr) if isinstance(c, ast.Call) and call_name(c) in ("tuple", "frozenset", "sorted", "list", "set")
                                and len(c.args) == 1 and isinstance(c.args[0], ast.Name) and c.args[0].id in params
                                and _mapping_param(fn, c.args[0].id)})
            why = []
            if missing_params:
                why.append(f"the key leaves out parameter(s) {missing_params}")
            if missing_state:
                why.append(f"the key leaves out self.{missing_state}, which the value is computed from")
            if keys_only:
                why.append(f"the key holds only the names of mapping {keys_only} (tuple / frozenset of a dict are its keys), not its values")
            if why:
                out.append((t, f"memo '{table}[{short(t.slice, 30)}]': " + "; ".join(why)))
    return out


def _mapping_param(fn: ast.FunctionDef, name: str) -> bool:
    for a in [*fn.args.posonlyargs, *fn.args.args, *fn.args.kwonlyargs]:
        if a.arg == name:
            ann = norm(a.annotation) if a.annotation is not None else ""
            if "dict" in ann or "Mapping" in ann:
                return True
    return any(isinstance(c, ast.Call) and norm(c.func) in (f"{name}.items", f"{name}.values", f"{name}.keys") for c in ast.walk(fn))


def memo_rule(repo: Repo, rep: Report, rid: str) -> None:
    rep.rule(rid, "memoisation never outlives its inputs (whole package): a function cached with lru_cache / cache takes only immutable scalar arguments; a "
                  "hand-written memo on self / cls is keyed by every parameter and every attribute of self its value is computed from, and by the items "
                  "(not just the names) of a mapping parameter")
    fx = ast.parse(FIXTURE)
    fx_dec = [(f, decorator_cache_gaps(f)) for f, _ in find_decorator_caches(fx)]
    fx_memo = [g for f in ast.walk(fx) if isinstance(f, ast.FunctionDef) for g in memo_gaps(f)]
    if len(fx_dec) != 1 or not fx_dec[0][1] or len(fx_memo) != 2:
        raise AnalysisError(f"memo matchers no longer recognise their positive fixture (decorator {len(fx_dec)}, memo {len(fx_memo)})")
    rep.ok(rid, "fixture:lru_cache over a class / memo keyed by target only / memo keyed by tuple(dict)", "matchers recognise the three positive fixtures", "", nontrivial=False)
    ndec = 0
    for mod in repo.modules.values():
        for f, how in find_decorator_caches(mod.tree):
            ndec += 1
            gaps = decorator_cache_gaps(f)
            # state read besides the arguments
            params = {a.arg for a in [*f.args.posonlyargs, *f.args.args, *f.args.kwonlyargs]}
            rep.check(not gaps, rid, f"{mod.rel}:{f.name}:cached", f"{how}: keyed by immutable scalars {sorted(params)}",
                      f"{f.name} is cached ({how}) but {gaps[0] if gaps else ''}: after that object changes in place (add_field / commit, a changed setting) the "
                      "cached result of the earlier state is returned", f"{mod.path}:{f.lineno}")
    rep.floor(rid, "decorator caches", ndec, 2)
    nmemo = 0
    for fi in repo.all_functions():
        gaps = memo_gaps(fi.node)
        for st, why in gaps:
            nmemo += 1
            rep.fail(rid, f"{fi.key}:memo {short(st, 40)}", f"{fi.qualname}: {why}: a later call with other values / after a changed setting gets the stale result",
                     fi.loc(st))
    rep.info["hand_written_memo_gaps"] = nmemo
