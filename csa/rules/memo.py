"""Generic memoisation rules, shared by every property that a stale cached artefact would break.

M1  decorator caches (functools.lru_cache / cache, directly or as ``lru_cache(f)``): the cached function takes only immutable scalar arguments
    (str / int / bool / bytes / tuples of them) - a cache keyed by a class, a cstruct instance, a Field, a list or a dict is keyed by identity of a
    *mutable* object and returns results computed from its earlier state - and its body reads no instance / module state besides its arguments.
M2  hand-written memos (``if (v := M.get(k)) is None: v = M[k] = <compute>``; M rooted at self / cls / a module global): everything the computed
    value depends on - parameters and attributes of self - occurs in the key; a mapping parameter is keyed by its items, not by ``tuple(p)`` /
    ``frozenset(p)`` / ``sorted(p)`` (which are only its keys).

Both are necessary conditions of "the result does not depend on history": a memo that violates them returns, after some history, a result that
differs from what a fresh computation gives.
"""

from __future__ import annotations

import ast

from ..model import FuncInfo, Repo
from ..report import Report
from ..util import AnalysisError, call_name, chain, norm, resolve_local, short, walk_body

SCALAR_ANNOTATIONS = {"str", "int", "bool", "bytes", "float", "None"}
MUTABLE_HINTS = ("type[", "list", "dict", "set", "cstruct", "Structure", "Union", "Field", "BaseType", "MetaType", "Enum", "Flag", "Pointer", "Array", "Any", "object",
                 "Callable", "Iterator", "BinaryIO")

FIXTURE = '''
import functools

@functools.lru_cache(maxsize=None)
def render(structure: type[Structure], prefix: str = "") -> str:
    return prefix + structure.__name__

class K:
    def make(self, target: type[BaseType]) -> type:
        if (t := self._cache.get(target)) is None:
            t = self._cache[target] = self._build(target, self.pointer.size)
        return t

    def make_enum(self, name: str, values: dict[str, int]) -> type:
        key = (name, tuple(values))
        if key not in self._enums:
            self._enums[key] = Enum(self, name, values)
        return self._enums[key]

    def make_array(self, type_: type[BaseType], n: int) -> type:
        if (t := self._arrays.get((type_, n))) is None:
            t = self._arrays[(type_, n)] = self._build("arr", n * type_.size)
        return t

    def reader(self, source: str, symbols: dict) -> object:
        key = (source, *(t.__name__ for t in symbols.values()))
        if (f := self._readers.get(key)) is None:
            f = self._readers[key] = compile_it(source, symbols)
        return f


class P:
    @classmethod
    def _packer(cls):
        try:
            return cls.__dict__["__packer__"]
        except KeyError:
            cls.__packer__ = packer = _struct(cls.cs.endian, cls.packchar)
            return packer


@functools.lru_cache(None)
def _decoder(encoding: str):
    return codecs.getincrementaldecoder(encoding)()


_SCRATCH = BytesIO()
'''


def _is_cache_decorator(d: ast.AST) -> bool:
    t = norm(d.func) if isinstance(d, ast.Call) else norm(d)
    last = t.split(".")[-1]
    return last in ("lru_cache", "cache", "cached_property", "memoize", "memoized") or "cache" in last.lower()


def _scalar_annotation(a: ast.AST | None) -> bool | None:
    """True: immutable scalar; False: a mutable / identity-keyed object; None: unknown."""
    if a is None:
        return None
    t = norm(a)
    if isinstance(a, ast.Constant) and isinstance(a.value, str):
        t = a.value
    parts = [p.strip() for p in t.replace("Optional[", "").replace("]", "").split("|")]
    if all(p in SCALAR_ANNOTATIONS or p.startswith("Literal[") or p.startswith("tuple[") and not any(h in p for h in MUTABLE_HINTS) for p in parts):
        return True
    if any(h in t for h in MUTABLE_HINTS):
        return False
    return None


def decorator_cache_gaps(fn: ast.FunctionDef) -> list[str]:
    """Reasons why the arguments of a cached function do not determine its result."""
    out = []
    a = fn.args
    params = [*a.posonlyargs, *a.args, *a.kwonlyargs]
    for p in params:
        sc = _scalar_annotation(p.annotation)
        used_as_object = any(isinstance(x, ast.Attribute) and isinstance(x.value, ast.Name) and x.value.id == p.arg for x in ast.walk(fn)) or \
            any(isinstance(c, ast.Call) and call_name(c) in ("issubclass", "isinstance", "getattr", "len") and c.args and norm(c.args[0]) == p.arg for c in ast.walk(fn))
        if p.arg in ("self", "cls"):
            out.append(f"it is a method: the cache is keyed by '{p.arg}', whose state can change")
        elif sc is False or (sc is None and used_as_object):
            out.append(f"parameter '{p.arg}'" + (f": {norm(p.annotation)}" if p.annotation is not None else "") + " is an object with mutable state, the cache is keyed by its identity")
    if a.vararg or a.kwarg:
        out.append("it takes *args / **kwargs of unknown kind")
    return out


def find_decorator_caches(tree: ast.AST):
    """(function node, how) for ``@lru_cache`` style decorators and for ``lru_cache(f)`` / ``lru_cache(...)(f)`` applied to a local function."""
    defs = {n.name: n for n in ast.walk(tree) if isinstance(n, (ast.FunctionDef, ast.AsyncFunctionDef))}
    seen = set()
    for n in defs.values():
        for d in n.decorator_list:
            if _is_cache_decorator(d):
                seen.add(n.name)
                yield n, f"@{short(d, 40)}"
    for c in ast.walk(tree):
        if isinstance(c, ast.Call) and _is_cache_decorator(c.func if not isinstance(c.func, ast.Call) else c.func) and len(c.args) == 1 and isinstance(c.args[0], ast.Name):
            f = defs.get(c.args[0].id)
            if f is not None and f.name not in seen:
                seen.add(f.name)
                yield f, f"{short(c, 40)}"


def _deps(fn: ast.AST, expr: ast.AST, me: str | None, depth: int = 3) -> tuple[set[str], set[str]]:
    """(parameter / local names, attributes of self) an expression is computed from, following singly-bound locals."""
    names: set[str] = set()
    state: set[str] = set()
    stack = [(expr, depth)]
    seen: set[int] = set()
    while stack:
        e, d = stack.pop()
        for x in ast.walk(e):
            if isinstance(x, ast.Attribute) and isinstance(x.value, ast.Name) and x.value.id == me and isinstance(x.ctx, ast.Load):
                state.add(x.attr)
            elif isinstance(x, ast.Name) and isinstance(x.ctx, ast.Load) and x.id != me:
                names.add(x.id)
                if d > 0 and id(x) not in seen:
                    seen.add(id(x))
                    v = resolve_local(fn, x, 1)
                    if v is not x and v is not None:
                        stack.append((v, d - 1))
    return names, state


def memo_gaps(fn: ast.FunctionDef) -> list[tuple[ast.AST, str]]:
    """Hand-written memo stores whose key does not determine the stored value."""
    params = [a.arg for a in [*fn.args.posonlyargs, *fn.args.args, *fn.args.kwonlyargs]]
    me = params[0] if params and params[0] in ("self", "cls") else None
    out = []
    for st in walk_body(fn.body):
        if not isinstance(st, ast.Assign):
            continue
        for t in st.targets:
            if not isinstance(t, ast.Subscript):
                continue
            table_expr = resolve_local(fn, t.value) if isinstance(t.value, ast.Name) else t.value
            if not (me and table_expr is not None and ((chain(table_expr) or ("",))[0] == me or
                                                        (table_expr is not t.value and any(isinstance(x, ast.Name) and x.id == me for x in ast.walk(table_expr))))):
                continue
            table = norm(t.value)
            # a memo is read back in the same function (get / in / subscript load)
            read_back = any((isinstance(c, ast.Call) and norm(c.func) == f"{table}.get") or
                            (isinstance(c, ast.Compare) and any(isinstance(o, (ast.In, ast.NotIn)) for o in c.ops) and any(norm(k) == table for k in c.comparators)) or
                            (isinstance(c, ast.Subscript) and isinstance(c.ctx, ast.Load) and norm(c.value) == table)
                            for c in ast.walk(fn))
            if not read_back:
                continue
            stored = resolve_local(fn, st.value) if isinstance(st.value, ast.Name) else st.value
            if isinstance(stored, ast.Name) and stored.id in params:
                continue  # a registry (the caller's object stored under the caller's key), not a memo of something computed here
            vnames, vstate = _deps(fn, st.value, me)
            knames, kstate = _deps(fn, t.slice, me)
            table_attr = (chain(t.value) or ("", ""))[1] if len(chain(t.value) or ()) > 1 else None
            vstate -= {table_attr}
            vstate = {a for a in vstate if not a.startswith("_make_") and a not in ("resolve", "_make_type", "_next_anonymous")}
            missing_params = sorted(p for p in params if p != me and p in vnames and p not in knames)
            missing_state = sorted(vstate - kstate)
            key_expr = resolve_local(fn, t.slice) if isinstance(t.slice, ast.Name) else t.slice
            keys_only = sorted({norm(c.args[0]) for c in ast.walk(key_expr) if isinstance(c, ast.Call) and call_name(c) in ("tuple", "frozenset", "sorted", "list", "set")
                                and len(c.args) == 1 and isinstance(c.args[0], ast.Name) and c.args[0].id in params
                                and _mapping_param(fn, c.args[0].id)})
            why = list(key_identity_gaps(fn, t.slice, getattr(fn, "_cls_methods", None)))
            if missing_params:
                why.append(f"the key leaves out parameter(s) {missing_params}")
            if missing_state:
                why.append(f"the key leaves out self.{missing_state}, which the value is computed from")
            if keys_only:
                why.append(f"the key holds only the names of mapping {keys_only} (tuple / frozenset of a dict are its keys), not its values")
            if why:
                out.append((t, f"memo '{table}[{short(t.slice, 30)}]': " + "; ".join(why)))
    return out


def _mapping_param(fn: ast.FunctionDef, name: str) -> bool:
    for a in [*fn.args.posonlyargs, *fn.args.args, *fn.args.kwonlyargs]:
        if a.arg == name:
            ann = norm(a.annotation) if a.annotation is not None else ""
            if "dict" in ann or "Mapping" in ann:
                return True
    return any(isinstance(c, ast.Call) and norm(c.func) in (f"{name}.items", f"{name}.values", f"{name}.keys") for c in ast.walk(fn))



MUTABLE_TYPE_ATTRS = {"size", "alignment", "dynamic", "fields", "__fields__", "lookup", "__align__", "num_entries", "type"}
IMMUTABLE_CONSTRUCTORS = {"getLogger", "TypeVar", "compile", "namedtuple", "frozenset", "tuple", "MappingProxyType", "Struct", "object", "Lock", "RLock", "partial",
                          "NewType", "ParamSpec", "local", "str", "bytes", "int", "float", "bool", "Path", "PurePath", "Enum", "IntEnum", "Literal"}


def _params(fn: ast.FunctionDef) -> list[ast.arg]:
    return [*fn.args.posonlyargs, *fn.args.args, *fn.args.kwonlyargs]


def _reads_mutable_attr(fn: ast.FunctionDef, pname: str, cls_methods: dict[str, ast.FunctionDef] | None, depth: int = 1) -> str | None:
    """Name of a mutable attribute of parameter ``pname`` that ``fn`` (or a method of the same class it hands the parameter to) reads."""
    for x in ast.walk(fn):
        if isinstance(x, ast.Attribute) and isinstance(x.value, ast.Name) and x.value.id == pname and x.attr in MUTABLE_TYPE_ATTRS and isinstance(x.ctx, ast.Load):
            return x.attr
        if isinstance(x, ast.Call) and call_name(x) == "len" and x.args and norm(x.args[0]) == pname:
            return "size"
    if depth and cls_methods:
        for c in ast.walk(fn):
            if isinstance(c, ast.Call) and isinstance(c.func, ast.Attribute) and isinstance(c.func.value, ast.Name) and c.func.value.id in ("self", "cls") and c.func.attr in cls_methods:
                callee = cls_methods[c.func.attr]
                if callee is fn:
                    continue
                cps = [a.arg for a in _params(callee)][1:]
                for i, a in enumerate(c.args):
                    if isinstance(a, ast.Name) and a.id == pname and i < len(cps):
                        got = _reads_mutable_attr(callee, cps[i], cls_methods, depth - 1)
                        if got:
                            return got
                for k in c.keywords:
                    if k.arg and isinstance(k.value, ast.Name) and k.value.id == pname and k.arg in cps:
                        got = _reads_mutable_attr(callee, k.arg, cls_methods, depth - 1)
                        if got:
                            return got
    return None


def key_identity_gaps(fn: ast.FunctionDef, key: ast.AST, cls_methods: dict[str, ast.FunctionDef] | None = None) -> list[str]:
    """A key that names an object by something weaker than the object (its name, its id, its repr), or by a mutable object whose state the
    cached value was computed from."""
    key = resolve_local(fn, key) if isinstance(key, ast.Name) else key
    out = []
    comps = [key]
    for x in ast.walk(key):
        if isinstance(x, ast.Name) and isinstance(x.ctx, ast.Load):
            v = resolve_local(fn, x, 1)
            if v is not x and v is not None:
                comps.append(v)
    seen = set()
    for comp in comps:
        for x in ast.walk(comp):
            if isinstance(x, ast.Attribute) and x.attr in ("__name__", "__qualname__") and "name" not in seen:
                seen.add("name")
                out.append(f"the key names an object by '{short(x, 30)}': two different objects of the same name share one entry")
            elif isinstance(x, ast.Call) and call_name(x) in ("id", "repr", "str", "hash") and x.args and not isinstance(x.args[0], ast.Constant) and "id" not in seen:
                seen.add("id")
                out.append(f"the key uses '{short(x, 30)}': ids are reused and reprs are not identities, a later object can hit an earlier entry")
    pnames = {a.arg: a for a in _params(fn)}
    for x in ast.walk(key):
        if isinstance(x, ast.Name) and x.id in pnames and x.id not in ("self", "cls"):
            sc = _scalar_annotation(pnames[x.id].annotation)
            if sc is True:
                continue
            attr = _reads_mutable_attr(fn, x.id, cls_methods)
            if attr:
                out.append(f"the key holds the object '{x.id}' while the cached value is computed from its '{attr}', which changes when the type is extended "
                           "(add_field / commit): the entry made for its earlier state is handed out afterwards")
                break
    return out


def attribute_cache_gaps(fn: ast.FunctionDef) -> list[tuple[ast.AST, str]]:
    """``cls.X = <computed>`` that the same function reads back (cls.X / cls.__dict__["X"] / getattr / hasattr): a cache without a key."""
    ps = [a.arg for a in _params(fn)]
    me = ps[0] if ps and ps[0] in ("cls",) else None
    if me is None:
        return []
    out = []
    for st in walk_body(fn.body):
        if not isinstance(st, ast.Assign):
            continue
        for t in st.targets:
            if isinstance(t, ast.Attribute) and isinstance(t.value, ast.Name) and t.value.id == me:
                attr = t.attr
                read_back = any((isinstance(x, ast.Subscript) and norm(x.value) == f"{me}.__dict__" and isinstance(x.slice, ast.Constant) and x.slice.value == attr and isinstance(x.ctx, ast.Load)) or
                                (isinstance(x, ast.Call) and call_name(x) in ("getattr", "hasattr") and len(x.args) >= 2 and norm(x.args[0]) == me and isinstance(x.args[1], ast.Constant) and x.args[1].value == attr) or
                                (isinstance(x, ast.Call) and norm(x.func) == f"{me}.__dict__.get" and x.args and isinstance(x.args[0], ast.Constant) and x.args[0].value == attr) or
                                (isinstance(x, ast.Compare) and isinstance(x.left, ast.Constant) and x.left.value == attr and norm(x.comparators[0]) in (f"{me}.__dict__", f"vars({me})"))
                                for x in ast.walk(fn))
                if not read_back:
                    continue
                vnames, vstate = _deps(fn, st.value, me)
                state_chain = sorted({norm(x) for x in ast.walk(st.value) if isinstance(x, ast.Attribute) and norm(x).startswith(f"{me}.cs.")} |
                                     {norm(x) for n_ in ast.walk(st.value) if isinstance(n_, ast.Name) for x in ast.walk(resolve_local(fn, n_, 1) or n_)
                                      if isinstance(x, ast.Attribute) and norm(x).startswith(f"{me}.cs.")})
                dep_params = sorted(p for p in ps[1:] if p in vnames)
                if state_chain or dep_params:
                    out.append((t, f"'{me}.{attr}' is computed once and read back on later calls, but depends on {state_chain or dep_params}: a changed setting "
                                   f"(byte order, pointer type) or another argument gets the value of the first call"))
    return out


def stateful_result(fn: ast.FunctionDef) -> str | None:
    """A cached function that hands out a freshly constructed stateful object (the same one to every caller)."""
    for r in walk_body(fn.body):
        if isinstance(r, ast.Return) and r.value is not None:
            v = resolve_local(fn, r.value) if isinstance(r.value, ast.Name) else r.value
            if isinstance(v, ast.Call):
                if isinstance(v.func, ast.Call):
                    return short(v, 50)
                nm = call_name(v) or ""
                if nm[:1].isupper() and nm not in IMMUTABLE_CONSTRUCTORS:
                    return short(v, 50)
    return None


def module_objects(tree: ast.Module) -> list[tuple[str, ast.AST]]:
    """Module-level names bound at import time to an object built by a call that is not a known immutable / by-design-shared constructor."""
    out = []
    for st in tree.body:
        tgt = val = None
        if isinstance(st, ast.Assign) and len(st.targets) == 1 and isinstance(st.targets[0], ast.Name):
            tgt, val = st.targets[0].id, st.value
        elif isinstance(st, ast.AnnAssign) and isinstance(st.target, ast.Name) and st.value is not None:
            tgt, val = st.target.id, st.value
        if tgt and isinstance(val, ast.Call):
            nm = (call_name(val) or norm(val.func)).split(".")[-1]
            if nm not in IMMUTABLE_CONSTRUCTORS and nm not in ("dict", "list", "set", "defaultdict", "OrderedDict", "count"):
                out.append((tgt, val))
    return out


def memo_rule(repo: Repo, rep: Report, rid: str) -> None:
    rep.rule(rid, "memoisation never outlives its inputs (whole package): a function cached with lru_cache / cache takes only immutable scalar arguments and "
                  "returns no stateful object; a hand-written memo on self / cls is keyed by every parameter and every attribute of self its value is computed "
                  "from, by the items (not just the names) of a mapping parameter, by objects rather than their names / ids, and not by a type object whose "
                  "size the value froze; no keyless attribute cache on a class depends on settings or arguments; no module-level scratch object is worked on")
    fx = ast.parse(FIXTURE)
    fx_dec = [(f, decorator_cache_gaps(f)) for f, _ in find_decorator_caches(fx)]
    fx_memo = [g for f in ast.walk(fx) if isinstance(f, ast.FunctionDef) for g in memo_gaps(f)]
    fx_attr = [g for f in ast.walk(fx) if isinstance(f, ast.FunctionDef) for g in attribute_cache_gaps(f)]
    fx_stateful = [stateful_result(f) for f, _ in find_decorator_caches(fx)]
    if len(fx_dec) != 2 or not fx_dec[0][1] or len(fx_memo) != 4 or len(fx_attr) != 1 or not any(fx_stateful) or len(module_objects(fx)) != 1:
        raise AnalysisError(f"memo matchers no longer recognise their positive fixture (decorator {len(fx_dec)}, memo {len(fx_memo)}, attribute {len(fx_attr)}, "
                            f"stateful {fx_stateful}, module objects {len(module_objects(fx))})")
    rep.ok(rid, "fixture:lru_cache over a class / memo keyed by target only / by tuple(dict) / by a mutable type / by names / attribute cache / stateful result / module scratch object",
           "matchers recognise the eight positive fixtures", "", nontrivial=False)
    ndec = 0
    for mod in repo.modules.values():
        for f, how in find_decorator_caches(mod.tree):
            ndec += 1
            gaps = decorator_cache_gaps(f)
            # state read besides the arguments
            params = {a.arg for a in [*f.args.posonlyargs, *f.args.args, *f.args.kwonlyargs]}
            rep.check(not gaps, rid, f"{mod.rel}:{f.name}:cached", f"{how}: keyed by immutable scalars {sorted(params)}",
                      f"{f.name} is cached ({how}) but {gaps[0] if gaps else ''}: after that object changes in place (add_field / commit, a changed setting) the "
                      "cached result of the earlier state is returned", f"{mod.path}:{f.lineno}")
            sr = stateful_result(f)
            rep.check(sr is None, rid, f"{mod.rel}:{f.name}:cached result", "the cached result is an immutable value",
                      f"{f.name} is cached ({how}) and returns '{sr}', a freshly built stateful object: every caller (every thread, every nested parse) gets the "
                      "same object and sees what the others left in it", f"{mod.path}:{f.lineno}")
    rep.floor(rid, "decorator caches", ndec, 2)
    for mod in repo.modules.values():
        for name, val in module_objects(mod.tree):
            users = [fi for fi in mod.functions.values() if any(isinstance(x, ast.Name) and x.id == name and isinstance(x.ctx, ast.Load) for x in ast.walk(fi.node))]
            rep.check(not users, rid, f"{mod.rel}:{name}:module object", "not used by any function",
                      f"module-level '{name} = {short(val, 40)}' is one object for the whole process and {users[0].qualname if users else ''} works on it: "
                      "overlapping calls (threads, re-entrant dumps / parses) and consecutive calls share its contents", f"{mod.path}:{getattr(val, 'lineno', 0)}")
    nmemo = 0
    for fi in repo.all_functions():
        if fi.cls is not None:
            fi.node._cls_methods = {q.split(".", 1)[1]: f.node for q, f in fi.module.functions.items() if q.startswith(fi.cls.name + ".") and q.count(".") == 1}
        for st, why in attribute_cache_gaps(fi.node):
            nmemo += 1
            rep.fail(rid, f"{fi.key}:attribute cache {short(st, 40)}", f"{fi.qualname}: {why}", fi.loc(st))
        gaps = memo_gaps(fi.node)
        for st, why in gaps:
            nmemo += 1
            rep.fail(rid, f"{fi.key}:memo {short(st, 40)}", f"{fi.qualname}: {why}: a later call with other values / after a changed setting gets the stale result",
                     fi.loc(st))
    rep.info["hand_written_memo_gaps"] = nmemo
