"""Report rules of another property's checker under this property's ids (a rule is shared when it is a necessary condition of both)."""

from __future__ import annotations

import importlib

from ..model import Repo
from ..report import Report


def share_rules(repo: Repo, rep: Report, tier: str, module: str, mapping: dict[str, str], why: str) -> None:
    cache = repo.__dict__.setdefault("_shared_reports", {})
    running = repo.__dict__.setdefault("_shared_running", set())
    if module in running:
        raise RuntimeError(f"circular rule sharing through csa.rules.{module}: import the rule function instead")
    if (module, tier) not in cache:
        running.add(module)
        try:
            scratch = Report(module.upper(), tier)
            importlib.import_module(f"csa.rules.{module}").run(repo, scratch, tier)
            cache[(module, tier)] = scratch
        finally:
            running.discard(module)
    src: Report = cache[(module, tier)]
    for old, new in mapping.items():
        rep.rule(new, src.rules_desc.get(old, old) + f" [{why}]")
        for it in src.items:
            if it.rule == old:
                (rep.ok if it.ok else rep.fail)(new, it.construct, it.detail, it.loc) if not it.ok else rep.ok(new, it.construct, it.detail, it.loc, it.nontrivial)
        for f in src.floors:
            if f["rule"] == old:
                rep.floors.append({**f, "rule": new})
