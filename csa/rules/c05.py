"""C05 - scalar codecs implement the standard encodings under the *current* endianness."""

from __future__ import annotations

import ast

from .. import templates as T
from ..callgraph import CallGraph, entry_points
from ..effects import ALLOWED, EffectAnalysis
from ..model import FuncInfo, Repo
from ..report import Report
from ..tables import class_attr, dict_items, module_attr
from ..util import AnalysisError, call_name, chain, const_value, is_const, names_loaded, norm, parent_map, root_name, short, walk_body
from .c01 import codec_key_rule
from .c04 import type_table_rule


def _endian_loads(fi: FuncInfo):
    for n in walk_body(fi.node.body):
        if isinstance(n, ast.Attribute) and n.attr == "endian" and isinstance(n.ctx, ast.Load):
            yield n


def call_time_rule(repo: Repo, rep: Report, rid: str) -> None:
    rep.rule(rid, "endianness is read at call time everywhere: every load of <cstruct>.endian sits in a function of the parse/dump closure, "
                  "its value only flows into call arguments / subscripts / per-call locals, never into a store on a shared object, a default "
                  "argument, a closure, a cache key-less memo or generated text")
    tfuncs = T.reader_template_functions(repo)
    cg = CallGraph(repo, extra_functions=tfuncs)
    ea = EffectAnalysis(repo, cg)
    ep = entry_points(repo)
    rt = cg.closure(ep["PARSE"] + ep["DUMP"] + [f.key for f in tfuncs])
    n_loads = 0
    for fi in sorted(cg.funcs.values(), key=lambda f: f.key):
        pm = None
        binds = None
        for ld in _endian_loads(fi):
            c = chain(ld)
            if c is None:
                continue
            via_cs = len(c) >= 3 and c[-2] in ("cs", "cstruct")
            percall_self = len(c) == 2 and c[0] == fi.self_name and fi.cls is not None and ea.class_kind(fi.cls.name) == "per-call"
            key = f"{fi.key}:load {'.'.join(c)}"
            if percall_self:
                # BitBuffer.endian: a per-call copy taken when the buffer was constructed inside a parse/dump
                rep.ok(rid, key, "endianness copy on a per-call object", fi.loc(ld), nontrivial=False)
                continue
            if not via_cs and not (len(c) == 2 and c[0] in ("cs",)):
                if len(c) == 2 and c[0] == fi.self_name and fi.cls is not None and fi.cls.name == "cstruct":
                    via_cs = True
                else:
                    continue
            n_loads += 1
            if fi.key not in rt:
                rep.fail(rid, key, f"{fi.qualname} reads the endianness outside the parse/dump closure (at definition/compile time): a later "
                                   f"change of cs.endian would not be seen", fi.loc(ld))
                continue
            if pm is None:
                pm = parent_map(fi.node)
                binds = cg.local_bindings(fi)
            bad = _flows_into_store(fi, ld, pm, ea, binds)
            if bad:
                rep.fail(rid, key, bad, fi.loc(ld))
            else:
                rep.ok(rid, key, "read at call time, flows only into a call argument / subscript / local", fi.loc(ld))
    rep.floor(rid, "loads of <cstruct>.endian", n_loads, 6)

    # stores of an attribute named endian: only constructors of cstruct and of per-call objects
    for fi in repo.all_functions():
        for n in walk_body(fi.node.body):
            if isinstance(n, (ast.Assign, ast.AugAssign, ast.AnnAssign)):
                targets = n.targets if isinstance(n, ast.Assign) else [n.target]
                for t in targets:
                    if isinstance(t, ast.Attribute) and "endian" in t.attr.lower():
                        okc = fi.name == "__init__" and fi.cls is not None and (fi.cls.name == "cstruct" or ea.class_kind(fi.cls.name) == "per-call")
                        rep.check(okc, rid, f"{fi.key}:store {norm(t)}", "constructor of cstruct / per-call object",
                                  f"'{norm(t)}' is stored in {fi.qualname}: a remembered endianness would survive a later change of cs.endian", fi.loc(n))

    # BitBuffer constructions (the only holder of an endianness copy) are per-call locals
    nb = 0
    for fi in cg.funcs.values():
        for n in walk_body(fi.node.body):
            if isinstance(n, ast.Call) and call_name(n) == "BitBuffer":
                nb += 1
                inrt = fi.key in rt
                a1 = n.args[1] if len(n.args) > 1 else None
                rep.check(inrt and a1 is not None and norm(a1).endswith(".cs.endian"), rid, f"{fi.key}:{short(n, 60)}",
                          "constructed per call with the current endianness", "BitBuffer must be constructed inside a parse/dump with <cls>.cs.endian",
                          fi.loc(n))
    rep.floor(rid, "BitBuffer constructions", nb, 2)  # reader and writer; the generated reader's own is found when its preamble is a harvestable template

    # caches: lru_cache'd functions must be closed over their parameters
    nc = 0
    for fi in repo.all_functions():
        decs = [norm(d) for d in fi.node.decorator_list]
        if any("lru_cache" in d or d in ("cache", "functools.cache") for d in decs):
            nc += 1
            free_attr = [norm(x) for x in walk_body(fi.node.body) if isinstance(x, ast.Attribute) and root_name(x) not in fi.params
                         and root_name(x) not in ("ExpressionParserError",)]
            glob = [x.id for x in walk_body(fi.node.body) if isinstance(x, ast.Name) and isinstance(x.ctx, ast.Load) and x.id not in fi.params
                    and x.id not in ("Struct", "func", "d", "exec", "range", "n", "num_fields", "f")]
            # attributes of a *parameter* are not part of the cache key either: cls.cs.endian inside a function cached on (cls, count)
            # pins the byte order that was current at the first call
            cfg_attr = [norm(x) for x in walk_body(fi.node.body) if isinstance(x, ast.Attribute) and x.attr in ("endian", "pointer") and isinstance(x.ctx, ast.Load)]
            rep.check(not any("endian" in a for a in free_attr) and not cfg_attr, rid, f"{fi.key}:cache", f"cached function depends only on its parameters {fi.params}",
                      f"cached function {fi.qualname} reads {sorted(set(cfg_attr + [a for a in free_attr if 'endian' in a]))}: mutable configuration that is not part of "
                      f"the cache key - the value current at the first call is remembered (changing cs.endian later has no effect for that key)", fi.loc())
    st = repo.func("types/packed.py", "_struct")
    used = names_loaded(ast.Module(body=st.node.body, type_ignores=[]))
    rep.check(len(st.params) == 2 and set(st.params) <= used and any("lru_cache" in norm(d) for d in st.node.decorator_list), rid, f"{st.key}:key",
              f"cache key is ({', '.join(st.params)}), both used in the format", "_struct must take (endian, packchar) and use both in the Struct format", st.loc())
    # every _struct call site passes the live endianness first
    ns = 0
    for fi in cg.funcs.values():
        for n in walk_body(fi.node.body):
            if isinstance(n, ast.Call) and isinstance(n.func, ast.Name) and n.func.id == "_struct":
                ns += 1
                a0 = n.args[0] if n.args else None
                rep.check(a0 is not None and norm(a0).endswith(".cs.endian"), rid, f"{fi.key}:{short(n, 60)}", "passes the live endianness",
                          f"_struct is called with '{norm(a0)}' instead of <cls>.cs.endian", fi.loc(n))
    rep.floor(rid, "_struct call sites", ns, 1)
    rep.floor(rid, "cached functions", nc, 1)

    # templates: endianness only as the runtime expression cls.cs.endian, never through a hole
    nt = 0
    for t in T.reader_templates(repo):
        for ph, hole in t.holes.items():
            if "endian" in norm(hole).lower():
                rep.fail(rid, f"{t.key}:hole", f"generated text embeds '{norm(hole)}': the endianness at compile time is baked into the reader", t.loc())
        if "endian" in t.text:
            nt += 1
            rest = t.text.replace("cls.cs.endian", "")
            rep.check("endian" not in rest, rid, t.key, "mentions endianness only as cls.cs.endian (looked up at call time)",
                      "generated text mentions endianness other than as cls.cs.endian", t.loc())
    rep.floor(rid, "templates mentioning endianness", nt, 2)
    # generator side must not read endianness at all
    for fi in T.generator_functions(repo) + [f for f in repo.all_functions() if f.module.rel == "compiler.py" and f.cls is None]:
        for n in walk_body(fi.node.body):
            if isinstance(n, ast.Attribute) and n.attr == "endian":
                inside_f = False
                rep.fail(rid, f"{fi.key}:generator-load {norm(n)}", "the source generator reads the endianness at compile time", fi.loc(n))


def _flows_into_store(fi: FuncInfo, ld: ast.AST, pm, ea: EffectAnalysis, binds) -> str | None:
    p = pm.get(ld)
    node = ld
    while p is not None:
        if isinstance(p, (ast.Lambda, ast.FunctionDef)) and p is not fi.node:
            return "captured in a closure / lambda"
        if isinstance(p, ast.arguments):
            return "used as a default argument (evaluated once at definition time)"
        if isinstance(p, (ast.Assign, ast.AnnAssign, ast.AugAssign)):
            targets = p.targets if isinstance(p, ast.Assign) else [p.target]
            for t in targets:
                if isinstance(t, (ast.Attribute, ast.Subscript)):
                    rc, _ = ea.classify_root(fi, root_name(t) or "", binds)
                    if rc not in ALLOWED:
                        return f"an endianness-derived value is stored into '{norm(t)}' ({rc}): it would be remembered across calls"
                elif isinstance(t, ast.Name):
                    # a local alias: make sure the alias does not flow into a shared store either
                    for st in walk_body(fi.node.body):
                        if isinstance(st, (ast.Assign, ast.AugAssign)) and st is not p and t.id in names_loaded(st.value):
                            for tt in (st.targets if isinstance(st, ast.Assign) else [st.target]):
                                if isinstance(tt, (ast.Attribute, ast.Subscript)):
                                    rc, _ = ea.classify_root(fi, root_name(tt) or "", binds)
                                    if rc not in ALLOWED:
                                        return f"'{t.id}' (derived from the endianness) is stored into '{norm(tt)}' ({rc})"
            return None
        if isinstance(p, ast.stmt):
            return None
        node = p
        p = pm.get(p)
    return None


def maps_rule(repo: Repo, rep: Report, rid: str) -> None:
    rep.rule(rid, "the endianness maps agree: ENDIANNESS_MAP and Wchar.__encoding_map__ denote the same byte order for '<', '>' and '!'")
    em = {k: v for k, _, v in dict_items(module_attr(repo, "utils.py", "ENDIANNESS_MAP"))}
    wm = {k: v for k, _, v in dict_items(class_attr(repo, "Wchar", "__encoding_map__"))}
    expect = {"<": ("little", "utf-16-le"), ">": ("big", "utf-16-be"), "!": ("big", "utf-16-be")}
    path = repo.module("utils.py").path
    for k, (o, enc) in expect.items():
        ev = const_value(em[k]) if k in em and is_const(em[k]) else None
        wv = const_value(wm[k]) if k in wm and is_const(wm[k]) else None
        rep.check(ev == o, rid, f"utils.py:ENDIANNESS_MAP[{k!r}]", f"{ev}", f"ENDIANNESS_MAP[{k!r}] is {ev!r}, expected {o!r}", path)
        rep.check(wv is not None and wv.lower().replace("_", "-") == enc, rid, f"types/wchar.py:Wchar.__encoding_map__[{k!r}]", f"{wv}",
                  f"Wchar.__encoding_map__[{k!r}] is {wv!r}, expected {enc!r} (same order as ENDIANNESS_MAP)", repo.module("types/wchar.py").path)
    # every other mapping that translates the live endianness must know the same keys with the same meaning
    def literal_of(fi, e: ast.AST):
        c = chain(e)
        if c is None:
            return None
        if len(c) == 1:
            for mod in [fi.module] + list(repo.modules.values()):
                if c[0] in mod.assigns and isinstance(mod.assigns[c[0]], ast.Dict):
                    return mod.assigns[c[0]]
        if c[-1] in ("__encoding_map__",):
            return class_attr(repo, "Wchar", "__encoding_map__")
        for ci in repo.classes.values():
            if c[-1] in ci.attrs and isinstance(ci.attrs[c[-1]], ast.Dict):
                return ci.attrs[c[-1]]
        return None

    for fi in repo.all_functions():
        for x in walk_body(fi.node.body):
            container = None
            if isinstance(x, ast.Subscript) and norm(x.slice).endswith(".endian"):
                container = x.value
            elif isinstance(x, ast.Call) and isinstance(x.func, ast.Attribute) and x.func.attr == "get" and x.args and norm(x.args[0]).endswith(".endian"):
                container = x.func.value
            if container is None:
                continue
            lit = literal_of(fi, container)
            if lit is None:
                rep.note(f"{fi.key}: mapping '{norm(container)}' indexed by the endianness could not be resolved to a literal (not judged)")
                continue
            items = {k: v for k, _, v in dict_items(lit)}
            probs = []
            for k, (o, enc) in expect.items():
                if k not in items:
                    probs.append(f"key {k!r} is missing" + (" (falls back to the .get default)" if isinstance(x, ast.Call) else " (KeyError)"))
                    continue
                val = str(const_value(items[k])).lower() if is_const(items[k]) else norm(items[k]).lower()
                is_little = "little" in val or val.endswith("le") or val.endswith("-le")
                is_big = "big" in val or val.endswith("be")
                if (o == "little") != is_little or (o == "big") != is_big:
                    probs.append(f"key {k!r} maps to {val!r}, expected {o}-endian")
            rep.check(not probs, rid, f"{fi.key}:{short(x, 60)}", f"'{norm(container)}' knows '<', '>' and '!' with the standard meaning",
                      f"'{short(x, 60)}': {'; '.join(probs)} - types using this map would disagree with the rest of the library under that endianness", fi.loc(x))
    # consumers subscript the maps with the live endianness
    n = 0
    for fi in repo.all_functions():
        for x in walk_body(fi.node.body):
            if isinstance(x, ast.Subscript) and (norm(x.value) == "ENDIANNESS_MAP" or norm(x.value).endswith("__encoding_map__")) and fi.module.rel.startswith("types/"):
                n += 1
                rep.check(norm(x.slice).endswith(".cs.endian"), rid, f"{fi.key}:{short(x, 60)}", "indexed by the live endianness",
                          f"'{short(x, 60)}' is not indexed by <cls>.cs.endian", fi.loc(x))
    rep.floor(rid, "map consumers", n, 2)


def leb128_rule(repo: Repo, rep: Report, rid: str) -> None:
    rep.rule(rid, "LEB128 reader and writer agree on the protocol constants: 7-bit payload mask 0x7F, continuation bit 0x80, sign bit 0x40, "
                  "group width 7, and both consult cls.signed")
    rd = repo.func("types/leb128.py", "LEB128._read")
    wr = repo.func("types/leb128.py", "LEB128._write")
    from ..folds import fold_leb128

    fold = fold_leb128(repo)
    if fold is not None:
        rep.info["leb128_fold_cases"] = fold["cases"]
        bad = fold["read_bad"]
        rep.check(not bad, rid, f"{rd.key}:fold", f"reader folded over the reference (S)LEB128 encodings of {fold['cases']} (signedness, value) cases: gives the value "
                  "back, consumes exactly the encoding, refuses truncated input",
                  f"LEB128 reader: (signed, value, encoding, result, bytes consumed) = {bad[0] if bad else ''}", rd.loc())
        bad = fold["write_bad"]
        rep.check(not bad, rid, f"{wr.key}:fold", "writer folded over the same cases: emits exactly the reference encoding and refuses negative values when unsigned",
                  f"LEB128 writer: (signed, value, emitted, reference) = {bad[0] if bad else ''}", wr.loc())
        bad = fold["loop_bad"]
        rep.check(not bad, rid, "types/leb128.py:LEB128:termination", "both loops end on every folded value",
                  f"LEB128 {bad[0][0] if bad else ''} does not terminate for (signed, value) = {bad[0][1:] if bad else ''}", rd.loc())
        bad = fold.get("read0_bad")
        if bad is not None:
            r0 = repo.func_opt("types/leb128.py", "LEB128._read_0") or rd
            rep.check(not bad, rid, f"{r0.key}:fold", "null-terminated reader folded over 6 inputs: stops at and consumes the first element whose value is zero, "
                      "also when that zero is not minimally encoded (80 00); raises when the terminator is missing",
                      (f"LEB128._read_0 (signed={bad[0][0]}) on {bad[0][1]} ({bad[0][2]}): {bad[0][3]}, stream left at {bad[0][4]}; expected {bad[0][5]} and position {bad[0][6]}: "
                       "the terminator is a zero *value*, whatever its encoding") if bad else "", r0.loc())
        return

    def consts(fi: FuncInfo, optype) -> set[int]:
        out = set()
        for x in walk_body(fi.node.body):
            if isinstance(x, (ast.BinOp, ast.AugAssign)) and isinstance(x.op, optype):
                sides = [x.left, x.right] if isinstance(x, ast.BinOp) else [x.value]
                for s in sides:
                    if is_const(s) and isinstance(const_value(s), int):
                        out.add(const_value(s))
        return out

    r_and, w_and = consts(rd, ast.BitAnd), consts(wr, ast.BitAnd)
    w_or = consts(wr, ast.BitOr)
    r_shift = consts(rd, ast.Add) | consts(rd, ast.LShift)
    w_shift = consts(wr, ast.RShift)
    rep.check({0x7F, 0x80, 0x40} <= r_and, rid, f"{rd.key}:masks", f"reader masks {sorted(hex(c) for c in r_and)}",
              f"LEB128 reader masks are {sorted(hex(c) for c in r_and)}: expected payload 0x7f, continuation 0x80, sign 0x40", rd.loc())
    rep.check({0x7F, 0x40} <= w_and and 0x80 in w_or, rid, f"{wr.key}:masks", f"writer masks {sorted(hex(c) for c in w_and)} | {sorted(hex(c) for c in w_or)}",
              f"LEB128 writer uses & {sorted(hex(c) for c in w_and)} and | {sorted(hex(c) for c in w_or)}: expected & 0x7f, & 0x40, | 0x80", wr.loc())
    rep.check(7 in r_shift and 7 in w_shift and r_shift & {6, 8} == set() and w_shift & {6, 8} == set(), rid, "types/leb128.py:LEB128:group-width",
              "both sides move 7 bits per byte", f"group width differs: reader shifts by {sorted(r_shift)}, writer by {sorted(w_shift)}", rd.loc())
    for fi in (rd, wr):
        rep.check(any(isinstance(x, ast.Attribute) and norm(x) == f"{fi.self_name}.signed" for x in walk_body(fi.node.body)), rid,
                  f"{fi.key}:signed", "consults cls.signed", f"{fi.qualname} does not consult cls.signed", fi.loc())
    # sign extension uses the accumulated shift, termination of the writer distinguishes 0 / -1
    ext = [x for x in walk_body(rd.node.body) if isinstance(x, ast.AugAssign) and isinstance(x.op, ast.BitOr) and isinstance(x.value, ast.BinOp)
           and isinstance(x.value.op, ast.LShift) and norm(x.value.left) in ("~0", "-1")]
    rep.check(len(ext) == 1 and norm(ext[0].value.right) == "shift", rid, f"{rd.key}:sign-extension", "result |= ~0 << shift",
              "LEB128 reader no longer sign-extends with ~0 << shift", rd.loc())


def text_array_fold_rule(repo: Repo, rep: Report, rid: str) -> None:
    rep.rule(rid, "character arrays are written as their value: CharArray._write / WcharArray._write folded over fixed, dynamic and null-terminated "
                  "arrays, both byte orders and values incl. a surrogate pair, a list of ints, a str and the empty value - the bytes written are the "
                  "encoding of the value plus the terminator of a null-terminated array; nothing is padded, nothing refused over len(str) != code units")
    from ..codecfold import fold_text_arrays

    fi = repo.lookup_method("WcharArray", "_write") or repo.func("types/wchar.py", "WcharArray._write")
    fold = fold_text_arrays(repo)
    if fold is None:
        rep.ok(rid, f"{fi.key}:fold", "not foldable with the evaluator's whitelist", fi.loc(), nontrivial=False)
        return
    bad = fold["bad"]
    fams = {}
    for b in bad:
        fams.setdefault(str(b[0]).split(".")[0], b)
    for fam in ("CharArray", "WcharArray"):
        f2 = repo.lookup_method(fam, "_write") or fi
        b = fams.get(fam)
        rep.check(b is None, rid, f"{f2.key}:fold", f"{fold['cases']} (array kind, value) cases agree with the reference",
                  (f"{b[0]}._write ({b[1]}, {b[2]} array) given {b[3]!r}: {b[4]}, the encoding of the value is {b[5]}") if b else "", f2.loc())
    other = [b for k_, b in fams.items() if k_ not in ("CharArray", "WcharArray")]
    if other:
        b = other[0]
        rep.fail(rid, f"{fi.key}:fold:{b[0]}", f"{b[0]} ({b[1]}, {b[2]} array) given {b[3]!r}: {b[4]}, the encoding of the value is {b[5]}", fi.loc())


def run(repo: Repo, rep: Report, tier: str) -> None:
    call_time_rule(repo, rep, "C05.R1")
    maps_rule(repo, rep, "C05.R2")
    codec_key_rule(repo, rep, "C05.R3")
    type_table_rule(repo, rep, "C05.R4")
    leb128_rule(repo, rep, "C05.R5")
    from .c02 import leb128_termination_rule

    leb128_termination_rule(repo, rep, "C05.R6")
    codec_fold_rule(repo, rep, "C05.R7")
    from .memo import memo_rule

    memo_rule(repo, rep, "C05.R8")
    from .c11 import union_encode_rule

    union_encode_rule(repo, rep, "C05.R9")
    from .c02 import default_substitution_rule

    default_substitution_rule(repo, rep, "C05.R9")
    text_array_fold_rule(repo, rep, "C05.R10")
def folded_slots(repo: Repo, slot_names: tuple[str, ...]) -> dict[str, list]:
    """Function key -> discrepancies, for the protocol slots of the scalar / character families that the codec folds interpret."""
    from .. import codecfold as _cf

    out: dict[str, list] = {}
    cache = repo.__dict__.setdefault("_codec_folds", {})
    for fam in ("Int", "Packed", "Wchar", "Char"):
        if fam not in cache:
            cache[fam] = _cf.fold_family(repo, fam) if fam in ("Int", "Packed") else _cf.fold_text_family(repo, fam)
        fo = cache[fam]
        if fo is None:
            continue
        for slot in slot_names:
            k_ = fo["slots"].get(slot)
            if k_:
                out.setdefault(k_, [])
                out[k_] += [b for b in fo["bad"] if b[0] == slot]
    return out


def codec_fold_rule(repo: Repo, rep: Report, rid: str, slots: tuple[str, ...] | None = None, only: str | None = None) -> None:
    """Shared by C01/C02/C05/C07/C08: the Int and Packed families folded through their resolved protocol slots (csa/codecfold.py)."""
    from .. import codecfold

    rep.rule(rid, "scalar codecs folded: for the Int and Packed families every protocol slot (as resolved through the class and metaclass MRO) is interpreted "
                  "over a stream model for all five byte-order characters, several widths and boundary values, and must produce the reference result "
                  "(values, position, bytes written); short input, a trailing partial element of an EOF-sized array and out-of-range values must raise"
                  + (f" [slots: {', '.join(slots)}]" if slots else "") + (f" [cases: {only}]" if only else ""))
    n = 0
    expected = 0
    for fam in ("Int", "Packed", "Wchar", "Char"):
        cache = repo.__dict__.setdefault("_codec_folds", {})  # on the repo object: ids of dead Repo objects are reused within one process
        if fam not in cache:
            cache[fam] = codecfold.fold_family(repo, fam) if fam in ("Int", "Packed") else codecfold.fold_text_family(repo, fam)
        fold = cache[fam]
        if fold is None:
            rep.ok(rid, f"types:{fam}:fold", "not foldable with the evaluator's whitelist: the structural rules of this property decide alone", "", nontrivial=False)
            continue
        rep.info[f"codec_fold_cases_{fam}"] = fold["cases"]
        fam_slots = [s_ for s_ in (slots or codecfold.SLOTS[:-1]) if fam in ("Int", "Packed") or s_ in ("_read", "_read_array", "_read_0", "_write")]
        for slot in fam_slots:
            bad = [b for b in fold["bad"] if b[0] == slot and (only is None or only in b[2])]
            impl = fold["slots"].get(slot)
            n += 1
            expected += 1
            rep.check(not bad, rid, f"types:{fam}.{slot}:fold", f"{impl} gives the reference result on every folded case",
                      f"{fam}.{slot} (implemented by {impl}) for {bad[0][1] if bad else ''}, case '{bad[0][2] if bad else ''}': got {bad[0][3] if bad else ''!r}, "
                      f"reference {bad[0][4] if bad else ''!r}", repo.module("types/" + fam.lower() + ".py").path)
    rep.floor(rid, "folded codec slots", n, expected)
