"""C09 - stream discipline: position-independent and consistent across input kinds."""

from __future__ import annotations

import ast

from .. import templates as T
from ..callgraph import CallGraph, entry_points
from ..cfg import CFG, ReachingDefs
from ..flow import BaseCount, TellDerived
from ..model import FuncInfo, Repo
from ..report import Report
from ..util import AnalysisError, always_raises, call_name, chain, names_loaded, norm, parent_map, short, single_defs, walk_body
from .compiled import shape_of
from .c02 import node_calls

WAIVERS = {
    "types/pointer.py:Pointer.dereference": "a pointer value is by definition an absolute stream offset (the saved position is restored afterwards, C16.R4)",
}


def _is_seek_cur(e: ast.AST) -> bool:
    t = norm(e)
    return t in ("1", "io.SEEK_CUR", "SEEK_CUR", "os.SEEK_CUR") or "SEEK_CUR" in t


def _tell_derived(fi: FuncInfo, e: ast.AST, recv: str, binds, aliases: set[str], depth: int = 0, seen: frozenset = frozenset()) -> bool:
    """Does the value of ``e`` depend on ``<recv>.tell()`` (recv or one of its aliases) taken in this call?"""
    for x in ast.walk(e):
        if isinstance(x, ast.Call) and isinstance(x.func, ast.Attribute) and x.func.attr == "tell" and norm(x.func.value) in aliases | {recv}:
            return True
    if depth > 5:
        return False
    for x in ast.walk(e):
        if isinstance(x, ast.Name) and isinstance(x.ctx, ast.Load) and x.id not in seen:
            for v in binds.get(x.id, []):
                if _tell_derived(fi, v, recv, binds, aliases, depth + 1, seen | {x.id}):
                    return True
            # augmented assignments keep the dependency (offset += pad)
    return False


def _arm_of(node: ast.AST, pm) -> ast.AST | None:
    p = pm.get(node)
    child = node
    while p is not None:
        if isinstance(p, ast.If):
            return ("T" if child in p.body else "F", id(p))
        child = p
        p = pm.get(p)
    return None


def relative_seek_rule(repo: Repo, rep: Report, rid: str) -> None:
    rep.rule(rid, "every seek on the input stream during a parse is relative to where this parse started: SEEK_CUR, or a target that depends on a "
                  "tell() of the same stream taken in the same call")
    tfuncs = T.reader_template_functions(repo)
    cg = CallGraph(repo, extra_functions=tfuncs)
    ep = entry_points(repo)
    clo = cg.closure(ep["PARSE"] + [f.key for f in tfuncs])
    n = 0
    flow: dict = {}
    for k in sorted(clo):
        fi = cg.funcs[k]
        binds = cg.local_bindings(fi)
        pm = None
        for c in walk_body(fi.node.body):
            if not (isinstance(c, ast.Call) and isinstance(c.func, ast.Attribute) and c.func.attr == "seek"):
                continue
            recv = c.func.value
            rtext = norm(recv)
            # private buffers: every binding of the receiver is a BytesIO(...)
            if isinstance(recv, ast.Name) and recv.id in binds:
                vals = binds[recv.id]
                if vals and all(isinstance(v, ast.Call) and call_name(v) == "BytesIO" for v in vals):
                    continue
            if not cg.is_stream(fi, recv) and not (isinstance(recv, ast.Name) and recv.id in binds):
                continue
            n += 1
            key = f"{fi.key}:{short(c, 80)}"
            if len(c.args) >= 2 and _is_seek_cur(c.args[1]):
                rep.ok(rid, key, "relative seek (SEEK_CUR)", fi.loc(c))
                continue
            if any(kw.arg == "whence" and _is_seek_cur(kw.value) for kw in c.keywords):
                rep.ok(rid, key, "relative seek (whence=SEEK_CUR)", fi.loc(c))
                continue
            if len(c.args) >= 2 and norm(c.args[1]) not in ("0", "io.SEEK_SET", "SEEK_SET", "os.SEEK_SET"):
                rep.fail(rid, key, f"seek with whence '{norm(c.args[1])}' (neither SEEK_CUR nor SEEK_SET)", fi.loc(c))
                continue
            tgt = c.args[0] if c.args else None
            if tgt is None:
                rep.fail(rid, key, "seek without target", fi.loc(c))
                continue
            aliases = {rtext}
            mixed = False
            if isinstance(recv, ast.Name) and recv.id in binds:
                for v in binds[recv.id]:
                    if isinstance(v, ast.Name):
                        aliases.add(v.id)
                    elif isinstance(v, ast.Call) and call_name(v) == "BytesIO":
                        mixed = True
            if fi.key in WAIVERS and norm(tgt) == fi.self_name:
                rep.ok(rid, key, f"waiver: {WAIVERS[fi.key]}", fi.loc(c), nontrivial=False)
                continue
            if mixed:
                # receiver is either the caller's stream or a private buffer (chosen in one if/else): in the arm that aliases the
                # stream the base offset must come from tell()
                if pm is None:
                    pm = parent_map(fi.node)
                ok = True
                why = ""
                for st in walk_body(fi.node.body):
                    if isinstance(st, ast.Assign) and isinstance(st.targets[0], ast.Name) and st.targets[0].id == recv.id and isinstance(st.value, ast.Name):
                        arm = _arm_of(st, pm)
                        base_names = [x.id for x in ast.walk(tgt) if isinstance(x, ast.Name)]
                        # a target hoisted into a local ('start = offset + ...; buf.seek(start)'): its components count
                        sdefs = single_defs(fi.node)
                        for _ in range(3):
                            base_names += [x.id for b_ in list(base_names) if b_ in sdefs for x in ast.walk(sdefs[b_]) if isinstance(x, ast.Name) and x.id not in base_names]
                        arm_ok = False
                        for st2 in walk_body(fi.node.body):
                            if isinstance(st2, ast.Assign) and isinstance(st2.targets[0], ast.Name) and st2.targets[0].id in base_names \
                                    and _arm_of(st2, pm) == arm and _tell_derived(fi, st2.value, st.value.id, {}, {st.value.id}):
                                arm_ok = True
                        ok = ok and arm_ok
                        if not arm_ok:
                            why = f"where '{recv.id}' aliases '{st.value.id}' no component of '{norm(tgt)}' is taken from {st.value.id}.tell()"
                rep.check(ok, rid, key, "base offset is tell() where the receiver is the caller's stream (0 for the private buffer)",
                          f"absolute seek on the caller's stream: {why}", fi.loc(c))
                continue
            if fi.key not in flow:
                gg = CFG(fi.node)
                flow[fi.key] = (gg, ReachingDefs(gg, fi.params))
            gg, rdefs = flow[fi.key]
            cnode = next((x for x in gg.nodes if x.expr() is not None and any(y is c for y in ast.walk(x.expr()))), None)
            counts = BaseCount(gg, rdefs, aliases).counts(cnode.id, tgt) if cnode is not None else {0}
            if cnode is not None and TellDerived(gg, rdefs, aliases, "all").derived(cnode.id, tgt) and counts == {1}:
                rep.ok(rid, key, f"target '{short(tgt, 40)}' is one {rtext}.tell() of this call plus relative quantities, on every path", fi.loc(c))
            elif cnode is not None and counts != {1} and 0 in counts and TellDerived(gg, rdefs, aliases, "any").derived(cnode.id, tgt):
                rep.fail(rid, key, f"absolute seek to a *relative* quantity: in '{short(tgt, 50)}' the stream position taken by {rtext}.tell() cancels out "
                                   f"(position bases: {sorted(counts)}): correct only for a structure that starts at stream offset 0", fi.loc(c))
            else:
                rep.fail(rid, key, f"absolute seek: target '{short(tgt, 50)}' does not depend on a {rtext}.tell() taken in this call - parsing would "
                                   f"only be correct for a structure that starts at stream offset 0", fi.loc(c))
    rep.floor(rid, "seeks on the input stream", n, 11)


def offset_base_rule(repo: Repo, rep: Report, rid: str) -> None:
    rep.rule(rid, "start bookkeeping: the structure start is recorded with tell() before any field is processed, and a field offset is only ever "
                  "used added to that start (never as an absolute position)")
    n = 0
    for qn, start_names in (("StructureMetaType._read", None), ("StructureMetaType._write", None), ("UnionMetaType._read_fields", None)):
        fi = repo.func("types/structure.py", qn)
        g = CFG(fi.node)
        stream = fi.node.args.args[1].arg
        starts = [x for x in g.nodes if x.kind == "stmt" and isinstance(x.ast, ast.Assign) and isinstance(x.ast.value, ast.Call)
                  and norm(x.ast.value.func) == f"{stream}.tell" and isinstance(x.ast.targets[0], ast.Name)]
        pm = parent_map(fi.node)
        uses = []
        for x in walk_body(fi.node.body):
            if isinstance(x, ast.Attribute) and norm(x) == "field.offset" and isinstance(x.ctx, ast.Load):
                p = pm.get(x)
                if isinstance(p, ast.Compare) and any(isinstance(c, ast.Constant) and c.value is None for c in p.comparators):
                    continue
                uses.append((x, p))
        n += 1
        if not starts:
            rep.fail(rid, f"{fi.key}:start", f"no '<name> = {stream}.tell()' records where the structure starts", fi.loc())
            continue
        start_ids = {s.ast.targets[0].id for s in starts}
        loops = [x for x in g.nodes if x.kind == "for"]
        first = min(starts, key=lambda s: s.lineno)
        rep.check(all(g.dominates(first.id, l.id) for l in loops) or qn.endswith("_read_fields"), rid, f"{fi.key}:start",
                  f"{norm(first.ast.targets[0])} = {stream}.tell() recorded before the field loop", "the structure start is not recorded before the field loop", fi.loc(first.ast))
        rdefs = ReachingDefs(g, fi.params)
        td = TellDerived(g, rdefs, {stream, "buf"}, "any")
        aliases_of_offset = {"field.offset"}
        for x, p in uses:
            if isinstance(p, ast.Assign) and isinstance(p.targets[0], ast.Name) and p.value is x:
                aliases_of_offset.add(p.targets[0].id)  # ``start = field.offset``
        for node in g.nodes:
            e = node.expr()
            if e is None:
                continue
            for sub in ast.walk(e):
                if not isinstance(sub, ast.BinOp) or not isinstance(sub.op, (ast.Add, ast.Sub)):
                    continue
                if isinstance(pm.get(sub), ast.BinOp) and isinstance(pm.get(sub).op, (ast.Add, ast.Sub)):
                    continue  # judge the maximal additive expression only
                terms = {norm(t) for t in ast.walk(sub) if isinstance(t, (ast.Name, ast.Attribute))}
                if not (terms & aliases_of_offset):
                    continue
                n += 1
                in_loop_ids = set()
                for lp in loops:
                    in_loop_ids |= g.reachable(lp.id, first_edge="loop", avoid={lp.id})
                has_start = False
                for t in ast.walk(sub):
                    if isinstance(t, ast.Name):
                        ds = rdefs.reaching(node.id, t.id)
                        if ds and all(nid not in in_loop_ids for nid, _ in ds) and any(
                                isinstance(v, ast.Call) and isinstance(v.func, ast.Attribute) and v.func.attr == "tell" for _, v in ds):
                            has_start = True
                rep.check(has_start, rid, f"{fi.key}:{short(sub, 70)}", "field offset is combined with the start position recorded by tell() before the field loop",
                          f"'{short(sub, 60)}' uses the field offset without a tell()-based start: correct only when the structure starts at offset 0", fi.loc(sub))
        # a bare (relative) field offset compared against something: positions in these walkers are absolute
        for x, p in uses:
            if isinstance(p, ast.Compare):
                n += 1
                rep.fail(rid, f"{fi.key}:{short(p, 60)}", f"'{short(p, 60)}' compares the relative field offset without adding the structure start", fi.loc(x))
        # a field offset handed to seek() directly, or stored as a position without any start
        for x, p in uses:
            if isinstance(p, ast.Call) and call_name(p) == "seek":
                n += 1
                rep.fail(rid, f"{fi.key}:{short(p, 60)}", "seeks to the bare field offset", fi.loc(x))
    fn, _ = T.reader_skeleton(repo)
    first = fn.body[:4]
    rep.check(any(isinstance(s, ast.Assign) and norm(s.targets[0]) == "o" and norm(s.value) == "stream.tell()" for s in first), rid,
              "compiler.py:<generated>._read:start", "o = stream.tell() in the preamble", "the generated preamble does not record o = stream.tell()",
              repo.func("compiler.py", "_ReadSourceGenerator.generate_source").loc())
    for t in T.reader_templates(repo):
        for ph, hole in t.holes.items():
            if norm(hole).endswith(".offset") and t.tree is not None:
                n += 1
                ok = False
                for x in ast.walk(t.tree):
                    if isinstance(x, ast.BinOp) and isinstance(x.op, ast.Add) and {norm(x.left), norm(x.right)} == {"o", ph}:
                        ok = True
                rep.check(ok, rid, f"{t.key}:offset-hole", "offset hole is added to o", f"template uses the field offset without adding the start 'o': '{t.text.strip()[:60]}'", t.loc())
    rep.floor(rid, "field offset uses", n, 8)


def restore_rule(repo: Repo, rep: Report, rid: str) -> None:
    rep.rule(rid, "save/restore pairing: the EOF probe puts the stream back where it was on the not-at-EOF path; the dynamic-union re-read rewinds "
                  "to the saved start before reading the extent")
    from ..folds import fold_generic_read_array, fold_is_eof

    fi = repo.func_opt("types/base.py", "_is_eof")
    gfold = fold_generic_read_array(repo)
    if fi is None:
        # the probe is no longer a function of its own (inlined into its caller): the generic bulk reader folded over stream lengths and positions
        # decides whether the probe consumes anything
        rd = repo.func("types/base.py", "MetaType._read_array")
        if gfold is None:
            raise AnalysisError("anchor function vanished: types/base.py:_is_eof (and MetaType._read_array is not foldable)")
        bad = gfold["bad"]
        rep.check(not bad, rid, f"{rd.key}:eof-probe", f"folded over {gfold['cases']} cases: whole elements to the end of the stream, nothing consumed by the probe",
                  (f"MetaType._read_array on a stream of {bad[0][0]} bytes at {bad[0][1]} with count {bad[0][2]}: got {bad[0][3]}, stream left at {bad[0][4]}") if bad else "", rd.loc())
    else:
        _eof_probe_rule(repo, rep, rid, fi, fold_is_eof(repo))
    _union_reread_rule(repo, rep, rid)


def _eof_probe_rule(repo: Repo, rep: Report, rid: str, fi, eof_fold) -> None:
    g = CFG(fi.node)
    stream = fi.params[0]
    saves = [x for x in g.nodes if x.kind == "stmt" and isinstance(x.ast, ast.Assign) and norm(x.ast.value) == f"{stream}.tell()"]
    probes = [x for x in g.nodes if x.kind == "stmt" and node_calls(x, "read")]
    if len(saves) != 1 or not probes:
        raise AnalysisError("_is_eof: save / probe not found")
    pos = norm(saves[0].ast.targets[0])
    restores = {x.id for x in g.nodes if x.kind == "stmt" and any(norm(c.func.value) == stream and c.args and norm(c.args[0]) == pos for c in node_calls(x, "seek"))}
    ret_false = [x for x in g.nodes if x.kind == "stmt" and isinstance(x.ast, ast.Return) and norm(x.ast.value) == "False"]
    ret_true = [x for x in g.nodes if x.kind == "stmt" and isinstance(x.ast, ast.Return) and norm(x.ast.value) == "True"]
    rep.check(g.dominates(saves[0].id, probes[0].id) and bool(ret_false) and all(g.must_pass(probes[0].id, r.id, restores) for r in ret_false), rid,
              f"{fi.key}:restore", "position saved before the probe and restored before returning False",
              "the EOF probe consumes a byte on the not-at-EOF path (position not restored): every following element would start one byte late", fi.loc())
    tguard = [x for x in g.nodes if x.kind == "if" and norm(x.ast.test) in (f"{stream}.tell() == {pos}", f"{pos} == {stream}.tell()")]
    if eof_fold is not None:
        bad = eof_fold["bad"]
        rep.check(not bad, rid, f"{fi.key}:eof-test", f"folded over {eof_fold['cases']} (stream length, position) cases: True exactly at the end, position kept",
                  f"_is_eof on a stream of (length, position) = {bad[0][:2] if bad else ''} returns {bad[0][2] if bad else ''} and leaves the stream at "
                  f"{bad[0][3] if bad else ''}", fi.loc())
    else:
        rep.check(bool(ret_true) and bool(tguard) and all(g.must_pass(probes[0].id, r.id, {t.id for t in tguard}) for r in ret_true), rid, f"{fi.key}:eof-test",
                  "EOF is reported only when the probe did not move the stream", "EOF is reported without comparing the position after the probe with the saved one", fi.loc())


def _union_reread_rule(repo: Repo, rep: Report, rid: str) -> None:
    u = repo.func("types/structure.py", "UnionMetaType._read")
    g = CFG(u.node)
    s = u.node.args.args[1].arg
    saves = [x for x in g.nodes if x.kind == "stmt" and isinstance(x.ast, ast.Assign) and norm(x.ast.value) == f"{s}.tell()"]
    seeks = [x for x in g.nodes if x.kind == "stmt" and node_calls(x, "seek")]
    ok = False
    if saves and seeks:
        st = norm(saves[0].ast.targets[0])
        back = [x for x in seeks if any(c.args and norm(c.args[0]) == st for c in node_calls(x, "seek"))]
        rd = [x for x in g.nodes if x.kind == "stmt" and any(norm(c.func.value) == s for c in node_calls(x, "read")) and g.dominates(saves[0].id, x.id)
              and any(x.id in g.reachable(b.id) for b in back)]
        ok = bool(back) and bool(rd) and all(g.must_pass(saves[0].id, r.id, {b.id for b in back}) for r in rd)
    rep.check(ok, rid, f"{u.key}:rewind", "dynamic union: seek(start) precedes the re-read of the parsed extent",
              "the dynamic-union re-read does not rewind to the saved start", u.loc())


def funnel_rule(repo: Repo, rep: Report, rid: str) -> None:
    rep.rule(rid, "all call forms funnel into _read: reads -> _read(BytesIO(data)); read -> reads/_read; cstruct.read -> resolve(name).read; "
                  "T(x) -> _read/reads; a shortcut construction on a bytes argument must carry the same per-parse bookkeeping as a read")
    n = 0

    def rets(fi: FuncInfo):
        return [x for x in walk_body(fi.node.body) if isinstance(x, ast.Return)]

    fi = repo.func("types/base.py", "MetaType.reads")
    r = rets(fi)
    n += 1
    rep.check(len(r) == 1 and isinstance(r[0].value, ast.Call) and norm(r[0].value.func) == f"{fi.self_name}._read" and len(r[0].value.args) == 1
              and isinstance(r[0].value.args[0], ast.Call) and call_name(r[0].value.args[0]) == "BytesIO" and norm(r[0].value.args[0].args[0]) == fi.params[1],
              rid, f"{fi.key}:return", "cls._read(BytesIO(data))", f"reads returns '{short(r[0].value if r else None, 60)}'", fi.loc())
    stm = [x for x in fi.body]
    rep.check(len(stm) == 1 and isinstance(stm[0], ast.Return), rid, f"{fi.key}:pure-funnel", "reads does nothing but wrap the bytes in a BytesIO",
              f"reads does more than funnel into _read ({[short(x, 40) for x in stm[:-1]]}): bytes-like input would be treated differently from the "
              f"same bytes in a file object", fi.loc())
    fi = repo.func("types/base.py", "MetaType.read")
    rs = [x for x in walk_body(fi.node.body) if isinstance(x, ast.Raise)]
    rep.check(all("TypeError" in norm(x) for x in rs), rid, f"{fi.key}:raises", "only rejects objects that are neither buffers nor readable",
              f"read raises {[short(x, 40) for x in rs]}", fi.loc())
    for x in rets(fi):
        n += 1
        v = x.value
        ok = isinstance(v, ast.Call) and norm(v.func) in (f"{fi.self_name}.reads", f"{fi.self_name}._read") and [norm(a) for a in v.args] == [fi.params[1]]
        rep.check(ok, rid, f"{fi.key}:return {short(v, 50)}", "funnels into reads/_read", f"read returns '{short(v, 60)}' instead of reads(obj)/_read(obj)", fi.loc(x))
    fi = repo.func("cstruct.py", "cstruct.read")
    r = rets(fi)
    n += 1
    from ..util import resolve_local as _rl

    shown = norm(r[0].value) if len(r) == 1 else ""
    if len(r) == 1 and isinstance(r[0].value, ast.Call) and isinstance(r[0].value.func, ast.Attribute) and isinstance(r[0].value.func.value, ast.Name):
        # the resolved type held in a local first
        src = _rl(fi.node, r[0].value.func.value)
        if src is not None and not isinstance(src, ast.Name):
            shown = f"{norm(src)}.{r[0].value.func.attr}({', '.join(norm(a) for a in r[0].value.args)})"
    rep.check(len(r) == 1 and shown == f"{fi.self_name}.resolve({fi.params[1]}).read({fi.params[2]})", rid, f"{fi.key}:return",
              "self.resolve(name).read(stream)", f"cstruct.read returns '{short(r[0].value if r else None, 60)}'", fi.loc())
    # metaclass __call__
    fi = repo.func("types/base.py", "MetaType.__call__")
    g = CFG(fi.node)
    for x in rets(fi):
        n += 1
        v = x.value
        t = norm(v.func) if isinstance(v, ast.Call) else ""
        ok = t in (f"{fi.self_name}._read", f"{fi.self_name}.reads", "type.__call__")
        rep.check(ok, rid, f"{fi.key}:return {short(v, 60)}", "funnels into _read / reads / plain construction", f"__call__ returns '{short(v, 60)}'", fi.loc(x))
    rd = [x for x in rets(fi) if isinstance(x.value, ast.Call) and norm(x.value.func) == f"{fi.self_name}._read"]
    rs = [x for x in rets(fi) if isinstance(x.value, ast.Call) and norm(x.value.func) == f"{fi.self_name}.reads"]
    rep.check(bool(rd) and bool(rs), rid, f"{fi.key}:dispatch", "readable -> _read, buffer -> reads", "T(x) no longer dispatches readable objects to _read and buffers to reads", fi.loc())
    for qn in ("StructureMetaType.__call__",):
        fi = repo.func("types/structure.py", qn)
        g = CFG(fi.node)
        for x in g.nodes:
            if x.kind != "stmt" or not isinstance(x.ast, ast.Return):
                continue
            n += 1
            v = x.ast.value
            key = f"{fi.key}:return {short(v, 60)}"
            if isinstance(v, ast.Call) and isinstance(v.func, ast.Attribute) and isinstance(v.func.value, ast.Call) and call_name(v.func.value) == "super":
                rep.ok(rid, key, "delegates to MetaType.__call__", fi.loc(x.ast))
                continue
            if isinstance(v, ast.Call) and norm(v.func) == "type.__call__":
                rep.fail(rid, key, "shortcut returns a bare construction: an object built from bytes lacks the _values/_sizes bookkeeping that "
                                   "read() of the same bytes records (dumpstruct and friends crash on it)", fi.loc(x.ast))
                continue
            if isinstance(v, ast.Name):
                # object must have _values and _sizes set on every path to this return
                need = {"_values", "_sizes"}
                setters = {a: {m.id for m in g.nodes if m.kind == "stmt" and _sets_attr(m.ast, v.id, a)} for a in need}
                ok = all(setters[a] and g.must_pass(g.entry.id, x.id, setters[a]) for a in need)
                rep.check(ok, rid, key, "object carries _values and _sizes on every path", "an object is returned without _values/_sizes bookkeeping", fi.loc(x.ast))
                continue
            rep.fail(rid, key, f"unexpected return form '{short(v, 60)}'", fi.loc(x.ast))
    rep.floor(rid, "return sites of the call forms", n, 9)


def _sets_attr(st: ast.AST, obj: str, attr: str) -> bool:
    for x in ast.walk(st):
        if isinstance(x, ast.Call) and call_name(x) == "__setattr__" and len(x.args) >= 3 and norm(x.args[0]) == obj and \
                isinstance(x.args[1], ast.Constant) and x.args[1].value == attr:
            return True
        if isinstance(x, ast.Assign) and any(norm(t) == f"{obj}.{attr}" for t in x.targets):
            return True
    return False


FIXTURE_ZERO_ALIGN = "def _read(cls, stream):\n    if cls.__align__:\n        stream.seek(-stream.tell() & (cls.alignment - 1), io.SEEK_CUR)\n"


def _unguarded_class_alignment_seeks(fn: ast.AST) -> list[ast.Call]:
    """stream.seek(-X & (cls.alignment - 1), SEEK_CUR) not guarded by the truthiness of cls.alignment: a structure without fields has alignment 0,
    for which the mask is -1 and the 'padding' is -tell()."""
    pm = parent_map(fn)
    out = []
    for c in ast.walk(fn):
        if not (isinstance(c, ast.Call) and call_name(c) == "seek" and len(c.args) >= 2 and isinstance(c.args[0], ast.BinOp) and isinstance(c.args[0].op, ast.BitAnd)):
            continue
        mask = norm(c.args[0])
        if ".alignment - 1" not in mask or "field.alignment" in mask or "or 1" in mask:
            continue
        owner = next((norm(a.value) for a in ast.walk(c.args[0]) if isinstance(a, ast.Attribute) and a.attr == "alignment"), None)
        guarded = False
        p_ = pm.get(c)
        while p_ is not None:
            if isinstance(p_, ast.If):
                conj = p_.test.values if isinstance(p_.test, ast.BoolOp) and isinstance(p_.test.op, ast.And) else [p_.test]
                if any(norm(x) in (f"{owner}.alignment", f"{owner}.alignment > 0", f"{owner}.alignment != 0", f"{owner}.__fields__", f"{owner}.fields") for x in conj):
                    guarded = True
            p_ = pm.get(p_)
        if not guarded:
            out.append(c)
    return out


@shape_of("struct_rw", "compiled")
def zero_alignment_rule(repo: Repo, rep: Report, rid: str) -> None:
    rep.rule(rid, "a reader never moves the stream by a mask built from an alignment that can be 0: the class alignment of a structure without fields "
                  "is 0 (the calculators start from 0 and take the maximum over the fields), so 'seek(-tell() & (cls.alignment - 1), SEEK_CUR)' must be "
                  "guarded by the alignment (or the field list) being non-empty - in the interpreted reader and in the generated one")
    if len(_unguarded_class_alignment_seeks(ast.parse(FIXTURE_ZERO_ALIGN))) != 1:
        raise AnalysisError("zero-alignment matcher no longer recognises its positive fixture")
    rep.ok(rid, "fixture:seek(-tell() & (cls.alignment - 1)) under 'if cls.__align__'", "matcher recognises the positive fixture", "", nontrivial=False)
    n = 0
    for fi in repo.all_functions():
        if not fi.module.rel.startswith("types/"):
            continue
        sites = [c for c in walk_body(fi.node.body) if isinstance(c, ast.Call) and call_name(c) == "seek" and len(c.args) >= 2 and ".alignment - 1" in norm(c.args[0])
                 and "field.alignment" not in norm(c.args[0])]
        if not sites:
            continue
        bad = _unguarded_class_alignment_seeks(fi.node)
        for c in sites:
            n += 1
            rep.check(not any(c is b_ for b_ in bad), rid, f"{fi.key}:{short(c, 60)}", "guarded by a non-empty alignment",
                      f"{fi.qualname}: '{short(c, 70)}' is reached for a structure without fields, whose alignment is 0: the mask is -1 and the stream is moved "
                      "back by tell() bytes (an empty aligned structure parsed at position p leaves the stream at 0)", fi.loc(c))
    # the generated reader: the same statement as template text (holes that hold a constant string are part of the text)
    for t in T.reader_templates(repo):
        text = " ".join(t.text.split())
        if "cls.alignment - 1" not in text or "seek" not in text:
            continue
        n += 1
        pm = parent_map(t.func.node)
        guarded = "or 1" in text
        p_ = pm.get(t.node)
        while p_ is not None and not guarded:
            if isinstance(p_, ast.If):
                conj = p_.test.values if isinstance(p_.test, ast.BoolOp) and isinstance(p_.test.op, ast.And) else [p_.test]
                guarded = any(norm(y) in ("self.fields", "len(self.fields)", "len(self.fields) > 0") for y in conj)
            p_ = pm.get(p_)
        rep.check(guarded, rid, f"{t.func.key}:template {text[:50]}", "emitted only for a structure that has fields",
                  "the generated reader aligns the stream with 'cls.alignment - 1' also for a structure without fields (alignment 0): the compiled "
                  "reader of an empty aligned structure seeks back to the start of the stream", t.func.loc(t.node))
    rep.floor(rid, "class-alignment seek sites", n, 2)


@shape_of("struct_rw", "compiled")
def absolute_padding_rule(repo: Repo, rep: Report, rid: str) -> None:
    rep.rule(rid, "alignment padding in the generated reader is computed from the absolute stream position, as the interpreted reader and the writer "
                  "compute it: every 'stream.seek(-X & (A - 1), SEEK_CUR)' template has X == stream.tell()")
    n = 0
    for t in T.reader_templates(repo):
        if t.tree is None:
            continue
        for c in ast.walk(t.tree):
            if isinstance(c, ast.Call) and call_name(c) == "seek" and len(c.args) == 2 and isinstance(c.args[0], ast.BinOp) and isinstance(c.args[0].op, ast.BitAnd) \
                    and isinstance(c.args[0].left, ast.UnaryOp) and isinstance(c.args[0].left.op, ast.USub):
                n += 1
                x = norm(c.args[0].left.operand)
                rep.check(x == "stream.tell()", rid, f"{t.func.key}:template {short(c, 60)}", "padding from the absolute position",
                          f"the generated reader pads by '-({x}) & ...': relative to the structure start instead of the absolute stream position the interpreted reader "
                          "and the writer use, so a compiled aligned structure that starts at an unaligned position (element of a packed parent, behind a "
                          "dynamic field) consumes another number of bytes than is dumped", t.func.loc(t.node))
    rep.floor(rid, "alignment seek templates", n, 3)


def input_predicate_rule(repo: Repo, rep: Report, rid: str) -> None:
    rep.rule(rid, "what counts as a buffer and what as a stream, folded over 8 kinds of input: exactly bytes / bytearray / memoryview are buffers, anything "
                  "with read() is a stream - an object that is both (an mmap) must not answer yes to the buffer test, because T(x) and T.read(x) ask the two "
                  "questions in different orders")
    from ..folds import fold_input_predicates

    fi = repo.func("types/base.py", "MetaType.read")
    fold = fold_input_predicates(repo)
    if fold is None:
        rep.ok(rid, f"{fi.key}:input-kinds", "predicates not found as module functions or not foldable: the call-form folds decide", fi.loc(), nontrivial=False)
        return
    bad = fold["bad"]
    rep.check(not bad, rid, f"{fi.key}:input-kinds", f"{fold['cases']} (predicate, input kind) cases agree with the reference",
              (f"{bad[0][0]}({bad[0][1]}) is {bad[0][2]}, expected {bad[0][3]}: the call forms no longer agree on how this input is parsed") if bad else "", fi.loc())


def run(repo: Repo, rep: Report, tier: str) -> None:
    from .compiled import compiled_fold_rule, shape_rule

    compiled_fold_rule(repo, rep, "C09.R11", tier)
    relative_seek_rule(repo, rep, "C09.R1")
    restore_rule(repo, rep, "C09.R2")
    funnel_rule(repo, rep, "C09.R3")
    offset_base_rule(repo, rep, "C09.R4")
    from .c04 import struct_rw_fold_rule

    struct_rw_fold_rule(repo, rep, "C09.R5", 3 if tier == "thorough" else 2)
    zero_alignment_rule(repo, rep, "C09.R6")
    from .c16 import dereference_rule

    dereference_rule(repo, rep, "C09.R9")
    from .c05 import leb128_rule
    from .c08 import call_shortcut_rule

    call_shortcut_rule(repo, rep, "C09.R7")
    leb128_rule(repo, rep, "C09.R8")
    shape_rule(repo, rep, tier, absolute_padding_rule, "C09.R10")
    from .memo import memo_rule

    memo_rule(repo, rep, "C09.R14")
    from .c07 import clamp_rule
    from .c11 import union_call_rule

    clamp_rule(repo, rep, "C09.R15")
    union_call_rule(repo, rep, "C09.R16")
    from .c08 import meta_call_rule

    meta_call_rule(repo, rep, "C09.R17")
    from .c04 import layout_fold_rule
    from .share import share_rules

    layout_fold_rule(repo, rep, "C09.R18", 3 if tier == "thorough" else 2)
    share_rules(repo, rep, tier, "c08", {"C08.R1": "C09.R19"}, "a read that some stream kinds refuse (or answer differently) makes the result depend on the kind of input")
    input_predicate_rule(repo, rep, "C09.R20")
    from .c05 import codec_fold_rule

    # every reader leaves the stream at p plus the encoded size and takes nothing behind its extent (also the bulk readers of [EOF] arrays)
    codec_fold_rule(repo, rep, "C09.R21", slots=("_read", "_read_array", "_read_0"))
