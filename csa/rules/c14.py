"""C14 - no hidden shared state: instances, defaults and cstruct objects are independent."""

from __future__ import annotations

import ast

from .. import templates as T
from ..callgraph import CallGraph, entry_points
from ..effects import EffectAnalysis
from ..model import Repo
from ..report import Report
from ..util import AnalysisError, call_name, chain, is_const, norm, parent_map, root_name, short, walk_body
from .c08 import residue_rule

IMMUTABLE_BASES = {"int", "float", "bytes", "str", "IntEnum", "IntFlag"}

# positive example that the replicated-reference matcher must recognise on every run (so it cannot rot)
FIXTURE_R2 = "def f(cls):\n    return type.__call__(cls, [cls.type.__default__()] * n)\n"


def family_mutability(repo: Repo) -> dict[str, str]:
    """family -> 'mutable' | 'immutable', from the class model (not from running anything)."""
    out = {}
    for fam in repo.families():
        mro = repo.mro(fam)
        if "list" in mro or "dict" in mro or "set" in mro or "bytearray" in mro:
            out[fam] = "mutable"
        elif "Structure" in mro:
            out[fam] = "mutable"  # instances carry assignable fields
        elif any(b in IMMUTABLE_BASES for b in mro):
            out[fam] = "immutable"
        elif fam == "Packed":
            # concrete packed types are created as (base, Packed) by _make_packed_type: judge the bases the type table passes
            from ..tables import typedef_table

            bases = {norm(v.args[2]) for _, _, v in typedef_table(repo) if isinstance(v, ast.Call) and call_name(v) == "_make_packed_type" and len(v.args) > 2}
            out[fam] = "immutable" if bases and bases <= {"int", "float"} else "mutable"
        elif fam == "Void":
            out[fam] = "immutable"  # stateless
        else:
            out[fam] = "mutable"  # unknown: assume the worst
    return out


def default_results(repo: Repo) -> dict[str, list[str]]:
    """__default__ implementation -> families whose default value it produces."""
    res: dict[str, list[str]] = {}
    for fam in repo.families():
        f = repo.lookup_method(fam, "__default__")
        if f is not None:
            res.setdefault(f.key, []).append(fam)
    return res


def _flows_to_sink(fn: ast.AST, stmt: ast.AST | None) -> str | None:
    """The statement holding a __default__() call stores it in a local (assignment, or append/extend/insert on a local list); follow the local,
    flow-insensitively, through further assignments to a co_consts / argdefs / kwdefaults keyword or a class-dict store."""
    tainted: set[str] = set()

    def seed(st: ast.AST | None) -> None:
        if isinstance(st, (ast.Assign, ast.AugAssign, ast.AnnAssign)):
            for t in (st.targets if isinstance(st, ast.Assign) else [st.target]):
                for x in ast.walk(t):
                    if isinstance(x, ast.Name):
                        tainted.add(x.id)
        elif isinstance(st, ast.Expr) and isinstance(st.value, ast.Call) and isinstance(st.value.func, ast.Attribute) and \
                st.value.func.attr in ("append", "extend", "insert", "update", "setdefault") and isinstance(st.value.func.value, ast.Name):
            tainted.add(st.value.func.value.id)

    seed(stmt)
    if not tainted:
        return None
    changed = True
    while changed:
        changed = False
        for st in walk_body(fn.body):
            if isinstance(st, (ast.Assign, ast.AugAssign, ast.AnnAssign, ast.Expr)):
                val = st.value if not isinstance(st, ast.Expr) else (st.value.args if isinstance(st.value, ast.Call) else None)
                vals = val if isinstance(val, list) else [val]
                if any(isinstance(x, ast.Name) and x.id in tainted for v in vals if v is not None for x in ast.walk(v)):
                    before = len(tainted)
                    seed(st)
                    changed |= len(tainted) != before
    for x in walk_body(fn.body):
        if isinstance(x, ast.keyword) and x.arg in ("co_consts", "argdefs", "kwdefaults") and any(isinstance(y, ast.Name) and y.id in tainted for y in ast.walk(x.value)):
            return x.arg
        if isinstance(x, ast.Assign) and any(isinstance(t, ast.Subscript) and "classdict" in norm(t.value) for t in x.targets) and \
                any(isinstance(y, ast.Name) and y.id in tainted for y in ast.walk(x.value)):
            return "classdict"
    return None


def defaults_rule(repo: Repo, rep: Report, rid: str) -> None:
    rep.rule(rid, "defaults are per instance: a value produced by X.__default__() at definition time may be embedded in a per-class constant "
                  "(co_consts / argdefs / class dict) only if every family's default is immutable")
    mut = family_mutability(repo)
    mutable = sorted(f for f, m in mut.items() if m == "mutable")
    rep.info["family_mutability"] = mut
    n = 0
    mod = repo.module("types/structure.py")
    for fi in mod.functions.values():
        pm = None
        for c in walk_body(fi.node.body):
            if not (isinstance(c, ast.Call) and call_name(c) == "__default__"):
                continue
            if pm is None:
                pm = parent_map(fi.node)
            p = pm.get(c)
            sink = None
            while p is not None and not isinstance(p, ast.stmt):
                if isinstance(p, ast.keyword) and p.arg in ("co_consts", "argdefs", "co_names", "kwdefaults"):
                    sink = p.arg
                p = pm.get(p)
            if sink is None and isinstance(p, ast.Assign) and any(isinstance(t, ast.Subscript) and "classdict" in norm(t.value) for t in p.targets):
                sink = "classdict"
            if sink is None:
                sink = _flows_to_sink(fi.node, p)
            if sink is None:
                continue
            n += 1
            key = f"{fi.key}:{sink} <- {short(c, 50)}"
            if mutable:
                rep.fail(rid, key, f"the default value object of every field is embedded once in the generated method ({sink}) and handed to every instance "
                                   f"that does not specify the field; for the mutable families {mutable} (arrays, nested structures/unions) all "
                                   f"default-constructed instances share one object: a = S(); b = S(); a.arr[0] = 9 changes b.arr and every later S()",
                         fi.loc(c))
            else:
                rep.ok(rid, key, "all defaults are immutable", fi.loc(c))
    rep.floor(rid, "definition-time default embedding sites", n, 2)
    # instance-level defaults taken at call time are fine: Structure writer and Union._rebuild call __default__() per use
    wr = repo.func("types/structure.py", "StructureMetaType._write")
    rep.check(any(isinstance(c, ast.Call) and call_name(c) == "__default__" for c in walk_body(wr.node.body)), rid, f"{wr.key}:call-time default",
              "missing values are defaulted per call when dumping", "the writer no longer takes defaults at call time", wr.loc())


def _replicated(fn: ast.AST):
    for x in ast.walk(fn):
        if isinstance(x, ast.BinOp) and isinstance(x.op, ast.Mult):
            for lst, other in ((x.left, x.right), (x.right, x.left)):
                if isinstance(lst, ast.List) and lst.elts and not all(is_const(e) for e in lst.elts):
                    yield x, lst


def replicate_rule(repo: Repo, rep: Report, rid: str) -> None:
    rep.rule(rid, "no replicated references: '[e] * n' with a possibly mutable element makes n aliases of one object")
    fx = list(_replicated(ast.parse(FIXTURE_R2)))
    if len(fx) != 1:
        raise AnalysisError("replicated-reference matcher no longer recognises its positive fixture")
    n = 0
    for fi in repo.all_functions():
        for x, lst in _replicated(ast.Module(body=[s for s in fi.node.body if not isinstance(s, (ast.FunctionDef, ast.AsyncFunctionDef))], type_ignores=[])):
            n += 1
            el = lst.elts[0]
            maybe_mut = isinstance(el, (ast.Call, ast.Name, ast.Attribute, ast.List, ast.Dict, ast.Set))
            rep.check(not maybe_mut, rid, f"{fi.key}:{short(x, 60)}", "element is a constant",
                      f"'{short(x, 60)}' replicates one '{short(el, 30)}' object n times: when it is mutable (nested array / structure default) all "
                      f"elements alias each other", fi.loc(x))
    rep.info["replication_sites"] = n
    rep.ok(rid, "fixture:[cls.type.__default__()] * n", "matcher recognises the positive fixture", "", nontrivial=False)
    d = repo.func("types/base.py", "BaseArray.__default__")
    comp = [x for x in walk_body(d.node.body) if isinstance(x, (ast.ListComp, ast.GeneratorExp)) and any(isinstance(c, ast.Call) and call_name(c) == "__default__" for c in ast.walk(x.elt))]
    # the explicit-loop form: the element default is created inside the loop body, once per iteration
    comp += [x for x in walk_body(d.node.body) if isinstance(x, (ast.For, ast.While))
             and any(isinstance(c, ast.Call) and call_name(c) == "__default__" for st in x.body for c in ast.walk(st))]
    rep.check(bool(comp), rid, f"{d.key}:per-element", "every element gets its own default (__default__ is called once per element, in a comprehension or loop body)",
              "BaseArray.__default__ does not create one default per element", d.loc())


def module_state_rule(repo: Repo, rep: Report, rid: str) -> None:
    rep.rule(rid, "module- and class-level state is immutable after import: no function stores into or mutates a module-level / class-level "
                  "container, cache or counter; cached code templates are only read (code.replace / type(func)(...))")
    cg = CallGraph(repo)
    ea = EffectAnalysis(repo, cg)
    inventory = []
    for mod in repo.modules.values():
        for name, v in mod.assigns.items():
            if isinstance(v, (ast.Dict, ast.List, ast.Set, ast.Tuple)) or (isinstance(v, ast.Call) and call_name(v) in ("dict", "list", "set", "defaultdict", "OrderedDict", "count")):
                inventory.append((mod.rel, name, type(v).__name__))
        for ci in mod.classes.values():
            for name, v in ci.attrs.items():
                if isinstance(v, (ast.Dict, ast.List, ast.Set)) or (isinstance(v, ast.Call) and call_name(v) in ("dict", "list", "set", "defaultdict")):
                    inventory.append((mod.rel, f"{ci.name}.{name}", type(v).__name__))
    for fi in repo.all_functions():
        if any("lru_cache" in norm(d) or "_codegen" in norm(d) for d in fi.node.decorator_list):
            inventory.append((fi.module.rel, fi.qualname, "cache"))
    rep.info["module_level_state"] = [f"{a}:{b} ({c})" for a, b, c in inventory]
    class_containers = {b.split(".", 1)[1] for a, b, c in inventory if "." in b and c != "cache"}
    n = 0
    for fi in sorted(repo.all_functions(), key=lambda f: f.key):
        for e in ea.effects(fi):
            if e.root_class == "global":
                n += 1
                rep.fail(rid, f"{fi.key}:{e.what} {e.target}", f"{fi.qualname} writes module-level / class-level state '{e.target}': every cstruct "
                                                               f"object and every later parse would see it", fi.loc(e.node))
            elif e.root_class in ("cls", "self-shared", "self-value", "self-percall") and e.attr in class_containers and e.what != "store":
                n += 1
                rep.fail(rid, f"{fi.key}:{e.what} {e.target}", f"{fi.qualname} mutates the class-level container '{e.attr}' through {e.root}", fi.loc(e.node))
            elif e.root_class in ("cls", "self-shared", "self-value", "self-percall") and e.attr in class_containers and isinstance(getattr(e.node, "targets", [None])[0], ast.Subscript):
                n += 1
                rep.fail(rid, f"{fi.key}:{e.what} {e.target}", f"{fi.qualname} stores into the class-level container '{e.attr}' through {e.root}", fi.loc(e.node))
    for a, b, c in inventory:
        rep.ok(rid, f"{a}:{b}", f"{c}: no function writes it", "")
    rep.floor(rid, "module-level / class-level containers and caches", len(inventory), 9)
    # module-level mutable objects created by calls at import time (other than the inventory): flag stores from functions to module attributes
    # cached templates: consumers never store through them
    st = repo.module("types/structure.py")
    for qn in ("_patch_attributes", "_generate_structure__init__", "_generate_union__init__", "_generate__eq__", "_generate__bool__", "_generate__hash__"):
        fi = repo.func("types/structure.py", qn)
        bad = [e for e in ea.effects(fi) if e.root_class not in ("fresh",)]
        rep.check(not bad, rid, f"{fi.key}:template-readonly", "the cached template function is only read",
                  f"{qn} writes through the cached template: {[e.target for e in bad]} - every class with the same field count shares it", fi.loc())
    cgf = repo.func("types/structure.py", "_codegen.<locals>.make_func_code")
    ex = [c for c in walk_body(cgf.node.body) if isinstance(c, ast.Call) and call_name(c) == "exec"]
    rep.check(len(ex) == 1 and len(ex[0].args) == 3 and isinstance(ex[0].args[1], ast.Dict) and not ex[0].args[1].keys, rid, f"{cgf.key}:fresh-namespace",
              "templates are compiled in a fresh empty globals dict", "templates are no longer compiled in a fresh namespace", cgf.loc())


def ownership_rule(repo: Repo, rep: Report, rid: str) -> None:
    rep.rule(rid, "types belong to exactly one cstruct: classes are only created by _make_type (which injects cs = self) and the Enum/Flag factory "
                  "(which sets cs); the built-in types are constructed per instance inside __init__, never at module level")
    n = 0
    for fi in repo.all_functions():
        for c in walk_body(fi.node.body):
            if isinstance(c, ast.Call) and call_name(c) == "new_class":
                n += 1
                rep.check(fi.qualname == "cstruct._make_type", rid, f"{fi.key}:{short(c, 50)}", "the single class factory",
                          f"{fi.qualname} creates type classes outside _make_type: they would not be bound to a cstruct instance", fi.loc(c))
    rep.floor(rid, "types.new_class call sites", n, 1)
    mk = repo.func("cstruct.py", "cstruct._make_type")
    d = [x for x in walk_body(mk.node.body) if isinstance(x, ast.Dict) and any(isinstance(k, ast.Constant) and k.value == "cs" for k in x.keys)]
    rep.check(bool(d) and any(isinstance(k, ast.Constant) and k.value == "cs" and norm(v) == mk.self_name for k, v in zip(d[0].keys, d[0].values)), rid,
              f"{mk.key}:cs", "cs = self injected into every created class", "_make_type no longer binds the class to this cstruct", mk.loc())
    en = repo.func("types/enum.py", "EnumMetaType.__call__")
    rep.check(any(isinstance(s, ast.Assign) and norm(s.targets[0]).endswith(".cs") and norm(s.value) in ("cs", "value") for s in walk_body(en.node.body)), rid,
              f"{en.key}:cs", "enum classes are bound to the creating cstruct", "Enum/Flag classes are no longer bound to the creating cstruct", en.loc())
    # nothing at module / class level constructs types
    for mod in repo.modules.values():
        for st in mod.tree.body:
            if isinstance(st, (ast.FunctionDef, ast.AsyncFunctionDef, ast.Import, ast.ImportFrom)):
                continue
            tops = [st] if not isinstance(st, ast.ClassDef) else [s for s in st.body if not isinstance(s, (ast.FunctionDef, ast.AsyncFunctionDef))]
            for t0 in tops:
                for c in ast.walk(t0):
                    if isinstance(c, ast.Call) and (call_name(c) or "").startswith("_make_") or (isinstance(c, ast.Call) and call_name(c) in ("new_class", "cstruct")):
                        rep.fail(rid, f"{mod.rel}:<module>:{short(c, 50)}", "a type / cstruct object is constructed at import time and shared by all users", f"{mod.path}:{c.lineno}")
    init = repo.func("cstruct.py", "cstruct.__init__")
    made = [c for c in walk_body(init.node.body) if isinstance(c, ast.Call) and (call_name(c) or "").startswith("_make_") and norm(c.func.value) == init.self_name]
    rep.check(len(made) >= 20, rid, f"{init.key}:builtins", f"{len(made)} built-in types constructed per instance", "built-in types are not constructed per cstruct instance", init.loc())
    for attr in ("consts", "lookups", "typedefs"):
        asg = [s for s in walk_body(init.node.body) if isinstance(s, ast.Assign) and norm(s.targets[0]) == f"{init.self_name}.{attr}"]
        rep.check(len(asg) == 1 and isinstance(asg[0].value, ast.Dict), rid, f"{init.key}:{attr}", "fresh dict per instance", f"cstruct.{attr} is not a fresh dict per instance", init.loc())
    # mutable default arguments anywhere in the package
    for fi in repo.all_functions():
        a = fi.node.args
        for dflt in [*a.defaults, *[k for k in a.kw_defaults if k is not None]]:
            if isinstance(dflt, (ast.List, ast.Dict, ast.Set)) or (isinstance(dflt, ast.Call) and call_name(dflt) in ("list", "dict", "set")):
                rep.fail(rid, f"{fi.key}:default {norm(dflt)}", "mutable default argument is shared between calls", fi.loc(dflt))



def _param_stores(fn: ast.FunctionDef, params: set[str]) -> list[ast.AST]:
    """Stores (attribute / item assignment, setattr / delattr, in-place update calls) on an object the caller handed in, aliases through plain locals included."""
    alias = set(params)
    for _ in range(3):
        for st in ast.walk(fn):
            if isinstance(st, ast.Assign) and len(st.targets) == 1 and isinstance(st.targets[0], ast.Name) and isinstance(st.value, ast.Name) and st.value.id in alias:
                alias.add(st.targets[0].id)
    out: list[ast.AST] = []
    for x in ast.walk(fn):
        if isinstance(x, (ast.Attribute, ast.Subscript)) and isinstance(x.ctx, (ast.Store, ast.Del)):
            r = x.value
            while isinstance(r, (ast.Attribute, ast.Subscript)):
                r = r.value
            if isinstance(r, ast.Name) and r.id in alias:
                out.append(x)
        if isinstance(x, ast.Call) and isinstance(x.func, ast.Name) and x.func.id in ("setattr", "delattr") and x.args and isinstance(x.args[0], ast.Name) and x.args[0].id in alias:
            out.append(x)
        if isinstance(x, ast.Call) and isinstance(x.func, ast.Attribute) and x.func.attr == "__setattr__" and len(x.args) >= 2 and isinstance(x.args[0], ast.Name) and x.args[0].id in alias:
            out.append(x)
    return out


def caller_objects_rule(repo: Repo, rep: Report, rid: str) -> None:
    rep.rule(rid, "a cstruct object never writes on what the caller hands it: no method of class cstruct stores an attribute / item on (or setattr's) one of "
                  "its parameters - a type class given to add_custom_type is registered as a new subclass made by _make_type, so the same class can be "
                  "added to several cstruct objects without one registration re-binding the other's type")
    n = 0
    for fi in repo.cls("cstruct").methods.values():
        params = set(fi.params[1:]) | {a.arg for a in fi.node.args.kwonlyargs}
        if fi.node.args.kwarg is not None:
            params.add(fi.node.args.kwarg.arg)
        params -= {fi.self_name}
        if not params:
            continue
        n += 1
        # the keyword dict itself is a fresh per-call object: storing into it is local; what matters is objects reachable from the caller
        kw = fi.node.args.kwarg.arg if fi.node.args.kwarg is not None else None
        stores = [x for x in _param_stores(fi.node, params - ({kw} if kw else set()))]
        rep.check(not stores, rid, f"{fi.key}:caller-objects", "stores nothing on its arguments",
                  f"{fi.qualname} writes on its argument ('{short(stores[0], 60) if stores else ''}'): an object the caller owns - e.g. a custom type class shared by "
                  "two cstruct objects - is re-bound by the second registration, which changes the types of the first", fi.loc(stores[0]) if stores else fi.loc())
    rep.floor(rid, "cstruct methods taking arguments", n, 10)
    act = repo.func("cstruct.py", "cstruct.add_custom_type")
    from ..util import resolve_local

    regs = [c for c in walk_body(act.node.body) if isinstance(c, ast.Call) and call_name(c) == "add_type" and len(c.args) >= 2]
    ok = bool(regs) and all(isinstance(resolve_local(act.node, c.args[1]), ast.Call) and call_name(resolve_local(act.node, c.args[1])) == "_make_type" for c in regs)
    rep.check(ok, rid, f"{act.key}:registers-subclass", "registers the class _make_type creates", "add_custom_type registers something other than a class made by "
              "_make_type: the caller's own class would be bound to this cstruct object (cs, size, alignment set on it), so adding it to a second cstruct object "
              "changes the first", act.loc(regs[0]) if regs else act.loc())
    w = ast.parse("def f(self, name, type_, **kwargs):\n    t = type_\n    for k, v in kwargs.items():\n        setattr(t, k, v)\n    type_.cs = self\n").body[0]
    if len(_param_stores(w, {"name", "type_"})) != 2:
        raise AnalysisError(f"{rid}: the parameter-store matcher no longer recognises its witness")


def run(repo: Repo, rep: Report, tier: str) -> None:
    defaults_rule(repo, rep, "C14.R1")
    replicate_rule(repo, rep, "C14.R2")
    module_state_rule(repo, rep, "C14.R3")
    ownership_rule(repo, rep, "C14.R4")
    rid = "C14.R5"
    rep.rule(rid, "parsing is history-free: nothing reachable from a parse or dump leaves state on a shared object (or it is reset before use)")
    tfuncs = T.reader_template_functions(repo)
    cg = CallGraph(repo, extra_functions=tfuncs)
    ep = entry_points(repo)
    roots = ep["PARSE"] + ep["DUMP"] + [f.key for f in tfuncs]
    residue_rule(repo, rep, rid, cg, cg.closure(roots), roots)
    from .c08 import generated_globals_rule

    generated_globals_rule(repo, rep, "C14.R6")
    from .memo import memo_rule

    memo_rule(repo, rep, "C14.R7")
    from .c18 import commit_rule

    commit_rule(repo, rep, "C14.R8")
    from .c20 import fresh_generation_rule

    fresh_generation_rule(repo, rep, "C14.R9")
    from .share import share_rules

    from .c08 import meta_call_rule

    # T(v) for a value v of type T builds a new object: handing v back makes two names for one mutable value
    meta_call_rule(repo, rep, "C14.R11")
    caller_objects_rule(repo, rep, "C14.R12")
    from .c11 import union_life_rule

    union_life_rule(repo, rep, "C14.R13")
    share_rules(repo, rep, tier, "c15", {"C15.R5": "C14.R10"}, "a descriptor or accessor that keeps per-call state on itself is state shared by every object of every cstruct")
