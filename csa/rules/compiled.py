"""The compiled-reader fold as a rule, shared by every property that the generated reader takes part in.

``compiled_fold_rule`` reports the outcome of ``genfold.fold_compiled`` restricted to the aspect a property is about (C03: everything; C08: the
truncated-input outcome; C06: bit-field sequences; C16: pointer sequences; C04: positions and consumed size; C07: arrays and the context given to
nested readers).  ``shape_rule`` runs a structural rule about the *shape* of the source generator only when the fold cannot interpret the
generator (a construct outside the evaluator's whitelist): where the fold decides, the generator's outcome has been compared with the reference
on every case, and the way compiler.py is organised is free to change.  What the shape rule would have said is kept as an advisory note.
"""

from __future__ import annotations

from typing import Any, Callable

from ..model import Repo
from ..report import Report
from ..util import AnalysisError

CATEGORY_TEXT = {
    "values": "field values", "fetch": "positions at which nested / dynamic types and bit-field units are fetched", "end": "final stream position",
    "sizes": "recorded sizes", "context": "context handed to nested readers", "eof": "truncated input", "raise": "errors while generating / reading",
    "shared": "per-parse state", "result": "result object",
}

# property -> (topic text, categories or None for all, predicate on the kind sequence or None)
ASPECTS: dict[str, tuple[str, set[str] | None, Callable[[list[str]], bool] | None]] = {
    "C03": ("everything the fold compares", None, None),
    "C01": ("values and positions (the compiled reader is the default reader of parse(dumps(v)))", {"values", "fetch", "end", "raise", "shared"}, None),
    "C02": ("values and positions (the compiled reader is the default reader of dumps(parse(b)))", {"values", "fetch", "end", "raise", "shared"}, None),
    "C08": ("an image cut one byte short raises EOFError; no state survives a failed parse", {"eof", "shared"}, None),
    "C06": ("sequences with bit-fields", {"values", "fetch", "end", "raise", "shared"}, lambda seq: any(":" in n for n in seq)),
    "C16": ("sequences with pointers", {"values", "raise", "sizes"}, lambda seq: any("p32" in n for n in seq)),
    "C04": ("positions and consumed size", {"fetch", "end", "sizes"}, None),
    "C07": ("sequences with arrays", {"values", "context", "sizes", "fetch", "raise"}, lambda seq: any("[" in n or n.startswith(("dyn", "c5", "w3", "c200")) for n in seq)),
    "C12": ("sequences with enums and flags", {"values", "raise", "sizes", "fetch"}, lambda seq: any(n.startswith(("e16", "e24", "fl8")) for n in seq)),
    "C09": ("streams that do not start at 0", {"values", "fetch", "end"}, None),
}


def compiled_fold(repo: Repo, tier: str) -> dict | None:
    from ..genfold import fold_compiled

    max_len = 4 if tier == "thorough" else 2
    cache = repo.__dict__.setdefault("_compiled_folds", {})
    if max_len not in cache:
        cache[max_len] = fold_compiled(repo, max_len)
    return cache[max_len]


def fold_decides(repo: Repo, tier: str) -> bool:
    return compiled_fold(repo, tier) is not None


def compiled_fold_rule(repo: Repo, rep: Report, rid: str, tier: str) -> bool:
    prop = rid.split(".")[0]
    topic, cats, pred = ASPECTS[prop]
    from ..genfold import FIELD_KINDS, TRIPLE_KINDS

    rep.rule(rid, "compiled reader, bounded-exhaustive in two stages: compiler.compile(structure) is interpreted on every sequence of up to 2 field kinds "
                  f"({len(FIELD_KINDS)} kinds: packed / byte-based integers, floats, chars, wide chars, enums, flags, pointers, arrays of them, nested / dynamic types, void, "
                  f"bit-fields, explicit offsets, twins with the same generated text), every triple over the {len(TRIPLE_KINDS)} kinds that form and interrupt bit-field runs, quadruples over 7 of them and fixed longer ones, packed and "
                  "aligned; the generated source is then interpreted over a stream model (both byte orders, stream starting at 0 / 3 / 16) and must give the "
                  "reference values (made with the field's own type), fetch positions, sizes, context, end position, and EOFError on a truncated image"
                  f" [reported here: {topic}]")
    fold = compiled_fold(repo, tier)
    entry = repo.func("compiler.py", "compile")
    key = f"{entry.key}:compiled-fold"
    if fold is None:
        rep.ok(rid, key, "the source generator uses a construct outside the evaluator's whitelist: the structural rules on its shape decide", entry.loc(), nontrivial=False)
        return False
    rep.info["compiled_fold"] = {k: fold[k] for k in ("cases", "generated", "compiled")}
    if fold.get("from_cache"):
        rep.info["compiled_fold"]["reused"] = "result reused from the digest-keyed cache (same compiler.py / bitbuffer.py / checker sources)"
    if fold["generated"] and fold["compiled"] * 10 < fold["generated"] * 6 and not fold["bad"]:
        raise AnalysisError(f"{rid}: only {fold['compiled']} of {fold['generated']} structures were compiled in the fold (the harness no longer matches compiler.compile)")
    bad = [b for b in fold["bad"] if (pred is None or pred(b[0]))]
    if prop == "C09":
        # values: only what differs for a stream that does not start at 0; where the reader leaves the stream and where it fetches nested types / units
        # is position discipline whatever the start
        at0 = {(tuple(b[0]), b[1]) for b in fold["bad"] if b[3] == "stream at 0"}
        bad = [b for b in bad if b[4].startswith(("[end]", "[fetch]")) or (b[3] != "stream at 0" and (tuple(b[0]), b[1]) not in at0)]
    by_cat: dict[str, list] = {}
    for b in bad:
        cat = b[4][1:b[4].index("]")] if b[4].startswith("[") else "values"
        if cats is None or cat in cats:
            by_cat.setdefault(cat, []).append(b)
    for cat in sorted(set(CATEGORY_TEXT) if cats is None else cats):
        items = by_cat.get(cat, [])
        b = items[0] if items else None
        rep.check(not items, rid, f"{key}:{cat}", f"{fold['cases']} cases ({fold['compiled']} generated readers): {CATEGORY_TEXT.get(cat, cat)} agree with the reference",
                  (f"structure {b[0]} ({', '.join(b[1:4])}): {b[4][b[4].index(']') + 2:] if b[4].startswith('[') else b[4]}"
                   f" [{len(items)} discrepancies of this kind]") if b else "", entry.loc())
    return True


def shape_rule(repo: Repo, rep: Report, tier: str, fn: Callable[..., Any], rid: str, *args: Any, **kw: Any) -> Any:
    """Run a rule on the shape of the source generator; where the compiled-reader fold decides, only as an advisory."""
    return fallback_rule(repo, rep, fold_decides(repo, tier), "the compiled-reader fold", fn, rid, *args, **kw)


AREAS = {
    "struct_rw": ("StructureMetaType._read:", "StructureMetaType._write:"),
    "layout": ("_calculate_size_and_offsets",),
    "compiled": ("compiler.py:",),
}


def _clean(repo: Repo, kind: str) -> bool:
    """The fold of that area interprets the code as it is now *and* finds every case in agreement with its reference."""
    cache = repo.__dict__.setdefault("_area_clean", {})
    if kind not in cache:
        try:
            if kind == "compiled":
                f = compiled_fold(repo, "quick")
            elif kind == "struct_rw":
                from ..structfold import fold_struct_rw

                folds = repo.__dict__.setdefault("_struct_rw_folds", {})
                if 2 not in folds:
                    folds[2] = fold_struct_rw(repo, 2)
                f = folds[2]
            else:
                from ..folds import fold_struct_layout

                f = fold_struct_layout(repo, 2)
            cache[kind] = f is not None and not f.get("bad") and not f.get("refused")
        except Exception:  # noqa: BLE001 - a fold that cannot run decides nothing
            cache[kind] = False
    return cache[kind]


def shape_of(*kinds: str):
    """Decorator for a rule on the *shape* of the interpreted structure reader / writer, the layout calculators or the source generator: where the
    fold of that area interprets today's code and finds all its cases in agreement with the reference, a shape failure inside that area is an
    advisory note (the outcome is decided, the spelling is free), and the rule's instance floors - which count sites a refactoring may move into
    helpers - are not enforced.  Where the fold is refused or reports a discrepancy, the rule stays fully armed."""
    import functools

    def deco(fn):
        @functools.wraps(fn)
        def wrapper(repo: Repo, rep: Report, rid: str, *a: Any, **kw: Any) -> Any:
            n_items, n_floors = len(rep.items), len(rep.floors)
            clean = [k for k in kinds if _clean(repo, k)]
            res = None
            try:
                res = fn(repo, rep, rid, *a, **kw)
            except AnalysisError as e:
                if len(clean) != len(kinds):
                    raise
                rep.notes.append(f"advisory {rid} (shape; decided by the {' / '.join(kinds)} fold): anchor not found: {e}")
                if not any(i.rule == rid for i in rep.items[n_items:]):
                    rep.ok(rid, f"shape:{rid.split('.')[1]}", f"the {' / '.join(kinds)} fold decides", "", nontrivial=False)
            areas = tuple(x for k in clean for x in AREAS[k])
            for i in rep.items[n_items:]:
                if i.rule == rid and not i.ok and areas and any(x in i.construct for x in areas):
                    rep.notes.append(f"advisory {rid}: {i.construct}: {i.detail[:200]}")
                    i.ok, i.nontrivial, i.detail = True, False, f"shape differs; every case of the {' / '.join(clean)} fold agrees with the reference"
            if len(clean) == len(kinds):
                del rep.floors[n_floors:]
            return res

        return wrapper

    return deco


def fallback_block(repo: Repo, rep: Report, decided: bool, by: str, fn: Callable[..., Any], *args: Any, skip: tuple[str, ...] = (), **kw: Any) -> Any:
    """Like fallback_rule for a function that registers several rules: where a fold of the outcome decides, every rule the block registers becomes
    an advisory (its failures are notes); rules named in ``skip`` are left to the caller."""
    if not decided:
        return fn(repo, rep, *args, **kw)
    scratch = Report(rep.prop, rep.tier)
    result = None
    try:
        result = fn(repo, scratch, *args, **kw)
    except AnalysisError as e:
        rep.notes.append(f"advisory (shape rules; {by} decides): anchor not found: {e}")
    except Exception as e:  # noqa: BLE001 - a shape rule that cannot cope with a reorganised function is not the deciding one here
        rep.notes.append(f"advisory (shape rules; {by} decides): not applicable to this shape ({type(e).__name__})")
    for rid, desc in scratch.rules_desc.items():
        if rid in skip:
            continue
        rep.rule(rid, desc + f" [fallback: applies when {by} cannot interpret the code; otherwise advisory]")
        fails = [i for i in scratch.items if not i.ok and i.rule == rid]
        for i in fails[:3]:
            rep.notes.append(f"advisory {rid}: {i.construct}: {i.detail[:200]}")
        n = sum(1 for i in scratch.items if i.rule == rid)
        rep.ok(rid, f"shape:{rid.split('.')[1]}", f"{by} decides ({n} shape obligations looked at, {len(fails)} advisory remarks)", "", nontrivial=False)
    for k_, v in scratch.info.items():
        rep.info.setdefault(k_, v)
    return result


def fallback_rule(repo: Repo, rep: Report, decided: bool, by: str, fn: Callable[..., Any], rid: str, *args: Any, **kw: Any) -> Any:
    """Run a rule on the shape of a generator; where a fold of the generator's outcome decides, only as an advisory."""
    if not decided:
        return fn(repo, rep, rid, *args, **kw)
    scratch = Report(rep.prop, rep.tier)
    result = None
    try:
        result = fn(repo, scratch, rid, *args, **kw)
    except AnalysisError as e:
        rep.notes.append(f"advisory {rid} (shape of the generator; {by} decides): anchor not found: {e}")
    except Exception as e:  # noqa: BLE001 - a shape rule that cannot cope with a reorganised generator is not the deciding one here
        rep.notes.append(f"advisory {rid} (shape of the generator; {by} decides): rule not applicable to this shape ({type(e).__name__})")
    desc = scratch.rules_desc.get(rid, "rule on the shape of the generator")
    rep.rule(rid, desc + f" [fallback: applies when {by} cannot interpret the generator; otherwise advisory]")
    fails = [i for i in scratch.items if not i.ok and i.rule == rid]
    for i in fails[:3]:
        rep.notes.append(f"advisory {rid}: {i.construct}: {i.detail[:200]}")
    n = sum(1 for i in scratch.items if i.rule == rid)
    rep.ok(rid, f"shape:{rid.split('.')[1]}", f"{by} decides ({n} shape obligations looked at, {len(fails)} advisory remarks)", "", nontrivial=False)
    for k_, v in scratch.info.items():
        rep.info.setdefault(k_, v)
    return result
