"""C16 - pointers: width from configuration, dereference reads the target in place."""

from __future__ import annotations

import ast
import re

from .. import templates as T
from ..boolalg import Formula
from ..cfg import CFG
from ..model import Repo
from ..report import Report
from ..util import AnalysisError, always_raises, call_name, chain, norm, raised_names, short, walk_body
from .compiled import shape_of
from .c02 import node_calls

ARITH = ["add", "sub", "mul", "floordiv", "mod", "pow", "lshift", "rshift", "and", "xor", "or"]


def config_rule(repo: Repo, rep: Report, rid: str) -> None:
    rep.rule(rid, "pointer width and codec come from the configured pointer type: _make_pointer sizes from self.pointer; Pointer._read/_write/"
                  "__default__ delegate to cls.cs.pointer; the generator maps Pointer to cs.pointer")
    n = 0
    fi = repo.func("cstruct.py", "cstruct._make_pointer")
    mk = [c for c in walk_body(fi.node.body) if isinstance(c, ast.Call) and call_name(c) == "_make_type"]
    kw = {k.arg: k.value for k in mk[0].keywords} if mk else {}
    n += 1
    rep.check(bool(mk) and norm(mk[0].args[2]) == "self.pointer.size" and norm(kw.get("alignment")) == "self.pointer.alignment"
              and "Pointer" in norm(mk[0].args[1]), rid, f"{fi.key}:size", "size/alignment of self.pointer, base Pointer",
              "pointer types are no longer sized/aligned from self.pointer", fi.loc())
    attrs = kw.get("attrs")
    n += 1
    rep.check(isinstance(attrs, ast.Dict) and any(isinstance(k, ast.Constant) and k.value == "type" and norm(v) == fi.params[1] for k, v in zip(attrs.keys, attrs.values)),
              rid, f"{fi.key}:target", "target type stored as .type", "pointer target type is not stored as the 'type' attribute", fi.loc())
    g0 = CFG(fi.node)
    mkn = {x.id for x in g0.nodes if x.kind == "stmt" and node_calls(x, "_make_type")}
    rets0 = [x for x in g0.nodes if x.kind == "stmt" and isinstance(x.ast, ast.Return)]
    n += 1
    rep.check(bool(mkn) and all(g0.must_pass(g0.entry.id, r.id, mkn) for r in rets0), rid, f"{fi.key}:fresh", "every return builds the pointer type from the current configuration",
              "_make_pointer can return without building the type from self.pointer (a memo): a pointer type created before cs.pointer was changed keeps the old "
              "width for later definitions", fi.loc())
    for qn, meth, nargs in (("Pointer._read", "_read", 2), ("Pointer._write", "_write", 2), ("Pointer.__default__", "__default__", 0)):
        f = repo.func("types/pointer.py", qn)
        calls = [c for c in walk_body(f.node.body) if isinstance(c, ast.Call) and isinstance(c.func, ast.Attribute) and c.func.attr == meth
                 and norm(c.func.value) == f"{f.self_name}.cs.pointer"]
        n += 1
        ok = len(calls) == 1
        if ok and nargs:
            ok = [norm(a) for a in calls[0].args[:nargs]] == f.params[1:1 + nargs]
        rep.check(ok, rid, f"{f.key}:delegate", f"delegates to cls.cs.pointer.{meth} with its own arguments",
                  f"{qn} does not delegate to cls.cs.pointer.{meth}(<its own arguments>): width / byte order / value would not follow the configuration", f.loc())
    grt = repo.func("compiler.py", "_get_read_type")
    g = CFG(grt.node)
    arms = [x for x in g.nodes if x.kind == "if" and "Pointer" in norm(x.ast.test)]
    n += 1
    rep.check(bool(arms) and any(isinstance(s, ast.Assign) and norm(s.value) == "cs.pointer" for s in arms[0].ast.body), rid, f"{grt.key}:pointer",
              "generator reads pointers through cs.pointer", "the source generator no longer maps Pointer fields to cs.pointer", grt.loc())
    init = repo.func("cstruct.py", "cstruct.__init__")
    asg = [s for s in walk_body(init.node.body) if isinstance(s, (ast.Assign, ast.AnnAssign)) and norm(s.targets[0] if isinstance(s, ast.Assign) else s.target) == "self.pointer"]
    n += 1
    rep.check(len(asg) == 1 and isinstance(asg[0].value, ast.Call) and call_name(asg[0].value) == "resolve", rid, f"{init.key}:self.pointer",
              "configured pointer type is resolved from the 'pointer' argument", "cstruct.pointer is not resolve(pointer)", init.loc())
    rep.floor(rid, "configuration obligations", n, 6)


@shape_of("compiled")
def construction_parity_rule(repo: Repo, rep: Report, rid: str) -> None:
    rep.rule(rid, "pointer construction parity: every Pointer built during a parse (interpreter and generated reader) receives "
                  "(value, the input stream, the context / in-progress result dict)")
    n = 0
    f = repo.func("types/pointer.py", "Pointer._read")
    news = [c for c in walk_body(f.node.body) if isinstance(c, ast.Call) and call_name(c) == "__new__"]
    for c in news:
        n += 1
        a = [norm(x) for x in c.args]
        ok = len(a) == 4 and a[0] == f.self_name and a[2] == f.params[1] and a[3] == f.params[2] and "pointer._read" in a[1]
        rep.check(ok, rid, f"{f.key}:{short(c, 70)}", "(cls, value, stream, context)",
                  f"Pointer._read builds the pointer with arguments {a[1:]}: it must receive the value read, the stream and the context", f.loc(c))
    fn, used = T.reader_skeleton(repo)
    for c in ast.walk(fn):
        if isinstance(c, ast.Call) and call_name(c) == "__new__" and isinstance(c.func, ast.Attribute):
            n += 1
            a = [norm(x) for x in c.args]
            ok = len(a) == 4 and a[0] == norm(c.func.value) and a[2] == "stream" and a[3] == "r"
            rep.check(ok, rid, f"compiler.py:<generated>._read:{short(c, 60)}", "(T, value, stream, r)",
                      f"generated reader builds a pointer with arguments {a[1:]}: the interpreter passes (value, stream, result dict)",
                      f"{repo.module('compiler.py').path}:{c.lineno}")
    # the interpreter passes the in-progress result dict as context to every field read
    rd = repo.func("types/structure.py", "StructureMetaType._read")
    reads = [c for c in walk_body(rd.node.body) if isinstance(c, ast.Call) and call_name(c) == "_read" and norm(c.func.value) == "field.type"]
    for c in reads:
        n += 1
        from ..util import in_progress_result_names

        rep.check(len(c.args) == 2 and norm(c.args[1]) in in_progress_result_names(rd.node), rid, f"{rd.key}:field.type._read(stream, <result>)", "context is the in-progress result",
                  "the interpreter does not pass the in-progress result dict as context", rd.loc(c))
    rep.floor(rid, "pointer construction sites", n, 4)


def arithmetic_rule(repo: Repo, rep: Report, rid: str) -> None:
    rep.rule(rid, "pointer arithmetic table: __op__ returns type.__call__(self.__class__, int.__op__(self, other), self._stream, self._context) "
                  "with the same op")
    ci = repo.cls("Pointer")
    n = 0
    for name, fi in sorted(ci.methods.items()):
        m = re.match(r"^__(r?)(" + "|".join(ARITH + ["truediv", "matmul", "neg", "invert", "divmod"]) + r")__$", name)
        if not m:
            continue
        n += 1
        body = fi.body
        key = f"{fi.key}:arith"
        ok = False
        detail = "body is not a single return of a rebuilt pointer"
        if len(body) == 1 and isinstance(body[0], ast.Return) and isinstance(body[0].value, ast.Call):
            c = body[0].value
            a = c.args
            if norm(c.func) == "type.__call__" and len(a) == 4 and norm(a[0]) == f"{fi.self_name}.__class__" and isinstance(a[1], ast.Call):
                inner = a[1]
                ia = [norm(x) for x in inner.args]
                exp_args = [fi.self_name] + fi.params[1:]
                if m.group(1) == "r":
                    exp_args = fi.params[1:] + [fi.self_name]
                if norm(inner.func) != f"int.{name}" and not (m.group(1) == "r" and norm(inner.func) == f"int.__{m.group(2)}__"):
                    detail = f"{name} computes {norm(inner.func)}: copy-paste slip, the result of the wrong operation would be returned"
                elif ia != exp_args:
                    detail = f"operands passed as {ia}, expected {exp_args}"
                elif norm(a[2]) != f"{fi.self_name}._stream" or norm(a[3]) != f"{fi.self_name}._context":
                    detail = f"result pointer is built on ({norm(a[2])}, {norm(a[3])}) instead of (self._stream, self._context)"
                else:
                    ok, detail = True, f"int.{name} rebuilt on the same stream/context"
        rep.check(ok, rid, key, detail, detail, fi.loc())
    rep.floor(rid, "arithmetic dunders", n, 11)
    missing = [a for a in ARITH if f"__{a}__" not in ci.methods]
    rep.check(not missing, rid, "types/pointer.py:Pointer:arith-complete", "all eleven operators rebuild a pointer",
              f"operators {missing} fall back to int and lose the pointer type/stream", ci.module.path)


def _dereference_structural(repo: Repo, rep: Report, rid: str, fi) -> None:
    g = CFG(fi.node)
    me = fi.self_name
    S = f"{me}._stream"

    def interp(e: ast.AST):
        t = norm(e)
        if t in (f"{me} == 0", f"0 == {me}", f"not {me}", f"int({me}) == 0"):
            return "NULL"
        if t == f"{S} is None":
            return "NOSTREAM"
        if t == f"{S} is not None":
            return ("not", "NOSTREAM")
        return None

    guards = set()
    for n in g.nodes:
        if n.kind == "if" and always_raises(n.ast.body) and raised_names(n.ast.body) <= {"NullPointerDereference"}:
            f = Formula(n.ast.test, interp)
            if f.always({"NULL": True}, True) and f.always({"NOSTREAM": True}, True):
                guards.add(n.id)
    uses = [n for n in g.nodes if n.expr() is not None and n.id not in guards and any(isinstance(x, ast.Attribute) and norm(x) == S for x in ast.walk(n.expr()))]
    rep.check(bool(guards) and bool(uses) and all(g.must_pass(g.entry.id, u.id, guards) for u in uses), rid, f"{fi.key}:null-guard",
              "guard (self == 0 or no stream) -> NullPointerDereference dominates every stream use",
              "the stream can be used (or a value returned) for a null / stream-less pointer without raising NullPointerDereference", fi.loc())
    tells = [n for n in g.nodes if n.kind == "stmt" and isinstance(n.ast, ast.Assign) and isinstance(n.ast.value, ast.Call) and norm(n.ast.value.func) == f"{S}.tell"]
    if len(tells) != 1:
        rep.fail(rid, f"{fi.key}:save", f"expected one 'position = {S}.tell()', found {len(tells)}", fi.loc())
        return
    pos = norm(tells[0].ast.targets[0])
    seek_to = [n for n in g.nodes if n.kind == "stmt" and any(norm(c.func) == f"{S}.seek" and len(c.args) == 1 and norm(c.args[0]) == me for c in node_calls(n, "seek"))]
    restore = [n for n in g.nodes if n.kind == "stmt" and any(norm(c.func) == f"{S}.seek" and c.args and norm(c.args[0]) == pos and
                                                              (len(c.args) == 1 or norm(c.args[1]) in ("0", "io.SEEK_SET", "SEEK_SET")) for c in node_calls(n, "seek"))]
    reads = [n for n in g.nodes if n.kind == "stmt" and any(c.args and norm(c.args[0]) == S and norm(c.func.value) == f"{me}.type"
                                                            for c in node_calls(n, "_read") + node_calls(n, "_read_0"))]
    ok = len(seek_to) == 1 and len(restore) >= 1 and len(reads) >= 1
    rep.check(ok, rid, f"{fi.key}:shape", f"tell -> seek({me}) -> {len(reads)} read arm(s) -> seek({pos})",
              f"dereference lost a step: seek-to-address={len(seek_to)}, reads={len(reads)}, restore={len(restore)}", fi.loc())
    if ok:
        k = seek_to[0]
        rs = {r.id for r in restore}
        rep.check(g.dominates(tells[0].id, k.id), rid, f"{fi.key}:save-before-seek", "position saved before seeking", "the stream is moved before its position is saved", fi.loc(k.ast))
        rep.check(all(g.must_pass(g.entry.id, r.id, {k.id}) for r in reads), rid, f"{fi.key}:seek-before-read", "seek(self) precedes every target read",
                  "the target can be read without seeking to the pointer's address", fi.loc())
        rep.check(g.must_pass(k.id, g.exit.id, rs) and all(g.must_pass(r.id, g.exit.id, rs) for r in reads), rid, f"{fi.key}:restore",
                  "every normal path after the seek restores the saved position before returning",
                  "a path returns after seeking without restoring the stream position: a dereference would move the stream", fi.loc())
        absolute = [c for c in node_calls(k, "seek")]
        rep.check(all(len(c.args) == 1 for c in absolute), rid, f"{fi.key}:absolute", "address is an absolute stream offset",
                  "the address is not used as an absolute offset", fi.loc(k.ast))
    # char targets
    arms = [n for n in g.nodes if n.kind == "if" and "Char" in norm(n.ast.test) and "issubclass" in norm(n.ast.test)]
    rep.check(bool(arms) and any("_read_0" in norm(s) for s in arms[0].ast.body) and any("_read(" in norm(s) and "_read_0" not in norm(s) for s in arms[0].ast.orelse),
              rid, f"{fi.key}:char", "char targets use _read_0, others _read", "char pointers are no longer read as NUL-terminated strings (or others no longer via _read)", fi.loc())
    # caching
    cache = [n for n in g.nodes if n.kind == "stmt" and isinstance(n.ast, ast.Assign) and norm(n.ast.targets[0]) == f"{me}._value"]
    gate = [n for n in g.nodes if n.kind == "if" and f"{me}._value is None" in norm(n.ast.test)]
    rets = [n for n in g.nodes if n.kind == "stmt" and isinstance(n.ast, ast.Return)]
    ok = len(cache) == 1 and bool(gate) and all(norm(r.ast.value) == f"{me}._value" for r in rets) and bool(reads) and \
        all(g.must_pass(g.entry.id, r.id, {gate[0].id}) for r in reads) and all(g.must_pass(r.id, g.exit.id, {cache[0].id}) for r in reads)
    rep.check(ok, rid, f"{fi.key}:cache", "read once (guarded by _value is None), cached after the read, cached value returned",
              "dereference is not stable on repeated access: the read is not gated by the cache or its result is not cached/returned", fi.loc())


def dereference_rule(repo: Repo, rep: Report, rid: str) -> None:
    rep.rule(rid, "dereference discipline: the null / stream-less guard raises NullPointerDereference before any stream use; position is saved, "
                  "the stream seeks to the address, the target is read (char targets as NUL-terminated string), the position is restored on "
                  "every path and the result cached")
    fi = repo.func("types/pointer.py", "Pointer.dereference")
    from ..folds import fold_dereference

    fold = fold_dereference(repo)
    if fold is not None:
        for label in ("struct target", "char target", "void target", "null pointer", "no stream", "stream already at the address", "target value 0 (falsy)",
                      "empty string target (falsy)"):
            bad = [b for b in fold["bad"] if b[0] == label]
            rep.check(not bad, rid, f"{fi.key}:fold:{label}", "two consecutive dereferences folded: target read once at the absolute address through the remembered "
                      "stream, stream position restored, value cached (char targets as NUL-terminated strings; void / null / stream-less pointers never read)",
                      f"Pointer.dereference, case '{label}': results {bad[0][1] if bad else ''}, target reads {bad[0][2] if bad else ''} leaving the stream at "
                      f"{bad[0][3] if bad else ''}; expected results {bad[0][4] if bad else ''} and reads {bad[0][5] if bad else ''} leaving it at {bad[0][6] if bad else ''}", fi.loc())
    else:
        _dereference_structural(repo, rep, rid, fi)
    wr = repo.func("types/pointer.py", "Pointer._write")
    rep.check(len(wr.body) == 1 and isinstance(wr.body[0], ast.Return) and norm(wr.body[0].value) == f"{wr.self_name}.cs.pointer._write({wr.params[1]}, {wr.params[2]})",
              rid, f"{wr.key}:unchanged", "address written back unchanged", "Pointer._write alters the address before writing", wr.loc())
    new = repo.func("types/pointer.py", "Pointer.__new__")
    st = {norm(s.targets[0]): norm(s.value) for s in walk_body(new.node.body) if isinstance(s, ast.Assign) and isinstance(s.targets[0], ast.Attribute)}
    rets_new = [r for r in walk_body(new.node.body) if isinstance(r, ast.Return) and isinstance(r.value, ast.Name)]
    obj = rets_new[-1].value.id if rets_new else "obj"  # the object under construction is whatever __new__ returns
    rep.check(st.get(f"{obj}._stream") == new.params[2] and st.get(f"{obj}._context") == new.params[3] and st.get(f"{obj}._value") == "None", rid,
              f"{new.key}:fields", "stores stream, context; cache empty", f"Pointer.__new__ stores {st}", new.loc())


# readers that may parse from a private copy of bytes taken off the caller's stream, with the reason
REWRAP_ALLOWED = {
    "types/structure.py:UnionMetaType._read_fields": "a fixed-size union parses every member from one private buffer of exactly cls.size bytes (members are views of it)",
}
FIXTURE_REWRAP = "def _read_array(cls, stream, count, context=None):\n    buf = io.BytesIO(stream.read(cls.size * count))\n    return [cls._read(buf, context) for _ in range(count)]\n"


def _rewraps(fn: ast.FunctionDef) -> list[ast.Call]:
    """BytesIO(...) built from bytes that were just read off one of the function's stream parameters."""
    from ..util import resolve_local

    params = {a.arg for a in fn.args.args}
    out = []
    for c in ast.walk(fn):
        if isinstance(c, ast.Call) and call_name(c) == "BytesIO" and c.args:
            src = resolve_local(fn, c.args[0]) if isinstance(c.args[0], ast.Name) else c.args[0]
            for r in ast.walk(src) if src is not None else []:
                if isinstance(r, ast.Call) and call_name(r) == "read" and isinstance(r.func, ast.Attribute) and isinstance(r.func.value, ast.Name) and r.func.value.id in params:
                    out.append(c)
                    break
    return out


def stream_identity_rule(repo: Repo, rep: Report, rid: str) -> None:
    rep.rule(rid, "a pointer remembers the stream it was parsed from, so readers hand the caller's own stream down to element and field readers: no reader "
                  "re-wraps bytes it read from its stream parameter in a new BytesIO (one named exception: the fixed-size union's private buffer)")
    if len(_rewraps(ast.parse(FIXTURE_REWRAP).body[0])) != 1:
        raise AnalysisError("stream re-wrap matcher no longer recognises its positive fixture")
    rep.ok(rid, "fixture:BytesIO(stream.read(n)) handed to cls._read", "matcher recognises the positive fixture", "", nontrivial=False)
    seen_allowed = 0
    for fi in repo.all_functions():
        if not fi.module.rel.startswith("types/") and fi.module.rel != "compiler.py":
            continue
        for c in _rewraps(fi.node):
            if fi.key in REWRAP_ALLOWED:
                seen_allowed += 1
                rep.ok(rid, f"{fi.key}:{short(c, 50)}", f"allowed: {REWRAP_ALLOWED[fi.key]}", fi.loc(c))
            else:
                rep.fail(rid, f"{fi.key}:{short(c, 50)}", f"{fi.qualname} parses from '{short(c, 50)}', a private copy of bytes read off its stream parameter: a Pointer "
                                                      "created by the nested reader keeps that temporary buffer as its stream, so dereferencing seeks to the "
                                                      "absolute address inside a buffer that only holds these bytes", fi.loc(c))
    rep.floor(rid, "confirmed private-buffer readers", seen_allowed, 1)


def pointer_default_rule(repo: Repo, rep: Report, rid: str) -> None:
    rep.rule(rid, "the configured pointer type wins: the expression cstruct.__init__ resolves into self.pointer, evaluated for a given / absent 'pointer' "
                  "argument on a 64-bit and on a 32-bit sys.maxsize, is the argument when one is given and uint64 / uint32 otherwise")
    from ..minieval import Evaluator, Raised, Refused, Sym, UserFunc
    from ..util import resolve_local

    fi = repo.func("cstruct.py", "cstruct.__init__")
    stores = [st for st in ast.walk(fi.node) if isinstance(st, (ast.Assign, ast.AnnAssign)) and
              any(norm(t) == f"{fi.self_name}.pointer" for t in (st.targets if isinstance(st, ast.Assign) else [st.target]))]
    if len(stores) != 1 or stores[0].value is None:
        rep.fail(rid, f"{fi.key}:pointer", f"expected one store to self.pointer in cstruct.__init__, found {len(stores)}", fi.loc())
        return
    val = stores[0].value
    arg = val.args[0] if isinstance(val, ast.Call) and call_name(val) == "resolve" and val.args else val
    env0 = {q: UserFunc(f.node) for q, f in fi.module.functions.items() if "." not in q}
    bad = []
    try:
        for given in (None, "uint16", "uint64", "uint8"):
            for maxsize, default in ((2**63 - 1, "uint64"), (2**31 - 1, "uint32")):
                env = dict(env0)
                env.update({"pointer": given, "sys": Sym("sys", {"maxsize": maxsize})})
                # follow the locals the argument is built from (e.g. 'pointer = pointer or <default>' above the store)
                body = []
                for st in fi.node.body:
                    if st is stores[0] or any(st is x for x in ast.walk(stores[0])):
                        break
                    if isinstance(st, (ast.Assign, ast.AnnAssign)) and any(isinstance(t, ast.Name) for t in (st.targets if isinstance(st, ast.Assign) else [st.target])):
                        body.append(st)
                ev = Evaluator(env, steps=4000)
                for st in body:
                    try:
                        ev.run([st], env)
                    except (Refused, Raised):
                        pass
                got = ev.ev(arg, env)
                want = given or default
                if got != want:
                    bad.append((given, "64-bit" if maxsize > 2**32 else "32-bit", got, want))
    except (Refused, Raised):
        rep.ok(rid, f"{fi.key}:pointer", "not foldable with the evaluator's whitelist", fi.loc(), nontrivial=False)
        return
    rep.check(not bad, rid, f"{fi.key}:pointer", "8 (argument, platform) cases: the argument wins, the platform default otherwise",
              f"cstruct(pointer={bad[0][0]!r}) on a {bad[0][1]} interpreter resolves {bad[0][2]!r} as pointer type, expected {bad[0][3]!r}: every pointer field then has "
              "the wrong width" if bad else "", fi.loc(stores[0]))


def whole_buffer_rule(repo: Repo, rep: Report, rid: str) -> None:
    rep.rule(rid, "a value parsed from a bytes-like object sees the whole object as its stream: MetaType.reads wraps its argument itself in the BytesIO it "
                  "parses from - not a slice of it: pointers keep that stream and dereference absolute offsets behind the value's own bytes")
    fi = repo.func("types/base.py", "MetaType.reads")
    data = fi.params[1] if len(fi.params) > 1 else "data"
    from ..util import resolve_local

    wraps = [c for c in ast.walk(fi.node) if isinstance(c, ast.Call) and call_name(c) == "BytesIO"]
    ok = bool(wraps)
    why = "no BytesIO(...) found"
    for c in wraps:
        a0 = resolve_local(fi.node, c.args[0]) if c.args and isinstance(c.args[0], ast.Name) else (c.args[0] if c.args else None)
        whole = a0 is not None and (norm(a0) == data or (isinstance(a0, ast.Call) and call_name(a0) in ("bytes", "memoryview", "bytearray") and a0.args and norm(a0.args[0]) == data))
        if not whole or any(isinstance(x, ast.Subscript) and norm(x.value) == data for x in ast.walk(fi.node)):
            ok, why = False, f"'{short(c, 50)}' (or a slice of '{data}' elsewhere in the function)"
    rep.check(ok, rid, f"{fi.key}:whole-buffer", "BytesIO(<the argument itself>)", f"MetaType.reads parses from {why}: a pointer in the parsed value can no longer "
              "reach what lies behind the value's own bytes in the caller's buffer", fi.loc())


def pointer_new_rule(repo: Repo, rep: Report, rid: str) -> None:
    rep.rule(rid, "a pointer object holds the address it was given: Pointer.__new__ folded over 4 widths x 8 addresses (in range, at and beyond 2**width, "
                  "negative, beyond 2**64) keeps the address, the stream and the context unchanged and caches no target - arithmetic on a pointer is "
                  "integer arithmetic on the address, the result is not wrapped to the pointer's width")
    from ..folds import fold_pointer_new

    fi = repo.func("types/pointer.py", "Pointer.__new__")
    fold = fold_pointer_new(repo)
    if fold is None:
        rep.ok(rid, f"{fi.key}:fold", "not foldable with the evaluator's whitelist", fi.loc(), nontrivial=False)
        return
    bad = fold["bad"]
    rep.check(not bad, rid, f"{fi.key}:fold", f"{fold['cases']} (width, address) cases keep the address",
              (f"Pointer.__new__ of a {bad[0][0]}-byte pointer type given the address {bad[0][1]:#x}: {bad[0][2]}, expected {bad[0][3]}: the pointer then dereferences "
               "another offset than the one computed") if bad else "", fi.loc())


def run(repo: Repo, rep: Report, tier: str) -> None:
    from .compiled import compiled_fold_rule

    compiled_fold_rule(repo, rep, "C16.R7", tier)
    config_rule(repo, rep, "C16.R1")
    construction_parity_rule(repo, rep, "C16.R2")
    arithmetic_rule(repo, rep, "C16.R3")
    dereference_rule(repo, rep, "C16.R4")
    stream_identity_rule(repo, rep, "C16.R5")
    from .c05 import codec_fold_rule

    codec_fold_rule(repo, rep, "C16.R6", slots=("_read_0",))
    from .memo import memo_rule

    memo_rule(repo, rep, "C16.R8")
    pointer_default_rule(repo, rep, "C16.R9")
    from .c18 import offsets_before_compile_rule

    offsets_before_compile_rule(repo, rep, "C16.R10")
    whole_buffer_rule(repo, rep, "C16.R11")
    pointer_new_rule(repo, rep, "C16.R12")
