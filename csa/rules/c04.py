"""C04 - structure layout follows C rules; declared size = bytes read = bytes written."""

from __future__ import annotations

import ast
import re
import struct as _struct_mod

from .. import templates as T
from ..cfg import CFG
from ..model import FuncInfo, Repo
from ..report import Report
from ..tables import kwargs_of, typedef_table
from ..util import AnalysisError, call_name, chain, const_value, is_const, names_loaded, norm, parent_map, short, walk_body
from .compiled import shape_of

# ---------------------------------------------------------------------------------------------------------------
# R1: the built-in type table against an independent width / signedness oracle

# reference derived from C / Windows / GNU / IDA naming conventions (LLP64 for `long`, as documented by the library)
ALIAS_ORACLE_FIXED = {
    "signed char": ("int", 8, True), "unsigned char": ("char|int", 8, False),
    "short": ("int", 16, True), "signed short": ("int", 16, True), "unsigned short": ("int", 16, False),
    "int": ("int", 32, True), "signed int": ("int", 32, True), "unsigned int": ("int", 32, False),
    "long": ("int", 32, True), "signed long": ("int", 32, True), "unsigned long": ("int", 32, False),
    "long long": ("int", 64, True), "signed long long": ("int", 64, True), "unsigned long long": ("int", 64, False),
    "BYTE": ("int", 8, False), "WORD": ("int", 16, False), "DWORD": ("int", 32, False), "QWORD": ("int", 64, False),
    "OWORD": ("int", 128, False), "CHAR": ("char", 8, None), "WCHAR": ("wchar", 16, None), "wchar_t": ("wchar", 16, None),
    "SHORT": ("int", 16, True), "LONG": ("int", 32, True), "LONG32": ("int", 32, True), "LONG64": ("int", 64, True),
    "LONGLONG": ("int", 64, True), "UCHAR": ("int", 8, False), "USHORT": ("int", 16, False), "ULONG": ("int", 32, False),
    "ULONG64": ("int", 64, False), "ULONGLONG": ("int", 64, False), "INT": ("int", 32, True), "UINT": ("int", 32, False),
    "uchar": ("int", 8, False), "ushort": ("int", 16, False), "uint": ("int", 32, False), "ulong": ("int", 32, False),
}
ALIAS_ORACLE_PATTERNS = [
    (re.compile(r"^(u?)int(\d+)_t$"), lambda m: ("int", int(m.group(2)), m.group(1) == "")),
    (re.compile(r"^(U?)INT(\d+)$"), lambda m: ("int", int(m.group(2)), m.group(1) == "")),
    (re.compile(r"^__int(\d+)$"), lambda m: ("int", int(m.group(1)), True)),
    (re.compile(r"^unsigned __int(\d+)$"), lambda m: ("int", int(m.group(1)), False)),
    (re.compile(r"^__u(\d+)$"), lambda m: ("int", int(m.group(1)), False)),
    (re.compile(r"^__s(\d+)$"), lambda m: ("int", int(m.group(1)), True)),
    (re.compile(r"^u(1|2|4|8|16)$"), lambda m: ("int", int(m.group(1)) * 8, False)),  # byte counts (u1..u16)
    (re.compile(r"^[us](32|64|128)$"), lambda m: ("int", int(m.group(1)), m.group(0)[0] == "s")),  # bit counts
    (re.compile(r"^_(BYTE|WORD|DWORD|QWORD|OWORD)$"), lambda m: ALIAS_ORACLE_FIXED[m.group(1)]),
]
PACKCHAR_INT = {"b": (8, True), "B": (8, False), "h": (16, True), "H": (16, False), "i": (32, True), "I": (32, False),
                "q": (64, True), "Q": (64, False)}
PACKCHAR_FLOAT = {"e": 16, "f": 32, "d": 64}
FLOAT_NAMES = {"float16": 16, "float": 32, "double": 64}


def _expected_alignment(size_bytes: int) -> int:
    a = 1
    while a < size_bytes:
        a *= 2
    return a


def _ctor_facts(key: str, v: ast.Call):
    """-> dict(kind, bits, signed, alignment, name) for a constructor entry, folding constant arguments."""
    fn = call_name(v)
    args = v.args
    kw = kwargs_of(v)
    facts = {"factory": fn, "name": const_value(args[0]) if args and is_const(args[0]) else None}
    if fn == "_make_packed_type":
        pc = const_value(args[1])
        size = _struct_mod.calcsize("<" + pc)
        facts.update(kind="float" if pc in PACKCHAR_FLOAT else "int", bits=size * 8, packchar=pc, base=norm(args[2]),
                     signed=PACKCHAR_INT.get(pc, (None, None))[1],
                     alignment=const_value(kw["alignment"]) if "alignment" in kw else size)
    elif fn == "_make_int_type":
        size = const_value(args[1])
        facts.update(kind="int", bits=size * 8, signed=const_value(args[2]),
                     alignment=const_value(kw["alignment"]) if "alignment" in kw and const_value(kw["alignment"]) else size)
    elif fn == "_make_type":
        bases = [norm(b) for b in args[1].elts] if isinstance(args[1], (ast.Tuple, ast.List)) else [norm(args[1])]
        size = const_value(args[2])
        attrs = {}
        if "attrs" in kw and isinstance(kw["attrs"], ast.Dict):
            attrs = {const_value(k): const_value(val) for k, val in zip(kw["attrs"].keys, kw["attrs"].values) if is_const(k) and is_const(val)}
        kind = {"Char": "char", "Wchar": "wchar", "Void": "void", "LEB128": "leb128"}.get(bases[0], bases[0])
        facts.update(kind=kind, bits=None if size is None else size * 8, signed=attrs.get("signed"),
                     alignment=const_value(kw["alignment"]) if "alignment" in kw and const_value(kw["alignment"]) else size)
    else:
        raise AnalysisError(f"type table entry '{key}' uses an unknown factory {fn}")
    return facts


def type_table_rule(repo: Repo, rep: Report, rid: str) -> None:
    rep.rule(rid, "built-in type table vs an independent C width/signedness oracle: constructor entries (size, sign, alignment, "
                  "name == key) and every alias chain resolves to the constructor entry its name promises")
    table = typedef_table(repo)
    mod = repo.module("cstruct.py")
    ctors: dict[str, dict] = {}
    aliases: dict[str, str] = {}
    for key, kn, v in table:
        if not isinstance(key, str):
            rep.fail(rid, f"cstruct.py:typedefs:{norm(kn)}", "non-string key in the type table", f"{mod.path}:{kn.lineno}")
            continue
        if isinstance(v, ast.Constant) and isinstance(v.value, str):
            aliases[key] = v.value
        elif isinstance(v, ast.Call):
            ctors[key] = _ctor_facts(key, v)
            ctors[key]["lineno"] = v.lineno
        else:
            raise AnalysisError(f"type table entry '{key}' is neither a constructor call nor an alias string")
    rep.floor(rid, "constructor entries in the type table", len(ctors), 22)
    rep.floor(rid, "alias entries in the type table", len(aliases), 82)
    lines = {key: kn.lineno for key, kn, _ in table}

    for key, f in ctors.items():
        ck = f"cstruct.py:typedefs:{key}"
        loc = f"{mod.path}:{f['lineno']}"
        problems = []
        if f["name"] != key:
            problems.append(f"constructed with name {f['name']!r} (the class __name__ every repr, array name and stub uses)")
        m = re.match(r"^(u?)int(\d+)$", key)
        if m:
            bits, signed = int(m.group(2)), m.group(1) == ""
            if f["kind"] != "int" or f["bits"] != bits or f["signed"] != signed:
                problems.append(f"expected a {bits}-bit {'signed' if signed else 'unsigned'} integer, table builds kind={f['kind']} "
                                f"bits={f['bits']} signed={f['signed']}")
            if f["factory"] == "_make_packed_type" and f.get("base") != "int":
                problems.append(f"integer built on base {f.get('base')}")
            exp_al = _expected_alignment(bits // 8)
            if f["alignment"] != exp_al:
                problems.append(f"alignment {f['alignment']} (C natural alignment of a {bits // 8}-byte scalar is {exp_al})")
        elif key in FLOAT_NAMES:
            if f["kind"] != "float" or f["bits"] != FLOAT_NAMES[key] or f.get("base") != "float":
                problems.append(f"expected IEEE-754 binary{FLOAT_NAMES[key]}, table builds kind={f['kind']} bits={f['bits']} base={f.get('base')}")
            if f["alignment"] != FLOAT_NAMES[key] // 8:
                problems.append(f"alignment {f['alignment']}")
        elif key in ("char", "wchar", "void"):
            exp = {"char": ("char", 8), "wchar": ("wchar", 16), "void": ("void", 0)}[key]
            if (f["kind"], f["bits"]) != exp:
                problems.append(f"expected {exp}, got ({f['kind']}, {f['bits']})")
            if key != "void" and f["alignment"] != exp[1] // 8:
                problems.append(f"alignment {f['alignment']}")
        elif key in ("uleb128", "ileb128"):
            if f["kind"] != "leb128" or f["bits"] is not None or f["signed"] != (key == "ileb128"):
                problems.append(f"expected dynamic LEB128 signed={key == 'ileb128'}, got kind={f['kind']} bits={f['bits']} signed={f['signed']}")
        else:
            rep.note(f"type table constructor '{key}' is outside the reference (not judged)")
            continue
        if problems:
            rep.fail(rid, ck, "; ".join(problems), loc)
        else:
            rep.ok(rid, ck, f"{f['kind']} bits={f['bits']} signed={f['signed']} alignment={f['alignment']}", loc)

    def resolve(name: str) -> str | None:
        for _ in range(10):
            if name in ctors:
                return name
            if name not in aliases:
                return None
            name = aliases[name]
        return None

    for key, tgt in aliases.items():
        ck = f"cstruct.py:typedefs:{key}"
        loc = f"{mod.path}:{lines[key]}"
        exp = ALIAS_ORACLE_FIXED.get(key)
        if exp is None:
            for rx, fn in ALIAS_ORACLE_PATTERNS:
                m = rx.match(key)
                if m:
                    exp = fn(m)
                    break
        final = resolve(tgt)
        if final is None:
            rep.fail(rid, ck, f"alias '{key}' -> '{tgt}' does not resolve to a built-in type (dangling or cyclic)", loc)
            continue
        if exp is None:
            rep.note(f"alias '{key}' is outside the reference (resolves to {final}; not judged)")
            continue
        f = ctors[final]
        kinds, bits, signed = exp
        okk = f["kind"] in kinds.split("|") and f["bits"] == bits and (signed is None or f["kind"] != "int" or f["signed"] == signed)
        rep.check(okk, rid, ck, f"-> {final}: {f['kind']} {f['bits']} bits signed={f['signed']}",
                  f"alias '{key}' must denote a {bits}-bit {'signed ' if signed else 'unsigned ' if signed is False else ''}{kinds}, "
                  f"but resolves to '{final}' ({f['kind']}, {f['bits']} bits, signed={f['signed']})", loc)


# ---------------------------------------------------------------------------------------------------------------
# R4: canonical round-up idiom

ALIGN_WORDS = ("alignment", "align")


def _mentions_alignment(e: ast.AST) -> bool:
    for n in ast.walk(e):
        if isinstance(n, ast.Name) and (any(w in n.id.lower() for w in ALIGN_WORDS)):
            return True
        if isinstance(n, ast.Attribute) and any(w in n.attr.lower() for w in ALIGN_WORDS):
            return True
    return False


def roundup_candidates(fn_node: ast.AST):
    """Loose match: any `&` / `%` with an alignment-derived operand (but not the  `(A - 1)` sub-expression itself)."""
    pm = parent_map(fn_node)
    for n in ast.walk(fn_node):
        if isinstance(n, ast.BinOp) and isinstance(n.op, (ast.BitAnd, ast.Mod)) and (_mentions_alignment(n.left) or _mentions_alignment(n.right)):
            yield n, pm


def judge_roundup(n: ast.BinOp):
    """Strict: must be  -X & (A - 1)  (or the equivalent  -X % A).  -> (ok, X-text, A-text, why)"""
    l, r = n.left, n.right
    if isinstance(n.op, ast.Mod):
        if isinstance(l, ast.UnaryOp) and isinstance(l.op, ast.USub) and _mentions_alignment(r) and not _mentions_alignment(l.operand) \
                and isinstance(r, (ast.Name, ast.Attribute)):
            return True, norm(l.operand), norm(r), ""
        return False, norm(l), norm(r), f"'{norm(n)}' is not a padding computation (-X % A): X % A is the remainder"
    if not (isinstance(l, ast.UnaryOp) and isinstance(l.op, ast.USub)):
        return False, norm(l), norm(r), f"left operand '{norm(l)}' is not negated: X & (A-1) is the remainder, -X & (A-1) is the padding"
    if not (isinstance(r, ast.BinOp) and isinstance(r.op, ast.Sub) and is_const(r.right) and const_value(r.right) == 1):
        return False, norm(l.operand), norm(r), f"mask '{norm(r)}' is not of the form (A - 1)"
    if not _mentions_alignment(r.left):
        return False, norm(l.operand), norm(r.left), f"mask base '{norm(r.left)}' is not an alignment"
    if _mentions_alignment(l.operand):
        return False, norm(l.operand), norm(r.left), "the rounded quantity is itself an alignment"
    return True, norm(l.operand), norm(r.left), ""


def roundup_rule(repo: Repo, rep: Report, rid: str) -> int:
    rep.rule(rid, "every '&'/'%' with an alignment operand (source and reader templates) is the round-up idiom -X & (A - 1), and its "
                  "result is added to X, used as a relative seek or as a pad length")
    count = 0
    funcs = [f for f in repo.all_functions() if f.module.rel in ("types/structure.py", "compiler.py")]
    for fi in funcs:
        if fi.kind == "nested" and fi.parent is not None:
            pass
        seen = set()
        for st in fi.node.body:
            if isinstance(st, (ast.FunctionDef, ast.AsyncFunctionDef)):
                continue
            for n, pm in roundup_candidates(st):
                if id(n) in seen:
                    continue
                seen.add(id(n))
                # skip candidates inside an f-string (handled by the template harvest)
                p = pm.get(n)
                inside_f = False
                while p is not None:
                    if isinstance(p, ast.JoinedStr):
                        inside_f = True
                    p = pm.get(p)
                if inside_f:
                    continue
                count += 1
                ok, x, a, why = judge_roundup(n)
                key = f"{fi.key}:{short(n, 70)}"
                if not ok:
                    rep.fail(rid, key, why, fi.loc(n))
                    continue
                use = _roundup_use(n, pm, x)
                rep.check(use is not None, rid, key, f"pads {x} to {a}: {use}", f"result of the round-up of {x} is not added to {x}, "
                          "seeked relatively or written as padding", fi.loc(n))
    fn, used = T.reader_skeleton(repo)
    gen_loc = repo.func("compiler.py", "_ReadSourceGenerator._generate_fields").loc()
    for n, pm in roundup_candidates(fn):
        count += 1
        ok, x, a, why = judge_roundup(n)
        key = f"compiler.py:<generated>._read:{short(n, 70)}"
        loc = f"{repo.module('compiler.py').path}:{getattr(n, 'lineno', 0)}"
        if not ok:
            rep.fail(rid, key, why, loc)
            continue
        use = _roundup_use(n, pm, x)
        rep.check(use is not None, rid, key, f"pads {x} to {a}: {use}", "round-up result unused as relative seek", loc)
    return count


def _roundup_use(n: ast.BinOp, pm, x: str) -> str | None:
    p = pm.get(n)
    # parenthesised / walrus:  (drift := -X & (A-1)) > 0
    if isinstance(p, ast.NamedExpr):
        return f"bound to {p.target.id} and compared/used as drift"
    if isinstance(p, ast.AugAssign) and isinstance(p.op, ast.Add) and norm(p.target) == x:
        return f"{x} += ..."
    if isinstance(p, ast.Assign):
        return f"assigned to {norm(p.targets[0])} (pad length)"
    if isinstance(p, ast.Call) and call_name(p) == "seek" and len(p.args) == 2 and p.args[0] is n:
        w = norm(p.args[1])
        if "SEEK_CUR" in w or w == "1":
            return "relative seek (SEEK_CUR)"
        return None
    if isinstance(p, ast.BinOp) and isinstance(p.op, ast.Mult):
        return "pad length (bytes * n)"
    if isinstance(p, ast.BinOp) and isinstance(p.op, ast.Add):
        return "added to the offset"
    return None


# ---------------------------------------------------------------------------------------------------------------

def _find_assign(fi: FuncInfo, target_text: str) -> list[ast.stmt]:
    out = []
    for n in walk_body(fi.node.body):
        if isinstance(n, ast.Assign) and any(norm(t) == target_text for t in n.targets):
            out.append(n)
        elif isinstance(n, ast.AugAssign) and norm(n.target) == target_text:
            out.append(n)
    return out


def _dict_value(d: ast.AST, key: str) -> ast.AST | None:
    if isinstance(d, ast.Dict):
        for k, v in zip(d.keys, d.values):
            if isinstance(k, ast.Constant) and k.value == key:
                return v
    return None


def _names_attrs(e: ast.AST) -> set[str]:
    out = set()
    for n in ast.walk(e):
        c = chain(n) if isinstance(n, (ast.Attribute, ast.Name)) else None
        if c:
            out.add(".".join(c))
    return out


def _make_array_structural(repo: Repo, rep: Report, ob, fi) -> None:
    size_defs = [x for x in walk_body(fi.node.body) if isinstance(x, ast.Assign) and norm(x.targets[0]) == "size"]
    vals = [norm(x.value) for x in size_defs]
    prod = [x for x in size_defs if isinstance(x.value, ast.BinOp) and isinstance(x.value.op, ast.Mult)
            and {norm(x.value.left), norm(x.value.right)} == {"num_entries", "type_.size"}]
    ob(len(prod) == 1 and all(v == "None" for v in vals if v != norm(prod[0].value)) and len(size_defs) >= 3,
       f"{fi.key}:size", "size is None or num_entries * type_.size", f"array size definitions are {vals}", fi.loc())
    # None exactly when null-terminated / expression-sized / dynamic element: check the guards of the two None arms
    g = CFG(fi.node)
    tests = [norm(x.ast.test) for x in g.nodes if x.kind == "if"]
    ob(any("num_entries is None" in t for t in tests) and any("Expression" in t and "dynamic" in t for t in tests),
       f"{fi.key}:dynamic-arms", "size None iff null-terminated, expression-sized or dynamic element",
       f"conditions selecting a dynamic array size changed: {tests}", fi.loc())
    mk = [c for c in walk_body(fi.node.body) if isinstance(c, ast.Call) and call_name(c) == "_make_type"]
    ob(bool(mk) and norm(kwargs_of(mk[0]).get("alignment") or ast.Constant(0)) == "type_.alignment" and norm(mk[0].args[2]) == "size",
       f"{fi.key}:alignment", "array alignment is the element alignment", "array alignment is not the element alignment (type_.alignment)", fi.loc())


def provenance_rule(repo: Repo, rep: Report, rid: str) -> None:
    rep.rule(rid, "size / alignment provenance of every type factory (obligation per factory)")
    n = 0

    def ob(cond: bool, key: str, okmsg: str, failmsg: str, loc: str) -> None:
        nonlocal n
        n += 1
        rep.check(cond, rid, key, okmsg, failmsg, loc)

    # _make_type
    fi = repo.func("cstruct.py", "cstruct._make_type")
    dicts = [x for x in walk_body(fi.node.body) if isinstance(x, ast.Dict)]
    d = next((x for x in dicts if _dict_value(x, "size") is not None), None)
    if d is None:
        raise AnalysisError("cstruct._make_type: attribute dict with 'size' not found")
    v = _dict_value(d, "size")
    ob(isinstance(v, ast.Name) and v.id == "size", f"{fi.key}:attrs['size']", "size attribute is the size parameter",
       f"'size' attribute is '{norm(v)}', not the size parameter", fi.loc(v))
    v = _dict_value(d, "alignment")
    ob(v is not None and isinstance(v, (ast.BoolOp, ast.IfExp)) and {"alignment", "size"} <= names_loaded(v) and names_loaded(v) <= {"alignment", "size"}
       and (not isinstance(v, ast.BoolOp) or (isinstance(v.op, ast.Or) and norm(v.values[0]) == "alignment")),
       f"{fi.key}:attrs['alignment']", "alignment defaults to the size", f"'alignment' attribute is '{norm(v)}' (must be alignment, falling back to size)", fi.loc(v))
    v = _dict_value(d, "dynamic")
    ob(v is not None and norm(v) in ("size is None", "size == None"), f"{fi.key}:attrs['dynamic']", "dynamic iff size is None",
       f"'dynamic' attribute is '{norm(v)}'", fi.loc(v))
    v = _dict_value(d, "cs")
    ob(v is not None and norm(v) == fi.self_name, f"{fi.key}:attrs['cs']", "type bound to this cstruct", f"'cs' attribute is '{norm(v)}'", fi.loc(d))

    # _make_packed_type: size = struct.calcsize(packchar)
    fi = repo.func("cstruct.py", "cstruct._make_packed_type")
    mk = [c for c in walk_body(fi.node.body) if isinstance(c, ast.Call) and call_name(c) == "_make_type"]
    from ..util import resolve_local as _rl4

    szarg = _rl4(fi.node, mk[0].args[2]) if mk and len(mk[0].args) >= 3 else None
    ob(isinstance(szarg, ast.Call) and call_name(szarg) == "calcsize" and bool(szarg.args)
       and norm(_rl4(fi.node, szarg.args[0])) == "packchar", f"{fi.key}:size", "size = struct.calcsize(packchar)",
       "packed type size is not struct.calcsize(packchar)", fi.loc())
    attrs = kwargs_of(mk[0]).get("attrs") if mk else None
    ob(attrs is not None and _dict_value(attrs, "packchar") is not None and norm(_dict_value(attrs, "packchar")) == "packchar",
       f"{fi.key}:packchar", "packchar attribute is the parameter", "packchar attribute not set from the parameter", fi.loc())

    # _make_int_type: signed
    fi = repo.func("cstruct.py", "cstruct._make_int_type")
    mk = [c for c in walk_body(fi.node.body) if isinstance(c, ast.Call) and call_name(c) == "_make_type"]
    attrs = kwargs_of(mk[0]).get("attrs") if mk else None
    ob(bool(mk) and norm(mk[0].args[2]) == "size" and attrs is not None and norm(_dict_value(attrs, "signed") or ast.Constant(0)) == "signed"
       and norm(kwargs_of(mk[0]).get("alignment") or ast.Constant(0)) == "alignment",
       f"{fi.key}:size/signed/alignment", "size, signed, alignment forwarded unchanged", "Int factory does not forward size/signed/alignment unchanged", fi.loc())

    # _make_array
    fi = repo.func("cstruct.py", "cstruct._make_array")
    from ..folds import fold_make_array

    fold = fold_make_array(repo)
    if fold is not None:
        ob(not fold["size_bad"], f"{fi.key}:size", f"folded over {fold['cases']} (element kind, count kind) cases: size is count * element size for a static "
           "element and an integer count", f"array size: {fold['size_bad'][:1]}", fi.loc())
        dyn = [x for x in fold["size_bad"] if "expected None" in str(x)] + fold["attrs_bad"]
        ob(not dyn, f"{fi.key}:dynamic-arms", "size None iff null-terminated, expression-sized or dynamic element; type / num_entries recorded",
           f"conditions selecting a dynamic array size changed: {dyn[:1]}", fi.loc())
        ob(not fold["align_bad"], f"{fi.key}:alignment", "array alignment is the element alignment",
           f"array alignment is not the element alignment (type_.alignment): {fold['align_bad'][:1]}", fi.loc())
    else:
        _make_array_structural(repo, rep, ob, fi)

    # _make_pointer
    fi = repo.func("cstruct.py", "cstruct._make_pointer")
    mk = [c for c in walk_body(fi.node.body) if isinstance(c, ast.Call) and call_name(c) == "_make_type"]
    ob(bool(mk) and norm(mk[0].args[2]) == "self.pointer.size" and norm(kwargs_of(mk[0]).get("alignment") or ast.Constant(0)) == "self.pointer.alignment",
       f"{fi.key}:size/alignment", "pointer size and alignment come from the configured pointer type",
       "pointer size/alignment no longer come from self.pointer", fi.loc())

    # Enum / Flag copy size, alignment, dynamic from the underlying type
    fi = repo.func("types/enum.py", "EnumMetaType.__call__")
    for attr in ("size", "alignment", "dynamic", "type"):
        asg = [x for x in walk_body(fi.node.body) if isinstance(x, ast.Assign) and isinstance(x.targets[0], ast.Attribute) and x.targets[0].attr == attr]
        exp = "type_" if attr == "type" else f"type_.{attr}"
        ob(len(asg) == 1 and norm(asg[0].value) == exp, f"{fi.key}:{attr}", f"enum {attr} copied from the underlying type",
           f"enum class attribute '{attr}' is not copied from the underlying type ({[norm(a.value) for a in asg]})", fi.loc())

    # Field.alignment
    fi = repo.func("types/structure.py", "Field.__init__")
    asg = [x for x in walk_body(fi.node.body) if isinstance(x, ast.Assign) and norm(x.targets[0]) == "self.alignment"]
    ob(len(asg) == 1 and isinstance(asg[0].value, ast.BoolOp) and isinstance(asg[0].value.op, ast.Or) and norm(asg[0].value.values[0]) == "type_.alignment"
       and is_const(asg[0].value.values[1]) and const_value(asg[0].value.values[1]) == 1, f"{fi.key}:alignment",
       "field alignment = type alignment or 1", f"Field.alignment is {[norm(a.value) for a in asg]}", fi.loc())

    # struct size/alignment = the pair returned by the calculator
    fi = repo.func("types/structure.py", "StructureMetaType._update_fields")
    calls = [x for x in walk_body(fi.node.body) if isinstance(x, ast.Assign) and isinstance(x.value, ast.Call)
             and call_name(x.value) == "_calculate_size_and_offsets"]
    okpair = bool(calls) and all(isinstance(c.targets[0], ast.Tuple) and [norm(e) for e in c.targets[0].elts] == ["size", "alignment"] for c in calls)
    cd = {norm(x.targets[0]): norm(x.value) for x in walk_body(fi.node.body) if isinstance(x, ast.Assign) and norm(x.targets[0]).startswith("classdict[")}
    from .c18 import update_fields_fold

    uf = update_fields_fold(repo)
    if uf is not None:
        bad = [b_ for b_ in uf["bad"] if "class dict differs" in b_[1] and any(k_ in b_[1] for k_ in ("'size'", "'alignment'", "'dynamic'"))] + \
              [b_ for b_ in uf["bad"] if "offset calculation" in b_[1]]
        ob(not bad, f"{fi.key}:size/alignment/dynamic", f"folded over {uf['cases']} cases: the class dict holds the calculator's size and alignment, dynamic is 'size is None'",
           f"class size/alignment/dynamic are not the calculator's results: {bad[0][0] if bad else ''}: {bad[0][1] if bad else ''}", fi.loc())
        rep.floor(rid, "provenance obligations", n, 11)
        return
    ob(okpair and cd.get("classdict['size']") == "size" and cd.get("classdict['alignment']") == "alignment" and cd.get("classdict['dynamic']") == "size is None",
       f"{fi.key}:size/alignment/dynamic", "class size/alignment/dynamic are the calculator's results",
       f"class size/alignment/dynamic are not the calculator's results: {cd.get(chr(99)+'lassdict[' + chr(39) + 'size' + chr(39) + ']')}", fi.loc())
    rep.floor(rid, "provenance obligations", n, 11)


def calculator_rule(repo: Repo, rep: Report, rid: str) -> None:
    rep.rule(rid, "layout calculator ordering: per-field round-up precedes every consumer of the offset, struct alignment is the running "
                  "max on every iteration, fields advance by their length, tail padding uses the struct alignment")
    n = 0
    fi = repo.func("types/structure.py", "StructureMetaType._calculate_size_and_offsets")
    g = CFG(fi.node)
    loops = [x for x in g.nodes if x.kind == "for"]
    if len(loops) != 1:
        raise AnalysisError(f"{fi.key}: expected one field loop, found {len(loops)}")
    loop = loops[0]
    in_loop = g.reachable(loop.id, first_edge="loop", avoid={loop.id})

    def ob(cond, key, okm, failm, node=None):
        nonlocal n
        n += 1
        rep.check(bool(cond), rid, f"{fi.key}:{key}", okm, failm, fi.loc(node))

    # (a) per-field round-up under `align and offset is not None`
    ru = []
    for x in g.nodes:
        if x.id in in_loop and x.kind == "stmt" and isinstance(x.ast, (ast.AugAssign, ast.Assign)):
            for c, _ in roundup_candidates(x.ast):
                ok, X, A, _w = judge_roundup(c)
                if ok and "field" in A:
                    ru.append((x, X, A))
    ob(len(ru) == 1 and ru[0][1] == "offset" and isinstance(ru[0][0].ast, ast.AugAssign) and isinstance(ru[0][0].ast.op, ast.Add),
       "field round-up", "offset += -offset & (field.alignment - 1) inside the loop", f"per-field round-up statement not found / ambiguous ({len(ru)})")
    if len(ru) == 1:
        run = ru[0][0]
        guard = [x for x in g.nodes if x.kind == "if" and run.ast in x.ast.body]
        ob(len(guard) == 1 and names_loaded(guard[0].ast.test) >= {"align", "offset"} and "offset is not None" in norm(guard[0].ast.test)
           and isinstance(guard[0].ast.test, ast.BoolOp) and isinstance(guard[0].ast.test.op, ast.And),
           "field round-up guard", "guarded by align and offset is not None", "round-up is not guarded by (align and offset is not None)", run.ast)
        gnode = guard[0] if guard else run
        consumers = [x for x in g.nodes if x.id in in_loop and x.kind == "stmt" and isinstance(x.ast, ast.Assign)
                     and norm(x.ast.targets[-1]) in ("field.offset", "bits_field_offset") and "offset" in names_loaded(x.ast.value) | {norm(x.ast.value)}
                     and norm(x.ast.value) in ("offset", "bits_field_offset")]
        ob(len(consumers) >= 2 and all(g.must_pass(loop.id, c.id, {gnode.id}) for c in consumers), "round-up before consumers",
           f"the round-up guard dominates all {len(consumers)} stores of the field offset within an iteration",
           "a store of the field offset can be reached in an iteration without passing the alignment round-up")
    # (b) alignment = max(alignment, field.alignment) on every iteration
    mx = [x for x in g.nodes if x.id in in_loop and x.kind == "stmt" and isinstance(x.ast, ast.Assign) and norm(x.ast.targets[0]) == "alignment"
          and isinstance(x.ast.value, ast.Call) and call_name(x.ast.value) == "max" and {norm(a) for a in x.ast.value.args} == {"alignment", "field.alignment"}]
    ob(len(mx) == 1 and loop.id not in g.reachable(loop.id, first_edge="loop", avoid={mx[0].id}), "struct alignment",
       "alignment = max(alignment, field.alignment) on every iteration", "the struct alignment is not the running max over every field")
    # (c) non-bit advance by len(field.type)
    adv = [x for x in g.nodes if x.id in in_loop and x.kind == "stmt" and isinstance(x.ast, ast.AugAssign) and norm(x.ast.target) == "offset" and isinstance(x.ast.op, ast.Add)]
    adv_vals = {norm(x.ast.value) for x in adv}
    len_bind = any(isinstance(s, ast.Assign) and norm(s.value) == "len(field.type)" and norm(s.targets[0]) in adv_vals for s in walk_body(fi.node.body))
    ob(len_bind or "len(field.type)" in adv_vals, "field advance", "non-bit fields advance the offset by len(field.type)",
       f"no 'offset += len(field.type)' (advances found: {sorted(adv_vals)})")
    # (d) a new bit unit advances by bits_type.size and has size*8 bits
    ob("bits_type.size" in adv_vals, "unit advance", "a new bit-field unit advances the offset by bits_type.size",
       f"a new unit does not advance by the storage type size (advances: {sorted(adv_vals)})")
    bc = [s for s in walk_body(fi.node.body) if isinstance(s, ast.Assign) and norm(s.targets[0]) in ("bits_count", "bits_remaining")
          and isinstance(s.value, ast.BinOp) and isinstance(s.value.op, ast.Mult)]
    ob(any({norm(s.value.left), norm(s.value.right)} == {"bits_type.size", "8"} for s in bc), "unit width", "a unit holds bits_type.size * 8 bits",
       "unit capacity is not bits_type.size * 8")
    # (e) tail round-up after the loop with the struct alignment
    after = g.reachable(loop.id, first_edge="done")
    tail = []
    for x in g.nodes:
        if x.id in after and x.id not in in_loop and x.kind == "stmt" and isinstance(x.ast, (ast.AugAssign, ast.Assign)):
            for c, _ in roundup_candidates(x.ast):
                ok, X, A, _w = judge_roundup(c)
                if ok:
                    tail.append((x, X, A))
    ob(len(tail) == 1 and tail[0][1] == "offset" and tail[0][2] == "alignment", "tail padding", "offset += -offset & (alignment - 1) after the loop",
       f"tail padding must round the size up to the struct alignment ({[(t[1], t[2]) for t in tail]})")
    if len(tail) == 1:
        guard = [x for x in g.nodes if x.kind == "if" and tail[0][0].ast in x.ast.body]
        ob(len(guard) == 1 and "offset is not None" in norm(guard[0].ast.test) and "align" in names_loaded(guard[0].ast.test), "tail guard",
           "guarded by align and offset is not None", "tail padding not guarded by (align and offset is not None)")
    rets = [x for x in g.nodes if x.kind == "stmt" and isinstance(x.ast, ast.Return)]
    ob(len(rets) == 1 and norm(rets[0].ast.value) in ("(offset, alignment)", "offset, alignment"), "result", "returns (offset, alignment)",
       f"returns {[norm(r.ast.value) for r in rets]}")

    # union variant
    fu = repo.func("types/structure.py", "UnionMetaType._calculate_size_and_offsets")
    gu = CFG(fu.node)
    loops = [x for x in gu.nodes if x.kind == "for"]
    if len(loops) != 1:
        raise AnalysisError(f"{fu.key}: expected one loop")
    lu = loops[0]
    in_u = gu.reachable(lu.id, first_edge="loop", avoid={lu.id})

    def obu(cond, key, okm, failm):
        nonlocal n
        n += 1
        rep.check(bool(cond), rid, f"{fu.key}:{key}", okm, failm, fu.loc())

    mxs = [x for x in gu.nodes if x.id in in_u and x.kind == "stmt" and isinstance(x.ast, ast.Assign) and norm(x.ast.targets[0]) == "size"
           and isinstance(x.ast.value, ast.Call) and call_name(x.ast.value) == "max" and {norm(a) for a in x.ast.value.args} == {"len(field.type)", "size"}]
    obu(len(mxs) == 1, "size", "size = max(len(field.type), size)", "union size is not the max over member sizes")
    mxa = [x for x in gu.nodes if x.id in in_u and x.kind == "stmt" and isinstance(x.ast, ast.Assign) and norm(x.ast.targets[0]) == "alignment"
           and isinstance(x.ast.value, ast.Call) and call_name(x.ast.value) == "max" and {norm(a) for a in x.ast.value.args} == {"alignment", "field.alignment"}]
    obu(len(mxa) == 1 and lu.id not in gu.reachable(lu.id, first_edge="loop", avoid={mxa[0].id}), "alignment",
        "alignment = max(field.alignment, alignment) on every iteration", "union alignment is not the running max over every member")
    tail = []
    for x in gu.nodes:
        if x.id not in in_u and x.kind == "stmt" and isinstance(x.ast, (ast.AugAssign, ast.Assign)):
            for c, _ in roundup_candidates(x.ast):
                ok, X, A, _w = judge_roundup(c)
                if ok:
                    tail.append((X, A))
    obu(tail == [("size", "alignment")], "tail padding", "size += -size & (alignment - 1)", f"union tail padding changed: {tail}")
    rep.floor(rid, "calculator obligations", n, 11)


def size_source_rule(repo: Repo, rep: Report, rid: str) -> None:
    rep.rule(rid, "single source of size: len(T) returns cls.size (TypeError when dynamic), Enum/Flag use the same __len__, sizeof pushes len(resolve(type))")
    fi = repo.func("types/base.py", "MetaType.__len__")
    rets = [x for x in walk_body(fi.node.body) if isinstance(x, ast.Return)]
    vals = {norm(r.value) for r in rets}
    g = CFG(fi.node)
    size_ret = [x for x in g.nodes if x.kind == "stmt" and isinstance(x.ast, ast.Return) and norm(x.ast.value) == "cls.size"]
    none_guard = [x for x in g.nodes if x.kind == "if" and norm(x.ast.test) in ("cls.size is None", "cls.dynamic") and
                  any(isinstance(s, ast.Raise) for s in x.ast.body)]
    from ..folds import fold_len

    lf = fold_len(repo)
    if lf is not None:
        bad = lf["bad"]
        rep.check(not bad, rid, f"{fi.key}:return", "folded: the size for fixed-size types (0 included), TypeError for dynamic ones",
                  f"len(T) for a type with {bad[0][0] if bad else ''} gives {bad[0][1] if bad else ''}, expected {bad[0][2] if bad else ''}", fi.loc())
    else:
        rep.check(bool(size_ret) and vals <= {"cls.size", "0"} and bool(none_guard) and all(g.must_pass(g.entry.id, r.id, {none_guard[0].id}) for r in size_ret),
                  rid, f"{fi.key}:return", "returns cls.size after raising for dynamic types",
                  f"len(T) no longer returns cls.size behind a dynamic-size guard (returns {sorted(vals)})", fi.loc())
    for fam in ("Enum", "Flag"):
        f = repo.lookup_method(fam, "__len__")
        # instance __len__ of IntEnum does not exist; the class-level len(T) goes through the metaclass
        m = repo.lookup_instance_method("EnumMetaType", "__len__")
        rep.check(m is not None and m.key == fi.key, rid, f"types/enum.py:EnumMetaType.__len__:{fam}", "EnumMetaType.__len__ is MetaType.__len__",
                  f"len({fam} type) resolves to {m.key if m else None}, not MetaType.__len__", repo.cls("EnumMetaType").module.path + ":1")
    ev = repo.func("expression.py", "Expression.evaluate")
    from ..exprfold import fold_expression

    ef = fold_expression(repo)
    if ef is not None:
        # the expression fold evaluates sizeof(T) alone and inside larger expressions against the model's type sizes
        bad = [b for b in ef["bad"] if "sizeof" in str(b[0])]
        rep.check(not bad, rid, f"{ev.key}:sizeof", "folded: sizeof(T) is the size of the resolved type", f"'{bad[0][0] if bad else ''}' evaluates to {bad[0][3] if bad else ''}, "
                  f"the reference gives {bad[0][4] if bad else ''}", ev.loc())
        return
    g = CFG(ev.node)
    arms = [x for x in g.nodes if x.kind == "if" and "'sizeof'" in norm(x.ast.test)]
    ok = False
    detail = "sizeof arm not found"
    if arms:
        pushes = [c for s in arms[0].ast.body for c in ast.walk(s) if isinstance(c, ast.Call) and call_name(c) == "append"]
        for p in pushes:
            a = p.args[0] if p.args else None
            if isinstance(a, ast.Call) and norm(a.func) == "len" and isinstance(a.args[0], ast.Call) and call_name(a.args[0]) == "resolve":
                ok = True
                detail = f"pushes {short(a, 60)}"
        if not ok:
            detail = f"sizeof arm pushes {[short(p, 50) for p in pushes]} instead of len(resolve(<type token>))"
    rep.check(ok, rid, f"{ev.key}:sizeof", detail, detail, ev.loc(arms[0].ast if arms else None))


FIXTURE_MEMO = (
    "def _make_pointer(self, target):\n"
    "    if (ptr := self._cache.get(target)) is None:\n"
    "        ptr = self._cache[target] = self._make_type(target.__name__, (Pointer,), self.pointer.size, alignment=self.pointer.alignment)\n"
    "    return ptr\n"
)


def _memo_gaps(fn: ast.FunctionDef) -> list[tuple[ast.AST, str, set[str]]]:
    """Stores of a factory's result into a mapping on the instance whose key leaves out instance state the result was computed from."""
    me = fn.args.args[0].arg if fn.args.args else "self"
    out = []
    stores = []
    for st in walk_body(fn.body):
        if isinstance(st, ast.Assign):
            for t in st.targets:
                if isinstance(t, ast.Subscript) and (chain(t.value) or ("",))[0] == me:
                    stores.append((st, t))
        elif isinstance(st, ast.Call) and isinstance(st.func, ast.Attribute) and st.func.attr == "setdefault" and (chain(st.func.value) or ("",))[0] == me and st.args:
            stores.append((st, ast.Subscript(value=st.func.value, slice=st.args[0], ctx=ast.Store())))
    if not stores:
        return out
    memo_attrs = {(chain(t.value) or ("", ""))[1] for _, t in stores if len(chain(t.value) or ()) > 1}
    state = set()
    for x in walk_body(fn.body):
        if isinstance(x, ast.Attribute) and isinstance(x.value, ast.Name) and x.value.id == me and isinstance(x.ctx, ast.Load):
            if x.attr in memo_attrs or x.attr.startswith("_make_") or x.attr in ("_make_type", "resolve"):
                continue
            state.add(x.attr)
    for st, t in stores:
        key_attrs = {x.attr for x in ast.walk(t.slice) if isinstance(x, ast.Attribute) and isinstance(x.value, ast.Name) and x.value.id == me}
        missing = state - key_attrs
        if missing:
            out.append((st, norm(t.value), missing))
    return out


def memo_key_rule(repo: Repo, rep: Report, rid: str) -> None:
    rep.rule(rid, "a type factory that memoises its result on the cstruct instance keys the memo by every piece of instance state the type's size / "
                  "alignment was computed from (e.g. the configured pointer type): otherwise a type created under an earlier configuration is handed out "
                  "with a stale size")
    fx = _memo_gaps(ast.parse(FIXTURE_MEMO).body[0])
    if len(fx) != 1 or fx[0][2] != {"pointer"}:
        raise AnalysisError("memo-key matcher no longer recognises its positive fixture")
    rep.ok(rid, "fixture:_make_pointer memo keyed by target only", "matcher recognises the positive fixture", "", nontrivial=False)
    n = 0
    for fi in repo.cls("cstruct").methods.values():
        if not fi.name.startswith("_make_"):
            continue
        n += 1
        gaps = _memo_gaps(fi.node)
        rep.check(not gaps, rid, f"{fi.key}:memo-key", "no memo, or a memo keyed by all the instance state it depends on",
                  f"{fi.qualname} memoises its result in '{gaps[0][1] if gaps else ''}' but the key leaves out self.{sorted(gaps[0][2]) if gaps else ''}, which "
                  "the size / alignment of the created type is computed from: after that configuration changes the stale type (old size) is reused while "
                  "reading and writing follow the new configuration", fi.loc(gaps[0][0]) if gaps else fi.loc())
    rep.floor(rid, "type factories", n, 6)


def layout_fold_rule(repo: Repo, rep: Report, rid: str, max_len: int = 2, part: str = "both") -> None:
    rep.rule(rid, f"layout calculators, bounded-exhaustive: StructureMetaType / UnionMetaType._calculate_size_and_offsets interpreted on every sequence of up to "
                  f"{max_len} field kinds (17 kinds: scalars, odd-sized and dynamic types, enum, bit-fields of several storage types, explicit offsets) plus "
                  "longer fixed sequences, packed and aligned, give the reference size, alignment and per-field offsets (C rules; explicit offsets lead; "
                  "nothing behind a dynamic field has a static offset; a straddling bit-field is refused)")
    from ..folds import fold_struct_layout

    cache = repo.__dict__.setdefault("_layout_folds", {})
    if max_len not in cache:
        cache[max_len] = fold_struct_layout(repo, max_len)
    fold = cache[max_len]
    sfi = repo.func("types/structure.py", "StructureMetaType._calculate_size_and_offsets")
    ufi = repo.func("types/structure.py", "UnionMetaType._calculate_size_and_offsets")
    if fold is None:
        rep.ok(rid, f"{sfi.key}:fold", "not foldable with the evaluator's whitelist: the structural rules decide alone", sfi.loc(), nontrivial=False)
        return
    rep.info["layout_fold_cases"] = fold["cases"]
    if part in ("both", "struct"):
        bad = fold["struct_bad"]
        rep.check(not bad, rid, f"{sfi.key}:fold", f"{fold['cases']} (field sequence, mode) cases agree with the reference layout",
                  f"structure {list(bad[0][0]) if bad else ''} ({bad[0][1] if bad else ''}): calculator gives (size, alignment, offsets) = {bad[0][2] if bad else ''}, "
                  f"reference {bad[0][3] if bad else ''}", sfi.loc())
    if part in ("both", "union"):
        bad = fold["union_bad"]
        rep.check(not bad, rid, f"{ufi.key}:fold", "union size / alignment agree with the reference on every case",
                  f"union {list(bad[0][0]) if bad else ''} ({bad[0][1] if bad else ''}): calculator gives (size, alignment) = {bad[0][2] if bad else ''}, reference "
                  f"{bad[0][3] if bad else ''}", ufi.loc())


def struct_rw_fold_rule(repo: Repo, rep: Report, rid: str, max_len: int = 2) -> None:
    rep.rule(rid, f"interpreted structure reader and writer, bounded-exhaustive: StructureMetaType._read / _write (with the repository's BitBuffer) interpreted "
                  f"on every sequence of up to {max_len} field kinds plus longer fixed ones, packed and aligned, little and big endian, for streams starting at 0 "
                  "and at 16: every field is fetched at start + its reference offset (behind a dynamic field: at the aligned absolute position), bit-fields "
                  "are the C-order bits of their unit, recorded sizes are the type sizes, the reader stops at start + size, and dumping the parsed values "
                  "gives the image back")
    from ..structfold import fold_struct_rw

    cache = repo.__dict__.setdefault("_struct_rw_folds", {})
    if max_len not in cache:
        cache[max_len] = fold_struct_rw(repo, max_len)
    fold = cache[max_len]
    rd = repo.func("types/structure.py", "StructureMetaType._read")
    if fold is None:
        rep.ok(rid, f"{rd.key}:rw-fold", "not foldable with the evaluator's whitelist: the structural rules decide alone", rd.loc(), nontrivial=False)
        return
    rep.info["struct_rw_fold_cases"] = fold["cases"]
    empty = [b_ for b_ in fold["bad"] if not b_[0]]
    other = [b_ for b_ in fold["bad"] if b_[0]]
    rep.check(not other, rid, f"{rd.key}:rw-fold", f"{fold['cases']} cases agree with the reference",
              f"structure {other[0][0] if other else ''} ({', '.join(other[0][1:4]) if other else ''}): {other[0][4] if other else ''}", rd.loc())
    rep.check(not empty, rid, f"{rd.key}:rw-fold:empty structure", "an empty structure consumes nothing and leaves the stream where it was",
              f"empty structure ({', '.join(empty[0][1:4]) if empty else ''}): {empty[0][4] if empty else ''}: the tail alignment computes -tell() & (alignment - 1) with "
              "alignment 0, i.e. -tell(), and seeks back to the start of the stream", rd.loc())


def run(repo: Repo, rep: Report, tier: str) -> None:
    from .compiled import compiled_fold_rule, shape_rule

    compiled_fold_rule(repo, rep, "C04.R16", tier)
    type_table_rule(repo, rep, "C04.R1")
    provenance_rule(repo, rep, "C04.R2")
    calculator_rule(repo, rep, "C04.R3")
    n = roundup_rule(repo, rep, "C04.R4")
    rep.floor("C04.R4", "round-up sites", n, 11)
    size_source_rule(repo, rep, "C04.R5")
    from .c18 import align_flag_rule, offsets_before_compile_rule

    from .c13 import token_parser_shape

    token_parser_shape(repo, rep, align_flag_rule, "C04.R6")
    offsets_before_compile_rule(repo, rep, "C04.R7")
    memo_key_rule(repo, rep, "C04.R8")
    from .c02 import flush_rule
    from .c11 import size_rule

    flush_rule(repo, rep, "C04.R9")
    size_rule(repo, rep, "C04.R10")
    from .memo import memo_rule

    memo_rule(repo, rep, "C04.R11")
    layout_fold_rule(repo, rep, "C04.R12", 3 if tier == "thorough" else 2)
    struct_rw_fold_rule(repo, rep, "C04.R13", 3 if tier == "thorough" else 2)
    from .c09 import zero_alignment_rule

    zero_alignment_rule(repo, rep, "C04.R14")
    from .c03 import block_alignment_rule

    shape_rule(repo, rep, tier, block_alignment_rule, "C04.R15")
    from .c05 import codec_fold_rule as _cfr

    _cfr(repo, rep, "C04.R17")
    from .c13 import loadfile_rule

    loadfile_rule(repo, rep, "C04.R18")
    from .c13 import parser_fold_rule

    parser_fold_rule(repo, rep, "C04.R19")
    from .c07 import generic_write_array_rule

    # arrays of aligned structures: each element is padded relative to the real stream position
    generic_write_array_rule(repo, rep, "C04.R20")
    from .c05 import text_array_fold_rule

    # a char / char[n] member occupies one byte per character whatever the character: the declared size is what is written
    text_array_fold_rule(repo, rep, "C04.R21")
    from .c11 import union_write_fold_rule

    # a union is dumped as exactly its declared size: the largest member plus zero fill
    union_write_fold_rule(repo, rep, "C04.R22")
