"""C03 - the compiled reader is observationally equivalent to the interpreted reader."""

from __future__ import annotations

import ast

from .. import templates as T
from ..callgraph import CallGraph
from ..cfg import CFG
from ..effects import EffectAnalysis
from ..model import Repo
from ..report import Report
from ..tables import module_attr
from ..util import AnalysisError, always_raises, call_name, chain, names_loaded, norm, parent_map, resolve_local, short, walk_body, walk_local
from .compiled import shape_of
from .c02 import node_calls
from .c05 import call_time_rule


def fallback_rule(repo: Repo, rep: Report, rid: str, outcome_decided: bool = False) -> None:
    rep.rule(rid, "fallback discipline: every call that reaches the source generator is inside a try whose handler catches Exception, does not "
                  "re-raise, and leaves the class with the interpreted _read and __compiled__ false; unions are never compiled")
    cg = CallGraph(repo)
    gen = repo.func("compiler.py", "_ReadSourceGenerator.generate")
    reach_gen = cg.callers_closure({gen.key})
    n = 0
    for fi in sorted(repo.all_functions(), key=lambda f: f.key):
        if fi.key == gen.key or fi.qualname.startswith("_ReadSourceGenerator."):
            continue
        binds = cg.local_bindings(fi)
        pm = None
        for c in walk_body(fi.node.body):
            if not isinstance(c, ast.Call):
                continue
            callees, _ = cg.resolve(fi, c, binds)
            # only the first hop into the generator machinery matters: compile_read(...) / generate()
            if not any(x.key in reach_gen and (x.qualname in ("Compiler.compile_read",) or x.key == gen.key) for x in callees):
                continue
            if fi.qualname == "Compiler.compile_read":
                continue  # the thin wrapper itself; its callers are judged
            n += 1
            if pm is None:
                pm = parent_map(fi.node)
            key = f"{fi.key}:{short(c, 70)}"
            tr = None
            p = pm.get(c)
            while p is not None:
                if isinstance(p, ast.Try) and any(c is x for s in p.body for x in ast.walk(s)):
                    tr = p
                    break
                p = pm.get(p)
            if tr is None:
                rep.fail(rid, key, "the call into the source generator is not inside a try: a structure the generator cannot handle would "
                                   "fail to load instead of falling back to the interpreted reader", fi.loc(c))
                continue
            broad = [h for h in tr.handlers if h.type is None or norm(h.type) in ("Exception", "BaseException")]
            if not broad:
                rep.fail(rid, key, f"handlers {[norm(h.type) for h in tr.handlers]} do not catch Exception: generator failures other than those "
                                   f"would propagate instead of falling back", fi.loc(tr))
                continue
            h = broad[0]
            if any(isinstance(x, ast.Raise) for s in h.body for x in walk_local(s)):
                rep.fail(rid, key, "the fallback handler re-raises", fi.loc(h))
                continue
            # success path marks compiled; handler path must not mark compiled and must keep / restore the interpreted reader
            body_txt = " ".join(norm(s) for s in tr.body)
            h_txt = " ".join(norm(s) for s in h.body)
            marks_true = "__compiled__" in body_txt and "True" in body_txt
            handler_marks_true = "__compiled__" in h_txt and "= True" in h_txt
            sets_read_in_body = "_read" in body_txt
            restores = ("_read" in h_txt and "Structure._read" in h_txt) or not _read_assigned_outside_try(fi, tr)
            ok = marks_true and not handler_marks_true and sets_read_in_body and restores
            if outcome_decided and not ok:
                # what the class is left with after a failed (re)compilation is decided by outcome (compiled fold / _update_fields fold): how the
                # success and the failure path spell it - assignments, a returned pair - is free.  The handler's breadth above stays a rule.
                rep.notes.append(f"advisory {rid}: {key}: success / failure bookkeeping is spelled differently (decided by the folds)")
                rep.ok(rid, key, "try/except Exception without re-raise; what the class is left with is decided by the folds", fi.loc(tr), nontrivial=False)
                continue
            rep.check(ok, rid, key, "try/except Exception: success sets _read and __compiled__=True, failure keeps the interpreted reader",
                      "fallback does not leave the class with the interpreted _read and __compiled__ false", fi.loc(tr))
    rep.floor(rid, "call sites into the source generator", n, 2)


def union_guard_rule(repo: Repo, rep: Report, rid: str) -> None:
    comp = repo.func("compiler.py", "Compiler.compile")
    g = CFG(comp.node)
    early = [x for x in g.nodes if x.kind == "if" and "Union" in norm(x.ast.test) and any(isinstance(s, ast.Return) for s in x.ast.body)]
    trys = [x for x in g.nodes if x.kind == "try"]
    ok = bool(early) and bool(trys) and all(g.must_pass(g.entry.id, t.id, {e.id for e in early}) for t in trys)
    if not ok:
        # positive form: everything that compiles sits under 'if not issubclass(structure, Union):'
        from ..boolalg import Formula

        def interp(e: ast.AST):
            if isinstance(e, ast.Call) and call_name(e) == "issubclass" and len(e.args) == 2 and norm(e.args[1]).split(".")[-1] == "Union":
                return "UNION"
            return None

        gates = [x for x in g.nodes if x.kind == "if" and "Union" in norm(x.ast.test) and Formula(x.ast.test, interp).always({"UNION": True}, False)]
        work = [x for x in g.nodes if x.kind in ("try", "stmt") and x.ast is not None and
                any(isinstance(c, ast.Call) and call_name(c) in ("compile_read", "_try_compile", "generate") or (isinstance(c, ast.Call) and "compile" in (call_name(c) or "") and call_name(c) != "compile")
                    for c in ast.walk(x.ast))]
        ok = bool(gates) and bool(work) and all(any(w.id in g.reachable(gt.id, first_edge="T", avoid={gt.id}) and g.must_pass(g.entry.id, w.id, {gt.id}) for gt in gates) for w in work)
    rep.check(ok, rid, f"{comp.key}:union", "unions return before compilation", "Compiler.compile no longer returns unions uncompiled", comp.loc())


def _read_assigned_outside_try(fi, tr: ast.Try) -> bool:
    return False


LAYOUT_ATTRS = {"size", "alignment", "fields", "lookup", "__fields__", "offset", "dynamic", "__align__"}



def _only_selects_reader(p: ast.If) -> bool:
    """The 'if <compiled flag>' statement only chooses between compile(X) and X: 'X = compile(X)' without else, or
    'T = compile(X) else T = X' / 'return compile(X) else return X' (the shape left by a small helper)."""
    def val(st: ast.stmt):
        if isinstance(st, ast.Assign) and len(st.targets) == 1:
            return norm(st.targets[0]), st.value
        if isinstance(st, ast.Return) and st.value is not None:
            return "<return>", st.value
        return None

    if len(p.body) != 1 or len(p.orelse) > 1:
        return False
    b = val(p.body[0])
    if b is None or not (isinstance(b[1], ast.Call) and call_name(b[1]) == "compile" and len(b[1].args) == 1 and not b[1].keywords):
        return False
    arg = norm(b[1].args[0])
    if not p.orelse:
        return b[0] == arg
    e = val(p.orelse[0])
    return e is not None and e[0] == b[0] and norm(e[1]) == arg


def neutral_rule(repo: Repo, rep: Report, rid: str) -> None:
    rep.rule(rid, "compilation is layout-neutral: everything reachable from Compiler.* stores only _read/__compiled__ on the structure (and "
                  "__source__ on the fresh function); the parser's 'compiled' flag only guards st = compiler.compile(st)")
    cg = CallGraph(repo)
    ea = EffectAnalysis(repo, cg)
    roots = [f.key for f in repo.all_functions() if f.module.rel == "compiler.py" and (f.cls is not None or f.kind == "function")]
    clo = cg.closure(roots)
    clo = {k for k in clo if k.startswith("compiler.py:")}
    n = 0
    for k in sorted(clo):
        fi = cg.funcs[k]
        for e in ea.effects(fi):
            if e.root_class in ("fresh", "self-percall", "call-result"):
                continue
            n += 1
            attr = e.attr or ""
            tgt = e.target
            bad = attr in LAYOUT_ATTRS or any(tgt.endswith("." + a) for a in LAYOUT_ATTRS)
            allowed = attr in ("_read", "__compiled__", "__source__") or e.root in ("current_block",)
            key = f"{fi.key}:{e.what} {tgt}"
            if bad:
                rep.fail(rid, key, f"compilation writes layout attribute '{tgt}': compiled and interpreted structures would differ in layout", fi.loc(e.node))
            elif allowed:
                rep.ok(rid, key, "only the reader / its flag is installed", fi.loc(e.node))
            else:
                rep.fail(rid, key, f"compilation writes '{tgt}' on a {e.root_class} object (only _read / __compiled__ are expected)", fi.loc(e.node))
    rep.floor(rid, "stores on non-fresh objects in compiler.py", n, 2)
    # uses of the parser's compiled flag
    nflag = 0
    for cls in ("TokenParser", "CStyleParser"):
        for fi in repo.cls(cls).methods.values():
            g = None
            for x in ast.walk(fi.node):  # local helper functions of a method included
                if isinstance(x, ast.Attribute) and norm(x) == "self.compiled" and isinstance(x.ctx, ast.Load):
                    nflag += 1
                    pm = parent_map(fi.node)
                    p = pm.get(x)
                    while p is not None and not isinstance(p, ast.If):
                        p = pm.get(p)
                    key = f"{fi.key}:self.compiled"
                    ok = isinstance(p, ast.If) and _only_selects_reader(p)
                    rep.check(ok, rid, key, "only guards st = compiler.compile(st)",
                              f"the 'compiled' flag influences more than the choice of reader: '{short(p, 80)}'", fi.loc(x))
    rep.floor(rid, "uses of the compiled flag", nflag, 2)


@shape_of("struct_rw", "compiled")
def bookkeeping_rule(repo: Repo, rep: Report, rid: str, sizes_decided: bool = False) -> None:
    rep.rule(rid, "result bookkeeping parity: the generated reader sets the same attributes on the result (_sizes, _values) as the interpreter; every "
                  "template that stores r[k] for a byte-occupying field stores s[k] with the same key, the bit-field template stores neither s[k]")
    rd = repo.func("types/structure.py", "StructureMetaType._read")
    interp_attrs = {x.targets[0].attr for x in walk_body(rd.node.body) if isinstance(x, ast.Assign) and isinstance(x.targets[0], ast.Attribute)
                    and isinstance(x.targets[0].value, ast.Name) and x.targets[0].value.id == "obj"}
    fn, used = T.reader_skeleton(repo)
    gen_attrs = {x.targets[0].attr for x in ast.walk(fn) if isinstance(x, ast.Assign) and isinstance(x.targets[0], ast.Attribute)
                 and isinstance(x.targets[0].value, ast.Name) and x.targets[0].value.id == "obj"}
    rep.check(interp_attrs == gen_attrs and interp_attrs >= {"_sizes", "_values"}, rid, "compiler.py:<generated>._read:result-attrs",
              f"both set {sorted(interp_attrs)}", f"interpreter sets {sorted(interp_attrs)} on the result, generated reader sets {sorted(gen_attrs)}",
              repo.func("compiler.py", "_ReadSourceGenerator.generate_source").loc())
    # values/sizes dict identity: obj._sizes = s, obj._values = r (sizes dict is the one templates fill)
    pairs = {x.targets[0].attr: norm(x.value) for x in ast.walk(fn) if isinstance(x, ast.Assign) and isinstance(x.targets[0], ast.Attribute)
             and norm(x.targets[0].value) == "obj"}
    rep.check(pairs.get("_sizes") == "s" and pairs.get("_values") == "r", rid, "compiler.py:<generated>._read:result-dicts",
              "obj._sizes = s, obj._values = r", f"result dictionaries are wired as {pairs}", repo.func("compiler.py", "_ReadSourceGenerator.generate_source").loc())
    n = 0
    tpls = [t for t in T.reader_templates(repo) if t.tree is not None and t.kind == "stmt"]
    # group the per-field statement lists: a template itself, or consecutive ``reads.append`` templates of one function
    groups: dict[str, list] = {}
    for t in tpls:
        gkey = f"{t.func.qualname}:{t.role}" if t.role.startswith("append:") else f"{t.func.qualname}:{t.lineno}"
        groups.setdefault(gkey, []).append(t)
    for gkey, ts in groups.items():
        r_keys, s_keys = [], []
        for t in ts:
            for x in ast.walk(t.tree):
                if isinstance(x, ast.Assign) and isinstance(x.targets[0], ast.Subscript) and isinstance(x.targets[0].value, ast.Name):
                    if x.targets[0].value.id == "r":
                        r_keys.append(norm(x.targets[0].slice))
                    elif x.targets[0].value.id == "s":
                        s_keys.append(norm(x.targets[0].slice))
        if not r_keys and not s_keys:
            continue
        n += 1
        t0 = ts[0]
        is_bits = any("bit_reader.read" in t.text for t in ts)
        key = f"compiler.py:{gkey.split(':')[0]}:bookkeeping {'bits' if is_bits else 'bytes'}"
        if is_bits:
            rep.check(not s_keys, rid, key, "bit-field template records a value but no size (as the interpreter)",
                      "the bit-field template records a size: the interpreter records none for bit-fields", t0.loc())
        else:
            rep.check(sorted(r_keys) == sorted(s_keys), rid, key, f"r[{r_keys[0]}] and s[{s_keys[0] if s_keys else '?'}] recorded together",
                      f"template records values for keys {r_keys} but sizes for {s_keys}: _sizes of compiled and interpreted results would differ", t0.loc())
    rep.floor(rid, "per-field templates", n, 4)
    # interpreter: sizes recorded for every non-bit field, none for bit-fields
    g = CFG(rd.node)
    szs = [x for x in g.nodes if x.kind == "stmt" and isinstance(x.ast, ast.Assign) and norm(x.ast.targets[0]).startswith("sizes[")]
    bit_arm = [x for x in g.nodes if x.kind == "if" and norm(x.ast.test) == "field.bits"]
    loops_rd = [x for x in g.nodes if x.kind == "for" and norm(x.ast.iter) == "cls.__fields__"]
    bits_skip = len(szs) == 1 and bool(bit_arm) and bool(loops_rd) and szs[0].id not in g.reachable(bit_arm[0].id, first_edge="T", avoid={loops_rd[0].id})
    rep.check(bits_skip, rid, f"{rd.key}:sizes",
              "interpreter records sizes only for byte-occupying fields", "interpreter size bookkeeping changed shape", rd.loc())
    # size recorded by templates: difference of two tell() around the read, or the static size of the field's type
    for t in tpls:
        for x in ast.walk(t.tree):
            if isinstance(x, ast.Assign) and isinstance(x.targets[0], ast.Subscript) and norm(x.targets[0].value) == "s":
                v = x.value
                hole = resolve_local(t.func.node, t.holes[v.id]) if isinstance(v, ast.Name) and v.id in t.holes else None
                ok = (isinstance(v, ast.BinOp) and isinstance(v.op, ast.Sub) and "stream.tell()" == norm(v.left) and isinstance(v.right, ast.Name)) or \
                     (hole is not None and norm(hole).endswith(".size"))
                if not ok and sizes_decided:
                    # the compiled-reader fold compares the recorded sizes with the reference on every case: how the generator spells them is free
                    rep.notes.append(f"advisory {rid}: {t.key}:size-value: recorded size '{norm(v)}' is spelled differently (the compiled-reader fold decides the sizes)")
                    continue
                rep.check(ok, rid, f"{t.key}:size-value", f"size is {norm(v) if hole is None else norm(hole)}",
                          f"recorded size '{norm(v)}' is neither tell()-difference nor the static size of the field type", t.loc())


def dispatch_rule(repo: Repo, rep: Report, rid: str) -> None:
    rep.rule(rid, "generator type dispatch is exhaustive: every family in SUPPORTED_TYPES (after Enum/Flag/Pointer mapping) is matched by an arm of "
                  "the field generator and of the block packer; every other family reaches the TypeError that triggers the fallback")
    sup = module_attr(repo, "compiler.py", "SUPPORTED_TYPES")
    if not isinstance(sup, (ast.Tuple, ast.List)):
        raise AnalysisError("SUPPORTED_TYPES is not a tuple literal")
    supported = [norm(e) for e in sup.elts]
    fams = repo.families()
    gf = repo.func("compiler.py", "_ReadSourceGenerator._generate_fields")
    # unsupported guard
    g = CFG(gf.node)
    guard = [x for x in g.nodes if x.kind == "if" and "SUPPORTED_TYPES" in norm(x.ast.test) and always_raises(x.ast.body)]
    rep.check(len(guard) == 1 and isinstance(guard[0].ast.test, ast.UnaryOp) and "TypeError" in norm(guard[0].ast.body[-1]), rid,
              f"{gf.key}:unsupported-guard", "types outside SUPPORTED_TYPES raise TypeError", "the unsupported-type guard (raise TypeError) vanished", gf.loc())
    if guard:
        loops = [x for x in g.nodes if x.kind == "for" and norm(x.ast.iter) == "self.fields"]
        ys = [x for x in g.nodes if x.kind == "stmt" and any(isinstance(y, (ast.Yield, ast.YieldFrom)) for y in ast.walk(x.ast))
              and x.id in g.reachable(loops[0].id, first_edge="loop", avoid={loops[0].id})]
        rep.check(all(g.must_pass(loops[0].id, y.id, {guard[0].id}) for y in ys), rid, f"{gf.key}:unsupported-guard:first",
                  "the guard precedes every emission for the field", "code can be emitted for a field before its type is checked against SUPPORTED_TYPES", gf.loc())

    def arm_names(fi) -> set[str]:
        out = set()
        for x in walk_body(fi.node.body):
            if isinstance(x, ast.Call) and call_name(x) in ("issubclass", "isinstance") and len(x.args) == 2:
                t = x.args[1]
                for e in (t.elts if isinstance(t, (ast.Tuple, ast.List)) else [t]):
                    out.add(norm(e))
        return out

    field_arms = arm_names(gf)
    info = repo.func("compiler.py", "_generate_struct_info")
    packed = repo.func("compiler.py", "_ReadSourceGenerator._generate_packed")
    grt = repo.func("compiler.py", "_get_read_type")
    block_arms = arm_names(info) | arm_names(packed)
    map_arms = arm_names(grt)
    n = 0
    for fam in supported:
        n += 1
        base = fam
        key = f"compiler.py:dispatch:{fam}"
        if fam in ("Enum", "Flag"):
            rep.check(fam in map_arms or "EnumMetaType" in field_arms, rid, key, "mapped to its underlying type before dispatch",
                      f"{fam} is in SUPPORTED_TYPES but nothing maps it to its underlying type", grt.loc())
            continue
        if fam == "Pointer":
            rep.check("Pointer" in map_arms and "Pointer" in arm_names(packed), rid, key, "read through cs.pointer, constructed as Pointer",
                      "Pointer is in SUPPORTED_TYPES but is not mapped to cs.pointer / constructed in the block packer", grt.loc())
            continue
        if fam == "Structure":
            rep.check("Structure" in field_arms, rid, key, "own arm in the field generator", "Structure has no arm in the field generator", gf.loc())
            continue
        if fam == "Void":
            rep.check("Void" in block_arms, rid, key, "dropped in the block info", "Void is supported but not handled by the block packer", info.loc())
            continue
        rep.check(fam in block_arms, rid, key, "matched by an arm of the block packer",
                  f"{fam} is in SUPPORTED_TYPES but no issubclass arm of the block packer handles it: it would be silently skipped in compiled readers", info.loc())
    for fam in fams:
        if fam in supported or fam in ("Union",):
            continue
        anc = [b for b in repo.mro(fam) if b in supported]
        rep.check(not anc, rid, f"compiler.py:dispatch:{fam}:unsupported", "falls through to TypeError -> interpreted fallback",
                  f"{fam} is not listed but inherits from supported {anc}: it would be compiled by its parent's arm", gf.loc(), )
    rep.floor(rid, "supported families", n, 12)


def positioning_rule(repo: Repo, rep: Report, rid: str) -> None:
    rep.rule(rid, "every emission path of the source generator positions the stream by the field's recorded offset, as the interpreter does for "
                  "every field: each arm of the per-field dispatch calls align_to_field(field) or compares field.offset with the tracked offset "
                  "before it emits / opens a block")
    gf = repo.func("compiler.py", "_ReadSourceGenerator._generate_fields")
    loops = [l for l in walk_body(gf.node.body) if isinstance(l, ast.For) and norm(l.iter) == "self.fields"]
    if len(loops) != 1:
        raise AnalysisError("_generate_fields: field loop not found")
    # the dispatch chain: the if/elif/else whose first test is an issubclass(field_type, ...) and whose arms emit or collect
    chain_head = None
    for st in loops[0].body:
        if isinstance(st, ast.If) and "issubclass(field_type" in norm(st.test) and any(isinstance(y, (ast.YieldFrom, ast.Yield)) for s2 in st.body for y in ast.walk(s2)):
            chain_head = st
    if chain_head is None:
        raise AnalysisError("_generate_fields: per-field dispatch chain not found")
    arms = []
    cur = chain_head
    while isinstance(cur, ast.If):
        arms.append((short(cur.test, 50), cur.body))
        if len(cur.orelse) == 1 and isinstance(cur.orelse[0], ast.If):
            cur = cur.orelse[0]
        else:
            if cur.orelse:
                arms.append(("else", cur.orelse))
            cur = None
    for label, body in arms:
        txt = [x for s2 in body for x in ast.walk(s2)]
        positions = any(isinstance(x, ast.Call) and call_name(x) == "align_to_field" for x in txt) or \
            any(isinstance(x, ast.Compare) and "field.offset" in norm(x) and "current_offset" in norm(x) for x in txt)
        rep.check(positions, rid, f"{gf.key}:arm {label}", "positions the stream by the recorded field offset",
                  f"arm '{label}' of the generator never looks at field.offset: when the field starts behind a gap (alignment padding after a nested "
                  f"structure, a bit-field unit or an explicit offset) the compiled reader reads it from the wrong position while the interpreted "
                  f"reader seeks to struct_start + field.offset", gf.loc(body[0]))
    rep.floor(rid, "dispatch arms of the generator", len(arms), 4)
    rd = repo.func("types/structure.py", "StructureMetaType._read")
    rstream = rd.node.args.args[1].arg
    starts = {norm(s2.targets[0]) for s2 in rd.node.body if isinstance(s2, ast.Assign) and norm(s2.value) == f"{rstream}.tell()"}
    rep.check(any(isinstance(x, ast.Compare) and "field.offset" in norm(x) and any(st_ in {y.id for y in ast.walk(x) if isinstance(y, ast.Name)} for st_ in starts)
                  for x in walk_body(rd.node.body)), rid,
              f"{rd.key}:positions", "interpreter seeks every field to struct_start + field.offset when it is not already there",
              "the interpreter no longer positions fields by their recorded offset", rd.loc())


def advance_rule(repo: Repo, rep: Report, rid: str) -> None:
    rep.rule(rid, "block layout walker: the offset advance of a field is (element count) x (element size), with the count reaching that product "
                  "unmodified from its definition (1 or num_entries)")
    from ..cfg import ReachingDefs

    fi = repo.func("compiler.py", "_generate_struct_info")
    g = CFG(fi.node)
    rd = ReachingDefs(g, fi.params)
    adv = [n for n in g.nodes if n.kind == "stmt" and isinstance(n.ast, ast.Assign) and norm(n.ast.targets[0]) == "size" and isinstance(n.ast.value, ast.BinOp)
           and isinstance(n.ast.value.op, ast.Mult)]
    if len(adv) != 1:
        raise AnalysisError("_generate_struct_info: 'size = count * read_type.size' not found")
    v = adv[0].ast.value
    sides = {norm(v.left), norm(v.right)}
    rep.check(sides == {"count", "read_type.size"}, rid, f"{fi.key}:advance", "size = count * read_type.size", f"the per-field advance is '{norm(v)}'", fi.loc(adv[0].ast))
    defs = rd.reaching(adv[0].id, "count")
    bad = [short(val, 40) for _nid, val in defs if not (isinstance(val, ast.Constant) and val.value == 1) and not (isinstance(val, ast.Attribute) and val.attr == "num_entries")]
    rep.check(bool(defs) and not bad, rid, f"{fi.key}:count", "count reaches the product as 1 or num_entries",
              f"the element count is modified before the advance is computed ({bad}): the tracked offset runs ahead of the bytes the block really consumes, so the "
              f"padding emitted for later fields of the block is wrong in aligned mode", fi.loc(adv[0].ast))
    imag = [n for n in g.nodes if n.kind == "stmt" and isinstance(n.ast, ast.AugAssign) and norm(n.ast.target) in ("imaginary_offset", "current_offset") and norm(n.ast.value) == "size"]
    rep.check(len(imag) == 2, rid, f"{fi.key}:tracking", "both tracked offsets advance by that size", f"{len(imag)} tracked offsets advance by 'size' (expected 2)", fi.loc())


def block_alignment_rule(repo: Repo, rep: Report, rid: str) -> None:
    rep.rule(rid, "a block whose start is only aligned at run time (aligned mode, field.offset is None) never absorbs a field with a larger alignment "
                  "than its first field: padding inside a block is computed relative to the block start")
    gf = repo.func("compiler.py", "_ReadSourceGenerator._generate_fields")
    info = repo.func("compiler.py", "_generate_struct_info")
    # the assumption is only present while the block-relative padding exists
    rel = [x for x in walk_body(info.node.body) if isinstance(x, ast.BinOp) and isinstance(x.op, ast.BitAnd) and "imaginary_offset" in norm(x)]
    if not rel:
        rep.ok(rid, f"{info.key}:block-relative padding", "no block-relative padding is computed any more", info.loc(), nontrivial=False)
        return
    # block-relative padding is only for fields without a recorded offset: a field with an offset takes its gap from the layout calculation
    pm_info = parent_map(info.node)
    for x in rel:
        conj: list[str] = []
        child, p_ = x, pm_info.get(x)
        while p_ is not None and p_ is not info.node:
            if isinstance(p_, ast.BoolOp) and isinstance(p_.op, ast.And):
                conj += [norm(v) for v in p_.values if v is not child and not any(child is y for y in ast.walk(v))]
            if isinstance(p_, ast.If) and (any(child is y for y in p_.body) or any(any(child is z for z in ast.walk(y)) for y in p_.body) or child is p_.test
                                            or any(child is z for z in ast.walk(p_.test))):
                t_ = p_.test
                conj += [norm(v) for v in (t_.values if isinstance(t_, ast.BoolOp) and isinstance(t_.op, ast.And) else [t_])]
            child, p_ = p_, pm_info.get(p_)
        rep.check("field.offset is None" in conj, rid, f"{info.key}:block-relative padding only without offset",
                  "the block-relative padding applies to fields without a recorded offset only",
                  f"'{short(x, 60)}' pads by the block-relative position also for fields that have a layout offset (conditions: {conj[:4]}): a block only starts "
                  "aligned for its first field, so behind a nested structure / bit-field a later, more strictly aligned member is read from another offset "
                  "than the layout gives it (struct { struct { uint32 x; } hdr; uint32 a; uint64 b; } reads b at 12 instead of 8)", info.loc(x))
    g = CFG(gf.node)
    appends = [n for n in g.nodes if n.kind == "stmt" and any(isinstance(c, ast.Call) and call_name(c) == "append" and norm(c.func.value) == "current_block" for c in ast.walk(n.ast))]
    guards = [n for n in g.nodes if n.kind == "if" and "alignment" in norm(n.ast.test) and "current_block" in norm(n.ast.test) and "field.offset is None" in norm(n.ast.test)
              and any(isinstance(c, ast.Call) and call_name(c) == "flush" for s2 in n.ast.body for c in ast.walk(s2))]
    loops = [x for x in g.nodes if x.kind == "for" and norm(x.ast.iter) == "self.fields"]
    ok = bool(appends) and bool(guards) and all(g.must_pass(loops[0].id, a.id, {x.id for x in guards}) for a in appends)
    cmp_ok = any(isinstance(c, ast.Compare) and isinstance(c.ops[0], (ast.Gt, ast.Lt, ast.GtE, ast.LtE, ast.NotEq)) and "field.alignment" in norm(c) and "current_block[0].alignment" in norm(c)
                 for x in guards for c in ast.walk(x.ast.test))
    rep.check(ok and cmp_ok, rid, f"{gf.key}:block-alignment", "a field with a larger alignment than the block's first field flushes the block first (dynamic offsets)",
              "fields without a static offset are merged into one block although a later one needs stricter alignment than the block start is known to have: "
              "{ uint8 n; uint8 b[n]; uint32 c; uint8 d; uint64 e; } reads e from the wrong position for most n, the interpreted reader aligns on the real position",
              gf.loc(appends[0].ast if appends else None))


def discriminator_rule(repo: Repo, rep: Report, rid: str) -> None:
    rep.rule(rid, "the block packer decides about byte-sliced types on the type the field is *read as* (read_type, Enum/Flag/Pointer unwrapped): every "
                  "issubclass test against Int / Wchar / Char takes read_type, never the declared (element) type")
    pk = repo.func("compiler.py", "_ReadSourceGenerator._generate_packed")
    n = 0
    for c in walk_body(pk.node.body):
        if isinstance(c, ast.Call) and call_name(c) == "issubclass" and len(c.args) == 2:
            classes = [norm(e) for e in (c.args[1].elts if isinstance(c.args[1], (ast.Tuple, ast.List)) else [c.args[1]])]
            if not any(k in ("Int", "Wchar", "Char") for k in classes):
                continue
            n += 1
            subj = norm(c.args[0])
            rep.check(subj == "read_type", rid, f"{pk.key}:{short(c, 60)}", "dispatches on read_type",
                      f"'{short(c, 60)}' tests the declared type '{subj}', but the bytes were sliced according to read_type: for an Enum/Flag over a byte-based "
                      f"Int type (enum E : uint24; E x[2]) the two decisions disagree and the array is split per byte instead of per element", pk.loc(c))
    rep.floor(rid, "byte-sliced type tests in the block packer", n, 3)


def pointer_value_rule(repo: Repo, rep: Report, rid: str) -> None:
    rep.rule(rid, "pointers built by the block packer receive integers: a pointer whose read type is not a struct-packed integer is refused "
                  "(TypeError -> interpreted fallback) before a raw byte slice can reach Pointer.__new__")
    pk = repo.func("compiler.py", "_ReadSourceGenerator._generate_packed")
    g = CFG(pk.node)
    emits = [n for n in g.nodes if n.kind == "stmt" and any(isinstance(x, (ast.Constant, ast.JoinedStr)) and "__new__" in norm(x) and "stream, r" in norm(x) for x in ast.walk(n.ast))]
    guards = set()
    for n in g.nodes:
        if n.kind == "if" and any(isinstance(x, ast.Raise) and "TypeError" in norm(x) for s2 in n.ast.body for x in ast.walk(s2)):
            t = norm(n.ast.test)
            if "Packed" in t and ("pointer" in t.lower() or "Pointer" in t):
                guards.add(n.id)
    loops = [x for x in g.nodes if x.kind == "for"]
    ok = bool(emits) and bool(guards) and all(g.must_pass(loops[0].id, e.id, guards) for e in emits)
    conv = any("cs.pointer(" in norm(x) for e in emits for x in ast.walk(e.ast) if isinstance(x, (ast.Constant, ast.JoinedStr)))
    rep.check(ok or conv, rid, f"{pk.key}:pointer-values", "byte-based pointer types are refused before a pointer is built from the block data",
              "the block packer hands the getter straight to Pointer.__new__: when cs.pointer is a byte-based Int type (uint24, uint128) the getter is a bytes slice "
              "and every parse of the compiled structure raises ValueError, while the interpreted reader works", pk.loc(emits[0].ast if emits else None))
    rep.floor(rid, "pointer constructions in the block packer", len(emits), 2)


def unpack_defined_rule(repo: Repo, rep: Report, rid: str) -> None:
    rep.rule(rid, "generated block reader: 'data' is defined whenever a getter reads it - the 'data = _struct(...).unpack(buf)' line is left out only for "
                  "struct formats that consist of padding alone (the omission test of _generate_packed folded over 14 formats)")
    from ..minieval import Evaluator, Refused

    fi = repo.func("compiler.py", "_ReadSourceGenerator._generate_packed")
    stmts = [st for st in fi.body if isinstance(st, ast.If) and any(
        isinstance(a_, ast.Assign) and isinstance(a_.value, ast.Constant) and a_.value.value == "" for a_ in ast.walk(st))]
    assigns = [st for st in fi.body if isinstance(st, ast.Assign) and isinstance(st.value, ast.IfExp) and any(
        isinstance(c_, ast.Constant) and c_.value == "" for c_ in (st.value.body, st.value.orelse))]
    site = (stmts + assigns)[:1]
    if not site:
        # the unpack line is emitted unconditionally: always defined
        always = any(isinstance(x, ast.JoinedStr) and ".unpack(buf)" in "".join(str(v.value) for v in x.values if isinstance(v, ast.Constant)) for x in walk_body(fi.node.body))
        rep.check(always, rid, f"{fi.key}:unpack-omission", "the unpack line is emitted for every block", "no unpack line found in _generate_packed", fi.loc())
        return
    st = site[0]
    test = st.test if isinstance(st, ast.If) else st.value.test
    names = [x.id for x in ast.walk(test) if isinstance(x, ast.Name) and x.id not in ("len", "set", "all", "any", "str")]
    var = next((a_.targets[0].id for a_ in ast.walk(st) if isinstance(a_, ast.Assign) and isinstance(a_.targets[0], ast.Name)
                and isinstance(a_.value, (ast.Constant, ast.IfExp)) ), None) if isinstance(st, ast.If) else st.targets[0].id
    fmt_assign = next((a_ for a_ in fi.body if isinstance(a_, ast.Assign) and isinstance(a_.value, ast.Call) and call_name(a_.value) == "_optimize_struct_fmt"
                       and isinstance(a_.targets[0], ast.Name)), None)
    if not names or var is None or fmt_assign is None:
        raise AnalysisError("_generate_packed: omission test of the unpack line has no format variable")
    fmtvar = fmt_assign.targets[0].id
    # the statements between the format and the omission decision (named sub-conditions) are folded along
    i0, i1 = fi.body.index(fmt_assign), fi.body.index(st)
    between = [x for x in fi.body[i0 + 1:i1] if isinstance(x, ast.Assign)]
    samples = {"x": True, "4x": True, "12x": True, "130x": True, "B": False, "Bx": False, "Hx": False, "xB": False, "Qx": False, "2Bx": False, "B3x": False,
               "4xI": False, "I4x": False, "2x2H": False}
    bad = None
    try:
        for fmt, pad_only in samples.items():
            # other flags the test consults (a block-level 'some getter slices data') are taken at the value that permits the omission
            defined = {t_.id for a_ in between for t_ in a_.targets if isinstance(t_, ast.Name)}
            env = {**{n_: False for n_ in names if n_ != fmtvar and n_ not in defined}, fmtvar: fmt}
            Evaluator(env).run([*between, st], env)
            omitted = env.get(var) == ""
            if omitted and not pad_only:
                bad = (fmt, "the unpack line is omitted although the format unpacks a value")
                break
    except Refused as e:
        raise AnalysisError(f"_generate_packed: omission test of the unpack line is outside the evaluator's whitelist: {e}") from e
    rep.check(bad is None, rid, f"{fi.key}:unpack-omission", f"omitted only for padding-only formats ({len(samples)} formats folded)",
              f"for the block format '{bad[0] if bad else ''}' {bad[1] if bad else ''}: the getters of that block read data[i], which is then undefined "
              "(NameError at parse time, e.g. struct {{ uint8 a; char b; }}), while the interpreted reader parses the structure", fi.loc(st))


def bit_storage_type_rule(repo: Repo, rep: Report, rid: str) -> None:
    rep.rule(rid, "generated bit-field read: the type handed to bit_reader.read is the field's own storage type (the field's type, '.type' for an "
                  "enum / flag) - the type the generator's unit bookkeeping, the layout calculator and the interpreted reader compare; substituting "
                  "another type there (e.g. uint8 for char) makes the run-time BitBuffer merge units the others keep apart")
    fi = repo.func("compiler.py", "_ReadSourceGenerator._generate_bits")
    # the read-type expression inside the template: bit_reader.read({X}, ...)
    tpl = [x for x in walk_body(fi.node.body) if isinstance(x, ast.JoinedStr) and any(isinstance(v, ast.Constant) and "bit_reader.read(" in str(v.value) for v in x.values)]
    if len(tpl) != 1:
        raise AnalysisError("_generate_bits: template with bit_reader.read( not found")
    vals = tpl[0].values
    idx = next(i for i, v in enumerate(vals) if isinstance(v, ast.Constant) and "bit_reader.read(" in str(v.value))
    hole = vals[idx + 1].value if idx + 1 < len(vals) and isinstance(vals[idx + 1], ast.FormattedValue) else None
    if not isinstance(hole, ast.Name):
        raise AnalysisError("_generate_bits: the type argument of bit_reader.read is not a single hole")
    # what does the local in that hole denote, and what does '_t' denote
    tvar_assign = [v for i, v in enumerate(vals) if isinstance(v, ast.FormattedValue) and i > 0 and isinstance(vals[i - 1], ast.Constant) and str(vals[i - 1].value).rstrip().endswith("_t =")]
    lookup = tvar_assign[0].value.id if tvar_assign and isinstance(tvar_assign[0].value, ast.Name) else None
    defs = {}
    for st in walk_body(fi.node.body):
        if isinstance(st, (ast.Assign, ast.AugAssign)):
            t = st.targets[0] if isinstance(st, ast.Assign) else st.target
            if isinstance(t, ast.Name):
                defs.setdefault(t.id, []).append(st)
    bad = None
    for name in {hole.id, lookup} - {None}:
        for st in defs.get(name, []):
            v = st.value
            ok = (isinstance(v, ast.Call) and call_name(v) == "_map_field") or (isinstance(v, ast.Constant) and v.value in ("_t", ".type")) \
                or (isinstance(st, ast.AugAssign) and isinstance(v, ast.Constant) and v.value == ".type")
            if not ok:
                bad = (name, st)
    rep.check(bad is None, rid, f"{fi.key}:storage-type", "bit_reader.read receives the field's own (enum-unwrapped) type",
              f"'{short(bad[1], 60) if bad else ''}' makes the generated code read the bit-field through another type than the field's storage type: the "
              "run-time BitBuffer then continues a unit where the layout calculator and the interpreted reader open a new one (char a:4; uint8 b:4; "
              "parses b from the wrong byte)", fi.loc(bad[1]) if bad else fi.loc())


def backward_offset_rule(repo: Repo, rep: Report, rid: str) -> None:
    rep.rule(rid, "generated block reader and explicit offsets: a field whose recorded offset lies before the position the running block has reached "
                  "closes the block (the block packer only knows forward gaps, which it pads), so the next block seeks to it as the interpreted reader does")
    fi = repo.func("compiler.py", "_ReadSourceGenerator._generate_fields")
    info = repo.func("compiler.py", "_generate_struct_info")
    # does the block packer handle a negative drift itself?
    handles_negative = False
    for c in walk_body(info.node.body):
        if isinstance(c, ast.Compare) and any("offset" in norm(x) for x in [c.left, *c.comparators]) and any(isinstance(o, (ast.Lt, ast.NotEq, ast.LtE)) for o in c.ops):
            handles_negative = True
    g = CFG(fi.node)
    appends = [n for n in g.nodes if n.kind == "stmt" and node_calls(n, "append", "current_block")]
    if len(appends) != 1:
        raise AnalysisError("_generate_fields: current_block.append site not found")
    guards = [n for n in g.nodes if n.kind == "if" and any(isinstance(c, ast.Compare) and "field.offset" in norm(c) and "current_offset" in norm(c)
                                                            and any(isinstance(o, (ast.Lt, ast.Gt, ast.NotEq)) for o in c.ops) for c in ast.walk(n.ast.test))
              and "current_block" in norm(n.ast.test) and "not current_block" not in norm(n.ast.test)
              and any(isinstance(y, ast.YieldFrom) and call_name(y.value) == "flush" for s_ in n.ast.body for y in ast.walk(s_) if isinstance(y.value, ast.Call))]
    ok = handles_negative or any(g.must_pass(g.entry.id, appends[0].id, {x.id}) or g.dominates(x.id, appends[0].id) for x in guards)
    rep.check(ok, rid, f"{fi.key}:backward-offset", "a field placed before the block's current position starts a new block",
              "a field with an explicit offset smaller than the position the running block has reached is appended to that block: the block packer "
              "ignores the negative gap and reads the fields back to back (wrong values or EOFError), while the interpreted reader seeks back "
              "(Field('a', uint32, offset=4), Field('b', uint16, offset=0))", fi.loc(appends[0].ast))


def run(repo: Repo, rep: Report, tier: str) -> None:
    from .compiled import compiled_fold_rule, fold_decides, shape_rule

    compiled_fold_rule(repo, rep, "C03.R24", tier)
    from .c04 import struct_rw_fold_rule

    # the interpreted reader against the same reference: together with R24 the two readers agree on every case of the folds
    struct_rw_fold_rule(repo, rep, "C03.R25", 3 if tier == "thorough" else 2)
    shape_rule(repo, rep, tier, unpack_defined_rule, "C03.R16")
    shape_rule(repo, rep, tier, bit_storage_type_rule, "C03.R17")
    shape_rule(repo, rep, tier, backward_offset_rule, "C03.R18")
    shape_rule(repo, rep, tier, block_alignment_rule, "C03.R12")
    shape_rule(repo, rep, tier, discriminator_rule, "C03.R13")
    shape_rule(repo, rep, tier, pointer_value_rule, "C03.R14")
    shape_rule(repo, rep, tier, advance_rule, "C03.R11")
    shape_rule(repo, rep, tier, positioning_rule, "C03.R8")
    from .c06 import unit_switch_rule
    from .c18 import offsets_before_compile_rule

    unit_switch_rule(repo, rep, "C03.R9")
    offsets_before_compile_rule(repo, rep, "C03.R10")
    from .c18 import update_fields_fold
    from .compiled import fallback_rule as _fb

    # both sites are decided by outcome where the folds can interpret them: a failed compile() leaves the interpreted reader bound to the class
    # (compiled fold), a failed recompilation puts classmethod(Structure._read.__func__) and __compiled__ = False into the class dict (_update_fields fold)
    fallback_rule(repo, rep, "C03.R1", outcome_decided=fold_decides(repo, tier) and update_fields_fold(repo) is not None)
    union_guard_rule(repo, rep, "C03.R1")  # unions are never compiled: not covered by the folds, always armed
    neutral_rule(repo, rep, "C03.R2")
    bookkeeping_rule(repo, rep, "C03.R3", sizes_decided=fold_decides(repo, tier))
    call_time_rule(repo, rep, "C03.R4")
    shape_rule(repo, rep, tier, dispatch_rule, "C03.R5")
    from .c08 import analyse_read_sites
    from ..callgraph import CallGraph as _CG

    rid = "C03.R6"
    rep.rule(rid, "every block read of the generated reader is length-checked (EOFError) before the bytes are sliced or unpacked")
    tf = T.reader_template_functions(repo)
    cg = _CG(repo, extra_functions=tf)
    k = 0
    for fi in tf:
        for site in analyse_read_sites(cg, fi):
            k += 1
            if site.verdict == "violation":
                rep.fail(rid, site.key, site.detail, fi.loc(site.call))
            else:
                rep.ok(rid, site.key, f"{site.verdict}: {site.detail}", fi.loc(site.call))
    rep.floor(rid, "sized reads in the generated reader", k, 1)
    from .c16 import construction_parity_rule

    construction_parity_rule(repo, rep, "C03.R7")
    from .c02 import flush_rule

    flush_rule(repo, rep, "C03.R15")
    from .c09 import zero_alignment_rule

    zero_alignment_rule(repo, rep, "C03.R19")
    from .c08 import generated_globals_rule
    from .c12 import delegation_rule

    shape_rule(repo, rep, tier, generated_globals_rule, "C03.R20")
    delegation_rule(repo, rep, "C03.R21")
    from .c08 import template_read_check_rule

    shape_rule(repo, rep, tier, template_read_check_rule, "C03.R22")
    from .c09 import absolute_padding_rule

    shape_rule(repo, rep, tier, absolute_padding_rule, "C03.R23")
    from .memo import memo_rule

    memo_rule(repo, rep, "C03.R26")
    from .c05 import codec_fold_rule

    # the generated reader decodes scalars itself (struct.unpack, the type called on a slice): the interpreted reader's own scalar readers must
    # give the standard decoding for the two to agree
    codec_fold_rule(repo, rep, "C03.R27", slots=("_read", "_read_array", "_read_0"))
