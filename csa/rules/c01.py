"""C01 - value round-trip; out-of-range integers are rejected, never truncated or wrapped."""

from __future__ import annotations

import ast

from .. import templates as T
from ..boolalg import Formula
from ..cfg import CFG
from ..model import SLOTS, FuncInfo, Repo
from ..report import Report
from ..util import AnalysisError, always_raises, call_name, chain, norm, parent_map, raised_names, short, walk_body

READ_SLOTS = ("_read", "_read_array", "_read_0")
WRITE_SLOTS = ("_write", "_write_array", "_write_0")
ENC_KEYS = {"cs.endian", "signed", "packchar", "cs.pointer", "__encoding_map__", "null_terminated"}
MERGE = {"CharArray": "Char", "WcharArray": "Wchar"}  # array classes are merged with their element class
LOSSY_FUNCS = {"abs", "int", "min", "max", "round", "divmod", "float"}


# ---------------------------------------------------------------------------------------------------------------
# R1 slot exhaustiveness & pairing

def slot_rule(repo: Repo, rep: Report, rid: str) -> None:
    rep.rule(rid, "every type family resolves all protocol slots; _read/_write are concrete; a family that can parse x[] can dump it")
    table = repo.slot_table()
    n = 0
    for fam, slots in sorted(table.items()):
        for s in SLOTS:
            n += 1
            f = slots[s]
            key = f"slot:{fam}.{s}"
            if f is None:
                rep.fail(rid, key, f"{fam} has no implementation of {s}", repo.cls(fam).module.path)
            elif s in ("_read", "_write") and f.is_abstract():
                rep.fail(rid, key, f"{fam}.{s} resolves to the abstract {f.qualname}", f.loc())
            else:
                rep.ok(rid, key, f"-> {f.qualname}", f.loc(), nontrivial=False)
        r0, w0 = slots["_read_0"], slots["_write_0"]
        if r0 is not None and not r0.is_abstract():
            rep.check(w0 is not None and not w0.is_abstract(), rid, f"slot:{fam}:_read_0/_write_0", "null-terminated form has a writer",
                      f"{fam} can parse x[] ({r0.qualname}) but has no concrete _write_0", r0.loc())
    rep.floor(rid, "family x slot resolutions", n, 13 * 6)


# ---------------------------------------------------------------------------------------------------------------
# R2 codec-key agreement

def _cls_keys(repo: Repo, fam: str, fi: FuncInfo, seen: set[str], depth: int = 0) -> set[str]:
    """cls-rooted configuration keys consulted by ``fi`` and, transitively, by same-class helpers and super() calls."""
    if fi.key in seen or depth > 4:
        return set()
    seen.add(fi.key)
    out: set[str] = set()
    me = fi.self_name
    for n in walk_body(fi.node.body):
        if isinstance(n, ast.Attribute) and isinstance(n.ctx, ast.Load):
            c = chain(n)
            if c and c[0] == me and len(c) >= 2:
                out.add(".".join(c[1:3]) if c[1] == "cs" and len(c) >= 3 else c[1])
            elif c and len(c) == 2 and c[0] in repo.classes and c[1].startswith("__") and c[1].endswith("map__"):
                out.add(c[1])
        if isinstance(n, ast.Call) and isinstance(n.func, ast.Attribute):
            recv = n.func.value
            m = n.func.attr
            if isinstance(recv, ast.Name) and recv.id == me:
                tgt = repo.lookup_method(fam, m)
                if tgt is not None:
                    out |= _cls_keys(repo, fam, tgt, seen, depth + 1)
            elif isinstance(recv, ast.Call) and call_name(recv) == "super" and fi.cls is not None:
                tgt = repo.lookup_method(fam, m, after=fi.cls.name)
                if tgt is not None:
                    out |= _cls_keys(repo, fam, tgt, seen, depth + 1)
    return out


def _delegates_to_element(repo: Repo, fam: str, fi: FuncInfo, seen: set[str], depth: int = 0) -> bool:
    """Does this slot implementation (or a same-class helper / super() it calls) call ``cls.type.<slot>``?"""
    if fi.key in seen or depth > 4:
        return False
    seen.add(fi.key)
    me = fi.self_name
    for n in walk_body(fi.node.body):
        if isinstance(n, ast.Call) and isinstance(n.func, ast.Attribute):
            recv, m = n.func.value, n.func.attr
            if chain(recv) == (me, "type") and m in SLOTS:
                return True
            tgt = None
            if isinstance(recv, ast.Name) and recv.id == me:
                tgt = repo.lookup_method(fam, m)
            elif isinstance(recv, ast.Call) and call_name(recv) == "super" and fi.cls is not None:
                tgt = repo.lookup_method(fam, m, after=fi.cls.name)
            if tgt is not None and _delegates_to_element(repo, fam, tgt, seen, depth + 1):
                return True
    return False


def _element_class(repo: Repo, array_cls: str) -> str | None:
    """The element family whose ``ArrayType`` is this array class (Char -> CharArray, Wchar -> WcharArray)."""
    for c, ci in repo.classes.items():
        v = ci.attrs.get("ArrayType")
        if v is not None and norm(v) == array_cls:
            return c
    return None


def codec_key_rule(repo: Repo, rep: Report, rid: str) -> None:
    rep.rule(rid, "reader side and writer side of one family consult the same encoding keys "
                  "(cs.endian, signed, packchar, cs.pointer, __encoding_map__, null_terminated; 'type' for delegating families); "
                  "a side that delegates to its element type inherits the element's keys")
    table = repo.slot_table()

    def side_keys(fam: str, slots: tuple[str, ...]) -> set[str]:
        out: set[str] = set()
        deleg = False
        for s in slots:
            f = table[fam][s]
            if f is not None:
                out |= _cls_keys(repo, fam, f, set())
                deleg = deleg or _delegates_to_element(repo, fam, f, set())
        elem = _element_class(repo, fam)
        if deleg and elem is not None and elem in table:
            for s in slots:
                f = table[elem][s]
                if f is not None:
                    out |= _cls_keys(repo, elem, f, set())
        return out

    n = 0
    for fam in sorted(table):
        keys = set(ENC_KEYS)
        if repo.metaclass_of(fam) == "EnumMetaType":
            keys |= {"type"}
        r = side_keys(fam, READ_SLOTS) & keys
        w = side_keys(fam, WRITE_SLOTS) & keys
        n += 1
        anchor = table[fam]["_write"] or table[fam]["_read"]
        rep.check(r == w, rid, f"codec-keys:{fam}", f"both sides consult {sorted(r) or '{}'}",
                  f"{fam}: reader side consults {sorted(r)}, writer side consults {sorted(w)} - the two directions of the codec disagree on "
                  f"{sorted(r ^ w)}", anchor.loc() if anchor else "")
    rep.floor(rid, "codec families", n, 13)


# ---------------------------------------------------------------------------------------------------------------
# R3 range-checked encoders, no lossy narrowing

def encoder_rule(repo: Repo, rep: Report, rid: str) -> None:
    rep.rule(rid, "integer writers hand the value unchanged to a range-checking primitive (int.to_bytes with signed=cls.signed, Struct.pack) "
                  "or to the underlying type's writer: no masking / modulo / clamping on the way and no handler swallowing the overflow")
    targets = [("types/int.py", "Int._write"), ("types/packed.py", "Packed._write"), ("types/packed.py", "Packed._write_array"),
               ("types/pointer.py", "Pointer._write"), ("types/enum.py", "EnumMetaType._write"), ("types/enum.py", "EnumMetaType._write_array")]
    n = 0
    for rel, qn in targets:
        fi = repo.func(rel, qn)
        params = [a.arg for a in fi.node.args.args]
        if len(params) < 3:
            raise AnalysisError(f"{fi.key}: expected (cls, stream, value)")
        val = params[2]
        pm = parent_map(fi.node)
        problems: list[str] = []
        sinks: list[str] = []
        tainted = {val}
        # locals derived from the value (e.g. the list of .value in EnumMetaType._write_array)
        for st in walk_body(fi.node.body):
            if isinstance(st, ast.Assign) and any(isinstance(x, ast.Name) and x.id in tainted for x in ast.walk(st.value)):
                for t in st.targets:
                    if isinstance(t, ast.Name):
                        if t.id == val:
                            problems.append(f"value parameter '{val}' is re-assigned: '{short(st, 60)}'")
                        tainted.add(t.id)
        # comprehension variables iterating over the value carry it too (bytes(v & 0xFF for v in data))
        for comp in walk_body(fi.node.body):
            if isinstance(comp, ast.comprehension) and any(isinstance(y, ast.Name) and y.id in tainted for y in ast.walk(comp.iter)):
                tainted |= {y.id for y in ast.walk(comp.target) if isinstance(y, ast.Name)}
        for x in walk_body(fi.node.body):
            if isinstance(x, ast.Name) and x.id in tainted and isinstance(x.ctx, ast.Load):
                p = pm.get(x)
                # climb through attribute .value, starred, comprehension element plumbing
                hops = 0
                node = x
                while p is not None and hops < 6:
                    if isinstance(p, ast.BinOp) and isinstance(p.op, (ast.BitAnd, ast.Mod, ast.RShift, ast.LShift, ast.BitOr, ast.BitXor, ast.FloorDiv)):
                        problems.append(f"'{short(p, 50)}' narrows the value before encoding")
                        break
                    if isinstance(p, ast.Call):
                        cn = call_name(p)
                        if isinstance(p.func, ast.Name) and cn in LOSSY_FUNCS and node in p.args:
                            problems.append(f"'{short(p, 50)}' can alter the value before encoding")
                        elif cn == "pack":
                            sinks.append("Struct.pack")
                        elif cn == "to_bytes" and isinstance(p.func, ast.Attribute) and (p.func.value is node or p.func is node):
                            kw = {k.arg: k.value for k in p.keywords}
                            if "signed" not in kw or norm(kw["signed"]) != f"{fi.self_name}.signed":
                                problems.append(f"to_bytes is not called with signed={fi.self_name}.signed ('{short(p, 70)}')")
                            if not p.args or norm(p.args[0]) != f"{fi.self_name}.size":
                                problems.append(f"to_bytes width is '{norm(p.args[0]) if p.args else None}', not {fi.self_name}.size")
                            sinks.append("int.to_bytes")
                        elif cn in ("_write", "_write_array", "_write_0"):
                            sinks.append(f"delegated {cn}")
                        break
                    if isinstance(p, ast.stmt):
                        break
                    node = p
                    p = pm.get(p)
                    hops += 1
        for t in walk_body(fi.node.body):
            if isinstance(t, ast.Try):
                problems.append("a try statement wraps the encoder: an overflow could be swallowed")
            if isinstance(t, ast.With) and any(isinstance(i.context_expr, ast.Call) and call_name(i.context_expr) == "suppress" for i in t.items):
                problems.append("contextlib.suppress wraps the encoder")
        if not sinks:
            problems.append("the value never reaches a range-checking encoder (to_bytes / pack) or a delegated writer")
        n += 1
        rep.check(not problems, rid, f"{fi.key}:encoder", f"value reaches {sorted(set(sinks))} unchanged", "; ".join(problems), fi.loc())
    rep.floor(rid, "encoder sites", n, 5)


# ---------------------------------------------------------------------------------------------------------------
# R4 static-array size guard

def array_guard_rule(repo: Repo, rep: Report, rid: str) -> None:
    rep.rule(rid, "BaseArray._write refuses a static array whose element count differs: folded over (declared count, value length) cases incl. two "
                  "dimensions - a value of another length raises, the right length reaches _write_array; where the writer cannot be folded, the "
                  "ArraySizeError guard must dominate _write_array")
    fi = repo.func("types/base.py", "BaseArray._write")
    from ..folds import fold_base_array

    fold = fold_base_array(repo)
    if fold is not None:
        bad = [b for b in fold["write_bad"] if b[2] == "raise"]
        rep.check(not bad, rid, f"{fi.key}:size-guard", "every static array value of another length is refused (folded)",
                  ("a static array with the wrong number of elements can reach _write_array without raising ArraySizeError: "
                   f"{bad[0][0]}: {bad[0][1]}") if bad else "", fi.loc())
        return
    g = CFG(fi.node)
    emit = [n for n in g.nodes if n.kind == "stmt" and any(isinstance(c, ast.Call) and call_name(c) == "_write_array" for c in ast.walk(n.ast))]
    if not emit:
        raise AnalysisError("BaseArray._write: call to _write_array not found")
    data = fi.node.args.args[2].arg

    def interp(e: ast.AST):
        if isinstance(e, ast.Compare) and len(e.ops) == 1:
            l, r = e.left, e.comparators[0]
            texts = {norm(l.value if isinstance(l, ast.NamedExpr) else l), norm(r.value if isinstance(r, ast.NamedExpr) else r)}
            if texts == {f"{fi.self_name}.num_entries", f"len({data})"}:
                if isinstance(e.ops[0], ast.NotEq):
                    return "MISMATCH"
                if isinstance(e.ops[0], ast.Eq):
                    return ("not", "MISMATCH")
        if isinstance(e, ast.Attribute) and norm(e) == f"{fi.self_name}.dynamic":
            return "DYNAMIC"
        return None

    guards = set()
    for n in g.nodes:
        if n.kind == "if" and always_raises(n.ast.body) and "ArraySizeError" in raised_names(n.ast.body):
            f = Formula(n.ast.test, interp)
            if f.always({"MISMATCH": True, "DYNAMIC": False}, True):
                guards.add(n.id)
    ok = bool(guards) and all(g.must_pass(g.entry.id, e.id, guards | _null_term_returns(g, fi)) for e in emit)
    rep.check(ok, rid, f"{fi.key}:size-guard", "guard (not dynamic and num_entries != len(data)) -> ArraySizeError dominates _write_array",
              "a static array with the wrong number of elements can reach _write_array without raising ArraySizeError", fi.loc(emit[0].ast))


def _null_term_returns(g: CFG, fi: FuncInfo) -> set[int]:
    return set()


# ---------------------------------------------------------------------------------------------------------------
# R5 layout-key agreement of the three structure walkers

LAYOUT_KEYS = ["field.offset", "field.alignment", "field.bits", "field.type", "field._name", "align-flag", "cls.alignment", "cs.endian"]


def _walker_keys(repo: Repo, funcs: list[FuncInfo], extra_text: str = "") -> set[str]:
    keys: set[str] = set()
    for fi in funcs:
        for n in walk_body(fi.node.body):
            c = chain(n) if isinstance(n, ast.Attribute) else None
            if not c:
                continue
            if c[0] in ("field",) or (len(c) >= 2 and c[-2:-1] == ("field",)):
                keys.add("field." + c[1] if c[0] == "field" else "field." + c[-1])
            if c[-1] == "__align__" or c == ("self", "align"):
                keys.add("align-flag")
            if c[-2:] == ("cs", "endian"):
                keys.add("cs.endian")
            if c == ("cls", "alignment"):
                keys.add("cls.alignment")
            if "current_block" in norm(n) and c[-1] in ("offset", "alignment"):
                keys.add("field." + c[-1])
        for n in walk_body(fi.node.body):
            if isinstance(n, ast.Attribute) and n.attr in ("offset", "alignment") and "current_block" in norm(n.value):
                keys.add("field." + n.attr)
    if "cls.alignment" in extra_text:
        keys.add("cls.alignment")
    if "cls.cs.endian" in extra_text:
        keys.add("cs.endian")
    return keys


def walker_rule(repo: Repo, rep: Report, rid: str) -> None:
    rep.rule(rid, "interpreted reader, writer and source generator walk cls.__fields__ in order and consult the same layout inputs")
    rd = repo.func("types/structure.py", "StructureMetaType._read")
    wr = repo.func("types/structure.py", "StructureMetaType._write")
    gen = [f for f in T.generator_functions(repo)]
    tpl_text = "\n".join(t.text for t in T.reader_templates(repo))
    walkers = {"reader": _walker_keys(repo, [rd]), "writer": _walker_keys(repo, [wr]), "generator": _walker_keys(repo, gen, tpl_text)}
    for name, keys in walkers.items():
        for k in LAYOUT_KEYS:
            rep.check(k in keys, rid, f"walker:{name}:{k}", "consulted", f"the {name} no longer consults {k}: it would lay fields out "
                      f"differently from the other walkers", (rd if name == "reader" else wr if name == "writer" else gen[0]).loc())
    # iteration order: a plain `for field in <fields>` (no reversed / sorted)
    for name, fi, src in (("reader", rd, "cls.__fields__"), ("writer", wr, "cls.__fields__"),
                          ("generator", repo.func("compiler.py", "_ReadSourceGenerator._generate_fields"), "self.fields")):
        loops = [n for n in walk_body(fi.node.body) if isinstance(n, ast.For) and norm(n.iter) == src]
        rep.check(len(loops) == 1, rid, f"walker:{name}:order", f"iterates {src} in declaration order",
                  f"the {name} does not iterate {src} directly (found {[norm(n.iter) for n in walk_body(fi.node.body) if isinstance(n, ast.For)]})", fi.loc())


def run(repo: Repo, rep: Report, tier: str) -> None:
    from .compiled import compiled_fold_rule

    compiled_fold_rule(repo, rep, "C01.R19", tier)
    slot_rule(repo, rep, "C01.R1")
    codec_key_rule(repo, rep, "C01.R2")
    encoder_rule(repo, rep, "C01.R3")
    array_guard_rule(repo, rep, "C01.R4")
    walker_rule(repo, rep, "C01.R5")
    from .c06 import signed_unit_rule

    signed_unit_rule(repo, rep, "C01.R6")
    from .c02 import flush_rule, offset_pad_rule
    from .c11 import size_rule

    flush_rule(repo, rep, "C01.R7")
    size_rule(repo, rep, "C01.R8")
    offset_pad_rule(repo, rep, "C01.R9")
    # reader / writer agreement rules shared with the properties that anchor them (each is a necessary condition of parse(dumps(v)) == v)
    from .c02 import leb128_termination_rule
    from .c05 import call_time_rule
    from .c09 import offset_base_rule

    leb128_termination_rule(repo, rep, "C01.R10")
    offset_base_rule(repo, rep, "C01.R11")
    call_time_rule(repo, rep, "C01.R12")
    from .c05 import codec_fold_rule

    codec_fold_rule(repo, rep, "C01.R13")
    from .c06 import mask_rule

    mask_rule(repo, rep, "C01.R14")
    from .memo import memo_rule

    memo_rule(repo, rep, "C01.R15")
    from .c04 import struct_rw_fold_rule

    struct_rw_fold_rule(repo, rep, "C01.R16", 3 if tier == "thorough" else 2)
    from .c09 import absolute_padding_rule

    absolute_padding_rule(repo, rep, "C01.R17")
    from .c11 import union_write_fold_rule

    union_write_fold_rule(repo, rep, "C01.R18")
    from .c07 import array_count_fold_rule

    array_count_fold_rule(repo, rep, "C01.R20")
    from .c04 import layout_fold_rule
    from .c06 import unit_switch_rule

    unit_switch_rule(repo, rep, "C01.R21")
    from .c07 import generic_write_array_rule

    generic_write_array_rule(repo, rep, "C01.R24")
    from .c05 import text_array_fold_rule

    text_array_fold_rule(repo, rep, "C01.R25")
    layout_fold_rule(repo, rep, "C01.R22", 3 if tier == "thorough" else 2)
    from .c05 import leb128_rule as _leb

    _leb(repo, rep, "C01.R23")
