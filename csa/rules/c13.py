"""C13 - definition parsing ignores comments, spacing and order of unrelated definitions."""

from __future__ import annotations

import ast

from .. import regexlint as RL
from ..boolalg import Formula
from ..cfg import CFG
from ..model import Repo
from ..report import Report
from ..util import AnalysisError, always_raises, call_name, chain, const_value, is_const, norm, raised_names, root_name, short, walk_body

MULTIPART_TOKENS = ("NAME", "ENUM", "DEFS")


def token_table(repo: Repo) -> list[tuple[str, str | None, ast.AST]]:
    """[(regex text, token name or None, call node)] from TokenParser._tokencollection."""
    fi = repo.func("parser.py", "TokenParser._tokencollection")
    out = []
    for c in walk_body(fi.node.body):
        if isinstance(c, ast.Call) and call_name(c) == "add" and len(c.args) == 2:
            try:
                rx = const_value(c.args[0])
            except ValueError:
                # implicit concatenation of adjacent literals is folded by the parser; anything else is unknown
                raise AnalysisError(f"token regex is not a literal: {norm(c.args[0])}")
            nm = const_value(c.args[1]) if is_const(c.args[1]) else None
            out.append((rx, nm, c))
    if len(out) < 10:
        raise AnalysisError(f"only {len(out)} TOK.add calls found")
    return out


def keyword_rule(repo: Repo, rep: Report, rid: str) -> None:
    rep.rule(rid, "keyword tokens end at a word boundary: in every token regex that begins with an alphabetic keyword the next element cannot "
                  "match a word character (look-ahead or mandatory whitespace)")
    fi = repo.func("parser.py", "TokenParser._tokencollection")
    n = 0
    for rx, nm, c in token_table(repo):
        seq = RL.parse(rx)
        if RL.leading_keyword(seq) is None:
            continue
        n += 1
        ok, why = RL.keyword_boundary_ok(seq)
        rep.check(ok, rid, f"{fi.key}:TOK[{nm}]:keyword-boundary", why, f"token {nm}: {why} (regex {rx!r})", fi.loc(c))
    rep.floor(rid, "keyword-led token regexes", n, 4)
    # legacy parser patterns
    m = 0
    for qn in ("CStyleParser._constants", "CStyleParser._enums", "CStyleParser._structs"):
        f = repo.func("parser.py", qn)
        for c in walk_body(f.node.body):
            if isinstance(c, ast.Call) and call_name(c) == "finditer" and c.args:
                try:
                    rx = const_value(c.args[0])
                except ValueError:
                    continue
                seq = RL.parse(rx)
                # the legacy struct regex starts with optional groups; judge every group that starts with a keyword
                cands = [seq] + [g.kids for k in seq if k.kind == "repeat" and k.lo == 0 for g in k.kids if g.kind == "group"]
                for s in cands:
                    if RL.leading_keyword(s) is None:
                        continue
                    m += 1
                    ok, why = RL.keyword_boundary_ok(s)
                    kw = RL.leading_keyword(s)[0]
                    rep.check(ok, rid, f"{f.key}:legacy {kw}", why, f"legacy pattern for {kw}: {why}", f.loc(c))
    rep.floor(rid, "legacy keyword patterns", m, 2)


def gap_rule(repo: Repo, rep: Report, rid: str) -> None:
    rep.rule(rid, "gaps inside multi-part tokens are whitespace-insensitive: every separator (':', '[', '{', ',') between two lexical parts of the "
                  "NAME / ENUM / DEFS tokens tolerates arbitrary whitespace on both sides")
    fi = repo.func("parser.py", "TokenParser._tokencollection")
    n = 0
    seen = set()
    for rx, nm, c in token_table(repo):
        if nm not in MULTIPART_TOKENS:
            continue
        seen.add(nm)
        for tag, ok, why in RL.whitespace_gaps(RL.parse(rx)):
            n += 1
            rep.check(ok, rid, f"{fi.key}:TOK[{nm}]:gap {tag}", why, f"token {nm}: {why} - e.g. a blank before that separator makes the scanner split the "
                      f"declaration differently (regex {rx!r})", fi.loc(c))
    if seen != set(MULTIPART_TOKENS):
        raise AnalysisError(f"multi-part token(s) vanished: {sorted(set(MULTIPART_TOKENS) - seen)}")
    rep.floor(rid, "separator boundaries", n, 5)


def dispatcher_rule(repo: Repo, rep: Report, rid: str) -> None:
    rep.rule(rid, "the top-level dispatcher has an arm for every token kind that can start a construct and ends in raise ParserError")
    fi = repo.func("parser.py", "TokenParser.parse")
    starters = set()
    for rx, nm, c in token_table(repo):
        if nm is None:
            continue
        seq = RL.parse(rx)
        if len(seq) == 1:
            continue  # single punctuation / class tokens (EOL, BLOCK) never start a construct
        first = seq[0]
        if first.kind == "lit" and (first.ch in "#$" or first.ch.isalpha()):
            starters.add(nm)
        elif RL.leading_keyword(seq) is not None:
            starters.add(nm)
    loops = [w for w in walk_body(fi.node.body) if isinstance(w, ast.While)]
    if not loops:
        raise AnalysisError("TokenParser.parse: dispatcher loop not found")
    arms = []
    cur = next((s for s in loops[0].body if isinstance(s, ast.If) and "self.TOK." in norm(s.test)), None)
    last = None
    while isinstance(cur, ast.If):
        t = cur.test
        if isinstance(t, ast.Compare) and norm(t.comparators[0]).startswith("self.TOK."):
            arms.append(norm(t.comparators[0]).rsplit(".", 1)[1])
        last = cur
        cur = cur.orelse[0] if len(cur.orelse) == 1 and isinstance(cur.orelse[0], ast.If) else None
    else_ok = last is not None and bool(last.orelse) and always_raises(last.orelse) and "ParserError" in raised_names(last.orelse)
    if not arms:
        # table form: handlers = {self.TOK.X: handler, ...}; handler = handlers.get(kind); if handler is None: raise ParserError
        for d in walk_body(fi.node.body):
            if isinstance(d, ast.Assign) and isinstance(d.value, ast.Dict) and isinstance(d.targets[0], ast.Name) and d.value.keys and \
                    all(k is not None and norm(k).startswith("self.TOK.") for k in d.value.keys):
                table = d.targets[0].id

                def is_lookup(e: ast.AST, table=table) -> bool:
                    return isinstance(e, ast.Call) and norm(e.func) == f"{table}.get" and len(e.args) == 1

                hs = {x.targets[0].id for x in walk_body(loops[0].body) if isinstance(x, ast.Assign) and is_lookup(x.value) and isinstance(x.targets[0], ast.Name)}

                def is_handler(e: ast.AST) -> bool:
                    return is_lookup(e) or (isinstance(e, ast.Name) and e.id in hs)

                missing = [x for x in loops[0].body if isinstance(x, ast.If) and isinstance(x.test, ast.Compare) and len(x.test.ops) == 1
                           and isinstance(x.test.ops[0], ast.Is) and is_handler(x.test.left) and norm(x.test.comparators[0]) == "None"
                           and always_raises(x.body) and "ParserError" in raised_names(x.body)]
                called = [c for c in walk_body(loops[0].body) if isinstance(c, ast.Call) and is_handler(c.func)]
                if called:
                    arms = [norm(k).rsplit(".", 1)[1] for k in d.value.keys]
                    else_ok = bool(missing)
    for nm in sorted(starters):
        rep.check(nm in arms, rid, f"{fi.key}:arm {nm}", "dispatched", f"token kind {nm} can start a construct but the dispatcher has no arm for it", fi.loc())
    rep.check(else_ok, rid, f"{fi.key}:else",
              "anything else raises ParserError", "the dispatcher chain no longer ends in raise ParserError: stray tokens would be skipped silently", fi.loc())
    rep.floor(rid, "dispatcher arms", len(arms), 6)
    rem = [s for s in walk_body(fi.node.body) if isinstance(s, ast.If) and "remaining" in norm(s.test) and always_raises(s.body)]
    rep.check(bool(rem), rid, f"{fi.key}:unscanned", "unscannable input raises", "input the scanner cannot tokenize is no longer rejected", fi.loc())


def alias_table_rule(repo: Repo, rep: Report, rid: str) -> None:
    rep.rule(rid, "only cstruct.__init__ and cstruct.add_type write the alias table, and add_type refuses to re-bind an existing name to a different "
                  "target unless replace is set")
    n = 0
    for fi in repo.all_functions():
        for x in walk_body(fi.node.body):
            tgt = None
            if isinstance(x, (ast.Assign, ast.AugAssign, ast.AnnAssign)):
                for t in (x.targets if isinstance(x, ast.Assign) else [x.target]):
                    c = chain(t.value if isinstance(t, ast.Subscript) else t)
                    if c and c[-1] == "typedefs":
                        tgt = t
            elif isinstance(x, ast.Call) and isinstance(x.func, ast.Attribute) and x.func.attr in ("update", "pop", "setdefault", "clear", "popitem", "__setitem__"):
                c = chain(x.func.value)
                if c and c[-1] == "typedefs":
                    tgt = x
            elif isinstance(x, ast.Delete):
                for t in x.targets:
                    c = chain(t.value if isinstance(t, ast.Subscript) else t)
                    if c and c[-1] == "typedefs":
                        tgt = t
            if tgt is None:
                continue
            n += 1
            okw = fi.cls is not None and fi.cls.name == "cstruct" and fi.name in ("__init__", "add_type")
            rep.check(okw, rid, f"{fi.key}:{short(x, 60)}", "owner of the alias table", f"{fi.qualname} writes the alias table directly, bypassing add_type's "
                      f"duplicate check", fi.loc(x))
    rep.floor(rid, "writes to the alias table", n, 2)
    fi = repo.func("cstruct.py", "cstruct.add_type")
    g = CFG(fi.node)
    stores = [x for x in g.nodes if x.kind == "stmt" and isinstance(x.ast, ast.Assign) and isinstance(x.ast.targets[0], ast.Subscript) and "typedefs" in norm(x.ast.targets[0])]
    name, typ = fi.params[1], fi.params[2]

    def interp(e: ast.AST):
        t = norm(e)
        if t == "replace":
            return "REPLACE"
        if t == f"{name} in self.typedefs":
            return "EXISTS"
        if isinstance(e, ast.Compare) and len(e.ops) == 1 and "resolve" in t and isinstance(e.ops[0], (ast.NotEq, ast.Eq, ast.IsNot, ast.Is)):
            sides = {norm(e.left), norm(e.comparators[0])}
            if sides == {f"self.resolve(self.typedefs[{name}])", f"self.resolve({typ})"}:
                return "DIFFERENT" if isinstance(e.ops[0], (ast.NotEq, ast.IsNot)) else ("not", "DIFFERENT")
        return None

    guards = {x.id for x in g.nodes if x.kind == "if" and always_raises(x.ast.body) and "ValueError" in raised_names(x.ast.body)
              and Formula(x.ast.test, interp).always({"REPLACE": False, "EXISTS": True, "DIFFERENT": True}, True)}
    from ..folds import fold_add_type

    atf = fold_add_type(repo)
    if atf is not None:
        bad = atf["bad"]
        rep.check(not bad, rid, f"{fi.key}:duplicate-guard", f"folded over {atf['cases']} (known name?, same target?, replace?) cases: a name is only re-bound to another type with replace=True",
                  f"add_type with '{bad[0][0] if bad else ''}': {bad[0][1] if bad else ''}, expected {bad[0][2] if bad else ''}", fi.loc())
    else:
        rep.check(len(stores) == 1 and bool(guards) and g.must_pass(g.entry.id, stores[0].id, guards), rid, f"{fi.key}:duplicate-guard",
                  "guard (not replace and name exists and resolves differently) -> ValueError dominates the store",
                  "add_type can re-bind an existing name to a different type without replace=True", fi.loc())
    rep.check(len(stores) == 1 and norm(stores[0].ast.value) == typ and norm(stores[0].ast.targets[0].slice) == name, rid, f"{fi.key}:store",
              "typedefs[name] = type_", "add_type stores something else than the given type under the given name", fi.loc())
    # the parsers register through add_type
    m = 0
    for f in repo.all_functions():
        if f.module.rel == "parser.py":
            for c in walk_body(f.node.body):
                if isinstance(c, ast.Call) and call_name(c) in ("add_type", "addtype"):
                    m += 1
    rep.floor(rid, "parser registrations through add_type", m, 6)


def resolve_rule(repo: Repo, rep: Report, rid: str) -> None:
    rep.rule(rid, "alias resolution terminates and fails loudly: no unbounded loop, every return yields a non-string type, unknown and over-long "
                  "chains raise ResolveError")
    fi = repo.func("cstruct.py", "cstruct.resolve")
    from ..folds import fold_resolve

    fold = fold_resolve(repo)
    if fold is None:
        whiles = [w for w in walk_body(fi.node.body) if isinstance(w, ast.While)]
        rep.check(not whiles, rid, f"{fi.key}:bounded", "no while loop", "resolve contains a while loop: a cyclic alias would never terminate", fi.loc())
        fors = [f for f in walk_body(fi.node.body) if isinstance(f, ast.For)]
        rep.check(len(fors) == 1 and isinstance(fors[0].iter, ast.Call) and call_name(fors[0].iter) == "range" and is_const(fors[0].iter.args[0]), rid,
                  f"{fi.key}:range", "chain length bounded by a constant range", "the alias chain walk is no longer bounded by a constant", fi.loc())
    if fold is not None:
        # termination is decided by the outcome: the cyclic, the self-referring and the 40-link table must raise within the evaluation budget
        rep.ok(rid, f"{fi.key}:bounded", "folded: cyclic and over-long alias tables raise (no unbounded walk)", fi.loc())
        for label in ("type object passed through", "direct name", "alias chain of 3", "alias chain of 9", "alias chain of 10", "unknown name", "dangling alias",
                      "alias cycle", "self alias", "alias chain of 40"):
            bad = [x for x in fold["bad"] if x[0] == label or x[0].startswith(label + " (")]
            rep.check(not bad, rid, f"{fi.key}:fold:{label}", "folded over this alias table: yields the type or raises ResolveError, never a string",
                      f"resolve on an alias table with '{label}': {bad[0][1] if bad else ''} (expected {bad[0][2] if bad else ''})", fi.loc())
        rep.floor(rid, "resolve exits", fold["cases"], 9)
        return
    g = CFG(fi.node)
    rets = [x for x in g.nodes if x.kind == "stmt" and isinstance(x.ast, ast.Return)]
    n = 0
    for r in rets:
        n += 1
        v = norm(r.ast.value)
        guard = {x.id for x in g.nodes if x.kind == "if" and norm(x.ast.test) == f"not isinstance({v}, str)" and r.ast in x.ast.body}
        rep.check(bool(guard), rid, f"{fi.key}:return {v}#{n}", "returned value is guarded 'not isinstance(., str)'",
                  f"resolve can return '{v}' without checking it is not another alias string", fi.loc(r.ast))
    raises = [x for x in g.nodes if x.kind == "stmt" and isinstance(x.ast, ast.Raise)]
    rep.check(len(raises) >= 2 and all("ResolveError" in norm(x.ast) for x in raises), rid, f"{fi.key}:raises", "unknown name and recursion limit raise ResolveError",
              f"resolve raises {[short(x.ast, 40) for x in raises]}", fi.loc())
    last = fi.body[-1]
    rep.check(isinstance(last, ast.Raise) and "ResolveError" in norm(last), rid, f"{fi.key}:fallthrough", "falling out of the loop raises ResolveError",
              "an over-long alias chain no longer raises ResolveError", fi.loc(last))
    unk = [x for x in g.nodes if x.kind == "if" and "not in self.typedefs" in norm(x.ast.test) and always_raises(x.ast.body)]
    rep.check(bool(unk), rid, f"{fi.key}:unknown", "unknown names raise", "a reference to an unknown alias is no longer reported", fi.loc())
    rep.floor(rid, "resolve exits", n + len(raises), 4)


def comment_rule(repo: Repo, rep: Report, rid: str) -> None:
    rep.rule(rid, "comment stripping keeps line structure: a comment is replaced by exactly its newlines, quoted strings are returned unchanged")
    fi = repo.func("parser.py", "TokenParser._remove_comments.<locals>._replacer")
    # the replacement function is a leaf: interpret it on stand-in match objects (structural fallback below when it cannot be interpreted)
    from ..minieval import Evaluator, Host, Raised, Refused, Sym, UserFunc

    folded = None
    try:
        folded = []
        for g1, g2, want in (('"a // not a comment"', None, '"a // not a comment"'), (None, "// to the end of the line", ""), (None, "/* one\n two\n three */", "\n\n"),
                             (None, "/**/", ""), ("'x'", None, "'x'"), ("", "/* \n */", "\n")):
            grp = {0: (g1 or "") + (g2 or ""), 1: g1, 2: g2}
            m_ = Sym("match", {}, {"group": Host(lambda i=0, grp=grp: grp[i]), "groups": Host(lambda grp=grp: (grp[1], grp[2]))})
            try:
                got = Evaluator({}, steps=2000).call_user(UserFunc(fi.node), [m_], {})
            except Raised as e:
                got = f"raise {e}"
            if got != want:
                folded.append((g1, g2, got, want))
    except Refused:
        folded = None
    if folded is not None:
        rep.check(not folded, rid, f"{fi.key}:comment", "6 matches folded: a comment becomes exactly its newlines, a quoted string is returned unchanged",
                  (f"the comment replacement returns {folded[0][2]!r} for the match (string {folded[0][0]!r}, comment {folded[0][1]!r}), expected {folded[0][3]!r}: a removed "
                   "comment is not replaced by exactly its newlines (line numbers and line-oriented tokens behind it shift) or a quoted string is altered") if folded else "",
                  fi.loc())
    g = CFG(fi.node)
    arm = [x for x in g.nodes if x.kind == "if" and "group(2)" in norm(x.ast.test)]
    ok = False
    if arm:
        rets = [s for s in arm[0].ast.body if isinstance(s, ast.Return)]
        if rets and isinstance(rets[0].value, ast.BinOp) and isinstance(rets[0].value.op, ast.Mult):
            sides = [rets[0].value.left, rets[0].value.right]
            ok = any(is_const(s) and const_value(s) == "\n" for s in sides) and any(isinstance(s, ast.Call) and call_name(s) == "count" and is_const(s.args[0])
                                                                                    and const_value(s.args[0]) == "\n" for s in sides)
    if folded is None:
        rep.check(ok, rid, f"{fi.key}:comment", "returns '\\n' * comment.count('\\n')", "a removed comment is not replaced by exactly its newlines: line numbers and "
                  "line-oriented tokens after a multi-line comment would shift", fi.loc())
        rets = [x for x in g.nodes if x.kind == "stmt" and isinstance(x.ast, ast.Return) and (not arm or x.ast not in arm[0].ast.body)]
        rep.check(len(rets) == 1 and norm(rets[0].ast.value) == "match.group(1)", rid, f"{fi.key}:string", "quoted strings are returned unchanged",
                  "quoted strings are no longer returned unchanged", fi.loc())
    outer = repo.func("parser.py", "TokenParser._remove_comments")
    pat = [s for s in walk_body(outer.node.body) if isinstance(s, ast.Assign) and norm(s.targets[0]) == "pattern"]
    okp = False
    if pat and is_const(pat[0].value):
        seq = RL.parse(const_value(pat[0].value))
        okp = len(seq) == 1 and seq[0].kind == "branch" and len(seq[0].kids) == 2
    rep.check(okp, rid, f"{outer.key}:pattern", "strings are matched before comments (two alternatives)", "the comment pattern no longer matches quoted strings first", outer.loc())
    pr = repo.func("parser.py", "TokenParser.parse")
    calls = [c for c in walk_body(pr.node.body) if isinstance(c, ast.Call) and call_name(c) in ("_remove_comments", "scan")]
    rep.check([call_name(c) for c in calls][:2] == ["_remove_comments", "scan"], rid, f"{pr.key}:order", "comments removed before scanning", "comments are not removed before scanning", pr.loc())


def comment_language_rule(repo: Repo, rep: Report, rid: str, max_len: int) -> None:
    """Bounded language comparison of the comment-stripping regex *literal* against the definition of C comments.

    The pattern is data: it is extracted from the source as a constant and handed to the standard library's regex engine
    together with every string of a small alphabet up to a bounded length.  No code of the repository runs.
    """
    import itertools
    import re

    rep.rule(rid, "the comment-stripping pattern (a regex literal) matches every well-formed /* ... */ and // ... comment and nothing but it, "
                  "exhaustively over the alphabet {/, *, a, space, newline} up to a bounded length")
    outer = repo.func("parser.py", "TokenParser._remove_comments")
    pat = [s for s in walk_body(outer.node.body) if isinstance(s, ast.Assign) and norm(s.targets[0]) == "pattern"]
    comp = [c for c in walk_body(outer.node.body) if isinstance(c, ast.Call) and norm(c.func) == "re.compile"]
    if not pat or not is_const(pat[0].value) or not comp:
        raise AnalysisError("_remove_comments: pattern literal / re.compile call not found")
    flags = 0
    if len(comp[0].args) > 1:
        for nm in re.findall(r"re\.([A-Z]+)", norm(comp[0].args[1])):
            flags |= getattr(re, nm)
    try:
        rx = re.compile(const_value(pat[0].value), flags)
    except re.error as e:
        rep.fail(rid, f"{outer.key}:pattern", f"the comment pattern does not compile: {e}", outer.loc())
        return
    alphabet = "/*a \n"
    n = 0
    bad = None
    for ln in range(0, max_len + 1):
        for body in itertools.product(alphabet, repeat=ln):
            body = "".join(body)
            n += 1
            if "*/" not in body:
                c = "/*" + body + "*/"
                m = rx.search("x" + c + "y")
                if not (m and m.group(0) == c and m.group(2) == c):
                    bad = bad or (c, m.group(0) if m else None)
            if "\n" not in body:
                c = "//" + body
                m = rx.search("x " + c + "\ny")
                if not (m and m.group(0) == c and m.group(2) == c):
                    bad = bad or (c, m.group(0) if m else None)
    rep.info["comment_strings_enumerated"] = n
    rep.check(bad is None, rid, f"{outer.key}:pattern-language", f"all {n} comment bodies up to length {max_len} are matched exactly",
              f"the comment pattern does not match the comment {bad[0]!r} as a whole (it matches {bad[1]!r}): its text would reach the scanner as tokens" if bad else "",
              outer.loc(pat[0]))


def name_strip_rule(repo: Repo, rep: Report, rid: str) -> None:
    rep.rule(rid, "names cut out of whitespace-tolerant token groups are stripped before they leave the parser helpers (they become type and field names)")
    fi = repo.func("parser.py", "TokenParser._parse_field_type")
    rets = [r for r in walk_body(fi.node.body) if isinstance(r, ast.Return)]
    nm = [rx for rx, n_, _c in token_table(repo) if n_ == "NAME"]
    group_ws = False
    if nm:
        for el in RL.parse(nm[0]):
            if el.kind == "group" and el.name == "name":
                group_ws = any(RL.is_ws_repeat(k) for k in el.kids)
    if not group_ws:
        rep.ok(rid, f"{fi.key}:name", "the 'name' group of the NAME token cannot contain whitespace", fi.loc(), nontrivial=False)
        return
    for r in rets:
        v = r.value
        elts = v.elts if isinstance(v, ast.Tuple) else [v]
        name_el = next((e for e in elts if "name" in norm(e)), None)
        stripped = isinstance(name_el, ast.Call) and call_name(name_el) == "strip"
        if not stripped and isinstance(name_el, ast.Name):
            stripped = any(isinstance(s2, ast.Assign) and norm(s2.targets[0]) == name_el.id and isinstance(s2.value, ast.Call) and call_name(s2.value) == "strip"
                           for s2 in walk_body(fi.node.body))
        rep.check(stripped, rid, f"{fi.key}:return name", "the name is stripped", f"_parse_field_type returns '{norm(name_el)}' without stripping it although the NAME "
                  f"token's name group may contain whitespace (typedef uint32 * ptr32; would register the alias ' ptr32')", fi.loc(r))
    nf = repo.func("parser.py", "TokenParser._names")
    apps = [c for c in walk_body(nf.node.body) if isinstance(c, ast.Call) and call_name(c) in ("append", "extend")]
    rep.check(bool(apps) and all("strip()" in norm(c) for c in apps), rid, f"{nf.key}:names", "every collected name is stripped", "_names collects un-stripped names", nf.loc())


def factory_memo_rule(repo: Repo, rep: Report, rid: str) -> None:
    rep.rule(rid, "type factories keep no lossy memo: a cstruct._make_* factory that stores into a mapping on the instance must key it by the "
                  "objects that determine the result (the element / target type itself), never by a name derived from them")
    from ..callgraph import CallGraph
    from ..effects import EffectAnalysis

    cg = CallGraph(repo)
    ea = EffectAnalysis(repo, cg)
    n = 0
    for fi in repo.cls("cstruct").methods.values():
        if not fi.name.startswith("_make_"):
            continue
        n += 1
        stores = [e for e in ea.effects(fi) if e.root_class in ("self-shared", "global", "cls") and e.what in ("store", "mutator:setdefault", "mutator:update")]
        if not stores:
            rep.ok(rid, f"{fi.key}:memo", "pure factory (stores nothing on the instance)", fi.loc())
            continue
        for e in stores:
            tgt = e.node.targets[0] if isinstance(e.node, ast.Assign) else None
            ok = False
            if isinstance(tgt, ast.Subscript):
                key_names = {x.id for x in ast.walk(tgt.slice) if isinstance(x, ast.Name)}
                binds = cg.local_bindings(fi)
                # expand locals to what they are computed from
                direct_params = set()
                for kn in key_names:
                    if kn in fi.params:
                        direct_params.add(kn)
                    for v in binds.get(kn, []):
                        if isinstance(v, ast.Name) and v.id in fi.params:
                            direct_params.add(v.id)
                type_params = [p for p in fi.params[1:] if (fi.annotation(p) or "").startswith(("type[", "T")) or p in ("type_", "target")]
                ok = all(p in direct_params for p in type_params) and bool(type_params)
            rep.check(ok, rid, f"{fi.key}:{e.what} {e.target}", "memo keyed by the determining type objects",
                      f"{fi.qualname} memoises its result in '{e.target}' keyed by something derived from the type (a name), not by the type object itself: two "
                      f"different types with the same name (nested tags, replaced aliases, another load()) would share one result", fi.loc(e.node))
    rep.floor(rid, "type factories", n, 6)


def identifier_rule(repo: Repo, rep: Report, rid: str) -> None:
    rep.rule(rid, "multi-word type names are looked up under their canonical spelling: TokenParser._identifier joins the identifier tokens with exactly "
                  "one space (whatever blanks, newlines or comments separated them in the source)")
    fi = repo.func("parser.py", "TokenParser._identifier")
    from ..util import resolve_local

    rets = [r for r in walk_body(fi.node.body) if isinstance(r, ast.Return) and r.value is not None]
    ok = bool(rets) and all(isinstance(resolve_local(fi.node, r.value), ast.Call) and norm(resolve_local(fi.node, r.value).func) == "' '.join" for r in rets)
    rep.check(ok, rid, f"{fi.key}:canonical", "returns ' '.join(<token values>)",
              f"TokenParser._identifier returns '{short(rets[0].value, 60) if rets else None}' instead of the words joined by one space: 'unsigned  int' (two blanks, a tab, "
              "a newline or a comment between the words) is then an unknown type", fi.loc())


def getattr_fold_rule(repo: Repo, rep: Report, rid: str) -> None:
    rep.rule(rid, "attribute access on the cstruct object, folded over 10 (constants, typedefs, name) cases: a constant is returned whatever its value "
                  "(0, '', None, False), a typedef is resolved, an unknown name raises AttributeError, an alias that cannot be resolved raises the "
                  "resolve error (matched against the repository's own exception hierarchy) and is not turned into 'no such attribute'")
    from ..folds import fold_getattr

    fi = repo.func("cstruct.py", "cstruct.__getattr__")
    fold = fold_getattr(repo)
    if fold is None:
        rep.ok(rid, f"{fi.key}:fold", "not foldable with the evaluator's whitelist", fi.loc(), nontrivial=False)
        return
    bad = fold["bad"]
    rep.check(not bad, rid, f"{fi.key}:fold", f"{fold['cases']} cases agree with the reference",
              f"cs.<name> for {bad[0][0] if bad else ''}: got {bad[0][1] if bad else ''!r}, expected {bad[0][2] if bad else ''!r}: what the object provides under a name no "
              "longer matches what its tables (and the stub generated from them) say", fi.loc())


def loadfile_rule(repo: Repo, rep: Report, rid: str) -> None:
    rep.rule(rid, "definition files are read as text with universal newlines: cstruct.loadfile opens the path in text mode without a 'newline' argument "
                  "(the comment patterns of the parsers end a '//' comment at '\\n' only: with '\\r\\n' left in the text a commented-out member comes back)")
    fi = repo.func("cstruct.py", "cstruct.loadfile")
    opens = [c for c in ast.walk(fi.node) if isinstance(c, ast.Call) and call_name(c) in ("open", "read_text", "read_bytes")]
    ok = bool(opens)
    why = "no open() / read_text() call found"
    for c in opens:
        mode = None
        if call_name(c) == "open":
            pos = c.args[1:] if isinstance(c.func, ast.Name) else c.args
            mode = pos[0] if pos else next((k.value for k in c.keywords if k.arg == "mode"), None)
        if call_name(c) == "read_bytes" or (mode is not None and (not isinstance(mode, ast.Constant) or "b" in str(mode.value))):
            ok, why = False, f"'{short(c, 50)}' reads bytes: line endings are not translated"
        if any(k.arg == "newline" for k in c.keywords):
            ok, why = False, f"'{short(c, 50)}' sets newline=: line endings are not translated"
    loads = [c for c in ast.walk(fi.node) if isinstance(c, ast.Call) and call_name(c) == "load"]
    kw = fi.node.args.kwarg.arg if fi.node.args.kwarg is not None else None
    fwd = bool(loads) and all(any(k.arg is None and norm(k.value) == kw for k in c.keywords) for c in loads) if kw else bool(loads)
    dt = bool(loads) and all(len(c.args) >= 2 or any(k.arg == "deftype" for k in c.keywords) for c in loads)
    rep.check(fwd and dt, rid, f"{fi.key}:options", "the definition type and the parser options (align, compiled, ...) are handed on to load()",
              "cstruct.loadfile does not hand its deftype / **kwargs on to load(): loadfile(path, align=True) lays the definitions out packed, the same text "
              "through load(..., align=True) aligned", fi.loc())
    rep.check(ok, rid, f"{fi.key}:text-mode", "opened in text mode, universal newlines", f"cstruct.loadfile: {why}; a file with Windows line endings keeps its "
              "'\\r', which the line-comment pattern of the parser does not stop at", fi.loc())


def token_parser_shape(repo: Repo, rep: Report, fn, rid: str, *args, **kw):
    """Run a rule on the *shape* of the parsers.  Where the parser fold can interpret TokenParser, that parser's outcome is decided there: failures
    of the shape rule on TokenParser constructs become advisory notes (the legacy parser, which is not folded, stays under the shape rule), and the
    instance floors of the rule - which count sites that a refactoring may have moved into helpers - are not enforced."""
    from ..parsefold import fold_parser

    cache = repo.__dict__.setdefault("_parser_fold", {})
    if "v" not in cache:
        cache["v"] = fold_parser(repo)
    if cache["v"] is None:
        return fn(repo, rep, rid, *args, **kw)
    n_items, n_floors = len(rep.items), len(rep.floors)
    result = None
    try:
        result = fn(repo, rep, rid, *args, **kw)
    except AnalysisError as e:
        if "TokenParser" not in str(e) and "parser" not in str(e).lower():
            raise
        rep.notes.append(f"advisory {rid} (shape of the token parser; the parser fold decides): anchor not found: {e}")
    from ..folds import fold_array_count

    count_decided = fold_array_count(repo) is not None  # Parser._array_count is folded on its own (array size text at definition time)
    for i in rep.items[n_items:]:
        if i.rule == rid and not i.ok and ("TokenParser" in i.construct or (count_decided and "Parser._array_count" in i.construct)):
            rep.notes.append(f"advisory {rid}: {i.construct}: {i.detail[:200]}")
            i.ok, i.nontrivial, i.detail = True, False, "shape differs; the parser fold decides the token parser's outcome"
    del rep.floors[n_floors:]
    if not any(i.rule == rid for i in rep.items[n_items:]):
        rep.ok(rid, f"shape:{rid.split('.')[1]}", "the parser fold decides", "", nontrivial=False)
    return result


def parser_fold_rule(repo: Repo, rep: Report, rid: str) -> None:
    rep.rule(rid, "token parser folded: TokenParser(cs).parse(text) is interpreted against a model cstruct object that records what is defined. A "
                  "definition text using every construct once (constants and constant expressions, enums / flags with implicit, explicit, zero and "
                  "multi-bit values, an anonymous enum, scalar / array / pointer / bit-field / nested / anonymous members, expression-sized, "
                  "multi-dimensional, zero-length and octal-sized arrays, multi-word type names, a constant shadowed by a field, a redefined constant, a "
                  "union, a self-referencing structure, typedefs of scalars / pointers / arrays / tagged and anonymous structures with several names) must "
                  "give the expected tables; the same text with comments inserted, with its spacing changed, with both, and with unrelated definitions "
                  "reordered must give the same tables; five ill-formed texts must be refused with the documented error; align / compiled reach every "
                  "structure the parser creates")
    from ..parsefold import fold_parser

    fi = repo.func("parser.py", "TokenParser.parse")
    cache = repo.__dict__.setdefault("_parser_fold", {})
    if "r" not in cache:
        cache["r"] = fold_parser(repo)
    fold = cache["r"]
    if fold is None:
        rep.ok(rid, f"{fi.key}:parser-fold", "the token parser uses a construct outside the evaluator's whitelist: the structural rules on its patterns and dispatch decide",
               fi.loc(), nontrivial=False)
        return
    rep.info["parser_fold_cases"] = fold["cases"]
    groups: dict[str, list] = {}
    for label, why in fold["bad"]:
        key = "reference" if label == "reference" else ("variants" if label.startswith(("comments", "spacing", "unrelated")) else ("errors" if label.startswith(("a ", "an ")) else "options"))
        groups.setdefault(key, []).append((label, why))
    for key, what in (("reference", "the reference text gives the expected tables"), ("variants", "comments, spacing and the order of unrelated definitions do not change the tables"),
                      ("errors", "ill-formed definitions are refused with the documented error"), ("options", "align / compiled reach every structure")):
        bad = groups.get(key, [])
        rep.check(not bad, rid, f"{fi.key}:parser-fold:{key}", what,
                  (f"{bad[0][0]}: {bad[0][1]}" + (f" [{len(bad)} discrepancies]" if len(bad) > 1 else "")) if bad else "", fi.loc())


def run(repo: Repo, rep: Report, tier: str) -> None:
    keyword_rule(repo, rep, "C13.R1")
    gap_rule(repo, rep, "C13.R2")
    dispatcher_rule(repo, rep, "C13.R3")
    alias_table_rule(repo, rep, "C13.R4")
    resolve_rule(repo, rep, "C13.R5")
    comment_rule(repo, rep, "C13.R6")
    comment_language_rule(repo, rep, "C13.R7", 7 if tier == "thorough" else 5)
    token_parser_shape(repo, rep, name_strip_rule, "C13.R8")
    factory_memo_rule(repo, rep, "C13.R9")
    from .c10 import lookup_order_rule

    from .c10 import lookup_order_shared

    lookup_order_shared(repo, rep, "C13.R10")
    from .memo import memo_rule

    memo_rule(repo, rep, "C13.R11")
    identifier_rule(repo, rep, "C13.R12")
    getattr_fold_rule(repo, rep, "C13.R13")
    loadfile_rule(repo, rep, "C13.R14")
    from .c07 import array_size_text_fold_rule

    array_size_text_fold_rule(repo, rep, "C13.R15")
    from .c07 import count_text_rule

    count_text_rule(repo, rep, "C13.R16")
    parser_fold_rule(repo, rep, "C13.R17")
