"""C08 - truncated or failing input never fabricates data.

R1  every sized ``stream.read(n)`` is validated (EOFError on a short read) before its result is used
R2  no handler swallows a failure of a stream read
R3  no residue: nothing written on a shared object during a parse survives un-reset into the next one
"""

from __future__ import annotations

import ast
from dataclasses import dataclass

from .. import templates as T
from ..boolalg import Formula
from ..callgraph import CallGraph, entry_points
from ..cfg import CFG, arrival_facts, atom_of
from ..effects import ALLOWED, EffectAnalysis
from ..model import FuncInfo, Repo
from ..report import Report
from ..util import (AnalysisError, always_raises, call_name, chain, const_value, is_const, names_stored, norm, parent_map, raised_names, short,
                    walk_body, walk_local)

IO_EXC = {"Exception", "BaseException", "EOFError", "OSError", "IOError", "error", "struct.error", "EnvironmentError"}


@dataclass
class ReadSite:
    fi: FuncInfo
    call: ast.Call
    stmt: ast.stmt
    size: ast.AST
    verdict: str = ""  # guarded | delegated | reread | buf-update | discarded | violation
    detail: str = ""

    @property
    def key(self) -> str:
        return f"{self.fi.key}:{short(self.stmt if not isinstance(self.stmt, (ast.If, ast.While, ast.For)) else self.call, 90)}"


def _is_stream_read(cg: CallGraph, fi: FuncInfo, call: ast.Call, binds) -> bool:
    f = call.func
    if not (isinstance(f, ast.Attribute) and f.attr == "read"):
        return False
    if len(call.args) != 1 or call.keywords:
        if not (len(call.args) == 0 and len(call.keywords) == 1 and call.keywords[0].arg in ("size", "n")):
            return False
    recv = f.value
    rc = chain(recv)
    if isinstance(recv, ast.Call) and call_name(recv) == "super":
        return False
    if rc and len(rc) == 1 and rc[0] == fi.self_name:
        return False
    if cg.is_stream(fi, recv):
        return True
    k = cg.class_of_expr(fi, recv, binds)
    if k is not None:
        return False
    if cg.is_type_object(fi, recv):
        return False
    # locals bound to BytesIO(...) are private buffers: still streams for the purpose of this rule
    return True


def _size_parts(size: ast.AST):
    """-> (n_expr, cond_atom or None, sized_when)   for ``n``  or  ``-1 if C else n``  /  ``n if C else -1``."""
    if isinstance(size, ast.IfExp):
        def unbounded(e):
            return is_const(e) and isinstance(const_value(e), int) and const_value(e) < 0 or (isinstance(e, ast.Constant) and e.value is None)
        if unbounded(size.body) and not unbounded(size.orelse):
            return size.orelse, size.test, False  # sized when test is False
        if unbounded(size.orelse) and not unbounded(size.body):
            return size.body, size.test, True
    return size, None, True


def _len_of(e: ast.AST, var: str, len_aliases: set[str]) -> bool:
    if isinstance(e, ast.NamedExpr):
        return _len_of(e.value, var, len_aliases)
    if isinstance(e, ast.Call) and isinstance(e.func, ast.Name) and e.func.id == "len" and len(e.args) == 1:
        a = e.args[0]
        return isinstance(a, ast.Name) and a.id == var
    if isinstance(e, ast.Name) and e.id in len_aliases:
        return True
    return False


def _guard_interp(var: str, n_text: str, n_is_one: bool, cond, len_aliases: set[str]):
    cond_atom = atom_of(cond) if cond is not None else None

    def interp(e: ast.AST):
        if cond_atom is not None:
            a = atom_of(e)
            if a is not None and a[0] == cond_atom[0] and not isinstance(e, ast.BoolOp):
                return "COND" if a[1] == cond_atom[1] else ("not", "COND")
        if isinstance(e, ast.Compare) and len(e.ops) == 1:
            l, r, op = e.left, e.comparators[0], e.ops[0]
            if _len_of(l, var, len_aliases) and norm(r) == n_text:
                pass
            elif _len_of(r, var, len_aliases) and norm(l) == n_text:
                flip = {ast.Lt: ast.Gt, ast.Gt: ast.Lt, ast.LtE: ast.GtE, ast.GtE: ast.LtE}
                op = flip.get(type(op), type(op))()
            elif n_is_one and isinstance(l, ast.Name) and l.id == var and isinstance(r, ast.Constant) and r.value == b"":
                return {ast.Eq: "SHORT", ast.NotEq: ("not", "SHORT")}.get(type(op))
            elif n_is_one and _len_of(l, var, len_aliases) and isinstance(r, ast.Constant) and r.value == 0:
                return {ast.Eq: "SHORT", ast.NotEq: ("not", "SHORT"), ast.Gt: ("not", "SHORT"), ast.LtE: "SHORT"}.get(type(op))
            else:
                return None
            return {
                ast.NotEq: ("or", ["SHORT", "LONG"]),
                ast.Lt: "SHORT",
                ast.Gt: "LONG",
                ast.Eq: ("and", [("not", "SHORT"), ("not", "LONG")]),
                ast.LtE: ("not", "LONG"),
                ast.GtE: ("not", "SHORT"),
            }.get(type(op))
        if n_is_one and isinstance(e, ast.Name) and e.id == var:
            return ("not", "SHORT")  # truthiness of a 1-byte read
        return None

    return interp


def analyse_read_sites(cg: CallGraph, fi: FuncInfo) -> list[ReadSite]:
    binds = cg.local_bindings(fi)
    sites: list[ReadSite] = []
    pm = parent_map(fi.node)
    g: CFG | None = None
    for n in walk_body(fi.node.body):
        if not (isinstance(n, ast.Call) and _is_stream_read(cg, fi, n, binds)):
            continue
        size = n.args[0] if n.args else n.keywords[0].value
        if is_const(size) and (const_value(size) is None or (isinstance(const_value(size), int) and const_value(size) < 0)):
            continue  # read to EOF
        st = n
        while st is not None and not isinstance(st, ast.stmt):
            st = pm.get(st)
        site = ReadSite(fi, n, st, size)
        sites.append(site)
        if g is None:
            g = CFG(fi.node)
        _classify(cg, fi, site, g, pm, binds)
    return sites


def _classify(cg: CallGraph, fi: FuncInfo, site: ReadSite, g: CFG, pm, binds) -> None:
    call, st = site.call, site.stmt
    parent = pm.get(call)
    recv_text = norm(call.func.value)
    # -- result discarded (EOF probe)
    if isinstance(st, ast.Expr) and st.value is call:
        site.verdict, site.detail = "discarded", "result discarded (probe): nothing can be fabricated from it"
        return
    # -- delegated: BytesIO(stream.read(n)) used as the stream of further _read calls
    if isinstance(parent, ast.Call) and call_name(parent) == "BytesIO" and parent.args and parent.args[0] is call:
        gp = pm.get(parent)
        if isinstance(gp, ast.Assign) and len(gp.targets) == 1 and isinstance(gp.targets[0], ast.Name):
            bname = gp.targets[0].id
            used_as_stream = any(
                isinstance(c, ast.Call) and isinstance(c.func, ast.Attribute) and c.func.attr.startswith("_read") and c.args
                and isinstance(c.args[0], ast.Name) and c.args[0].id == bname
                for c in walk_body(fi.node.body)
            )
            if used_as_stream:
                site.verdict = "delegated"
                site.detail = f"bytes wrapped in a private BytesIO '{bname}' that is only parsed by member _read calls (each length-checked itself)"
                return
        site.verdict, site.detail = "violation", "read result wrapped in BytesIO but never parsed through a checked _read"
        return
    # -- bound to a name
    var = None
    if isinstance(st, ast.Assign) and st.value is call and len(st.targets) == 1 and isinstance(st.targets[0], ast.Name):
        var = st.targets[0].id
    elif isinstance(parent, ast.NamedExpr) and parent.value is call:
        var = parent.target.id
    if var is None:
        site.verdict = "violation"
        site.detail = f"result of {recv_text}.read({short(site.size, 30)}) is used directly in '{short(st, 60)}' without any length check"
        return
    def_node = g.node_of(st)
    if def_node is None:
        site.verdict, site.detail = "violation", "statement not found in CFG"
        return
    n_expr, cond, sized_when = _size_parts(site.size)
    n_text = norm(n_expr)
    n_is_one = is_const(n_expr) and const_value(n_expr) == 1
    # -- re-read of an extent that was just parsed:  size = S.tell() - start ; S.seek(start) ; S.read(size)
    diff = n_expr
    if isinstance(n_expr, ast.Name) and len(binds.get(n_expr.id, [])) == 1:
        diff = binds[n_expr.id][0]
    if isinstance(diff, ast.BinOp) and isinstance(diff.op, ast.Sub):
        if True:
            l = diff.left
            if isinstance(l, ast.Name) and len(binds.get(l.id, [])) == 1:
                l = binds[l.id][0]  # end = S.tell() held in a local
            if isinstance(l, ast.Call) and isinstance(l.func, ast.Attribute) and l.func.attr == "tell" and norm(l.func.value) == recv_text \
                    and isinstance(diff.right, ast.Name):
                start = diff.right.id
                seeks = [c for c in walk_body(fi.node.body) if isinstance(c, ast.Call) and isinstance(c.func, ast.Attribute)
                         and c.func.attr == "seek" and norm(c.func.value) == recv_text and c.args and norm(c.args[0]) == start]
                if seeks:
                    site.verdict = "reread"
                    site.detail = f"re-reads the extent [{start}, {recv_text}.tell()) that the member parsers just consumed successfully"
                    return
    # names holding len(var)
    len_aliases = set()
    for nm, vals in binds.items():
        for v in vals:
            if _len_of(v, var, set()) and not isinstance(v, ast.Name):
                len_aliases.add(nm)
    interp = _guard_interp(var, n_text, n_is_one, cond, len_aliases)
    fixed = {"SHORT": True, "LONG": False}
    if cond is not None:
        fixed["COND"] = sized_when
    guards: set[int] = set()
    guard_desc = []
    for node in g.nodes:
        if node.kind != "if":
            continue
        f = Formula(node.ast.test, interp)
        if "SHORT" not in f.atoms:
            continue
        if always_raises(node.ast.body) and f.always(fixed, True):
            exc = raised_names(node.ast.body)
            if exc <= {"EOFError"}:
                guards.add(node.id)
                guard_desc.append(short(node.ast.test, 60))
            else:
                site.verdict = "violation"
                site.detail = f"short read of '{var}' raises {sorted(exc)} instead of EOFError"
                return
        elif node.ast.orelse and always_raises(node.ast.orelse) and f.always(fixed, False):
            if raised_names(node.ast.orelse) <= {"EOFError"}:
                guards.add(node.id)
                guard_desc.append("else of " + short(node.ast.test, 60))
    redefs = {n.id for n in g.nodes if n.kind == "stmt" and n.ast is not None and var in names_stored(n.ast)} | \
             {n.id for n in g.nodes if n.kind == "for" and var in names_stored(n.ast.target)}
    # uses of var other than len(var) / emptiness tests
    uses: list = []
    for node in g.nodes:
        e = node.expr()
        if e is None or node.id in guards:
            continue
        for x in ast.walk(e) if not isinstance(e, ast.stmt) else walk_local(e):
            if isinstance(x, ast.Name) and x.id == var and isinstance(x.ctx, ast.Load):
                p = pm.get(x)
                if isinstance(p, ast.Call) and isinstance(p.func, ast.Name) and p.func.id == "len":
                    continue
                if isinstance(p, ast.Compare) and all(isinstance(c, ast.Constant) and isinstance(c.value, bytes) for c in p.comparators):
                    continue
                if isinstance(node.ast, ast.Raise):
                    continue
                uses.append((node, x))
    # -- stored as _buf on a fresh object and re-parsed by _update() on every path (static union)
    buf_store = [(node, x) for node, x in uses if isinstance(node.ast, (ast.Expr, ast.Assign)) and "_buf" in norm(node.ast)]
    if not guards and buf_store and len(buf_store) == len(uses):
        ok, why = _buf_update_idiom(cg, fi, g, def_node, buf_store, var)
        site.verdict, site.detail = ("buf-update", why) if ok else ("violation", why)
        return
    if not guards:
        site.verdict = "violation"
        site.detail = f"no guard raises EOFError when len({var}) is short of {n_text} before '{var}' is used"
        return
    bad = []
    for node, x in uses:
        if node.id == def_node.id:
            continue
        if not g.must_pass(def_node.id, node.id, guards | (redefs - {node.id})):
            bad.append(node)
    if bad:
        site.verdict = "violation"
        site.detail = f"'{var}' is used at line(s) {sorted({b.lineno for b in bad})} on a path that bypasses the length check"
        return
    if not uses:
        site.verdict, site.detail = "guarded", f"guard [{'; '.join(guard_desc)}] raises EOFError; value otherwise unused"
        return
    site.verdict = "guarded"
    site.detail = f"guard [{'; '.join(guard_desc)}] dominates all {len(uses)} use(s) of '{var}' (size {n_text}{', conditional' if cond is not None else ''})"


def _buf_update_idiom(cg: CallGraph, fi: FuncInfo, g: CFG, def_node, buf_store, var: str) -> tuple[bool, str]:
    # object receiving _buf
    node, _ = buf_store[0]
    callx = node.ast.value if isinstance(node.ast, ast.Expr) else None
    obj = None
    if isinstance(callx, ast.Call) and call_name(callx) == "__setattr__" and len(callx.args) >= 3 and isinstance(callx.args[0], ast.Name):
        obj = callx.args[0].id
    elif isinstance(node.ast, ast.Assign) and isinstance(node.ast.targets[0], ast.Attribute) and isinstance(node.ast.targets[0].value, ast.Name):
        obj = node.ast.targets[0].value.id
    if obj is None:
        return False, f"'{var}' stored as _buf in an unrecognised way"
    upd = {n.id for n in g.nodes if n.kind == "stmt" and isinstance(n.ast, ast.Expr) and isinstance(n.ast.value, ast.Call)
           and norm(n.ast.value.func) == f"{obj}._update"}
    if not upd:
        return False, f"'{var}' stored as {obj}._buf but {obj}._update() is never called: members would be fabricated from a short buffer"
    # every (branch-consistent) path from the read to the normal exit passes _update()
    for facts in arrival_facts(g, g.entry.id, def_node.id) or [{}]:
        reach = g.reachable_sensitive(def_node.id, avoid=upd, init=facts)
        if g.exit.id in reach:
            return False, f"a path from the read of '{var}' to return skips {obj}._update() (facts {facts})"
    # _update must re-parse the buffer through _read_fields(BytesIO(self._buf))
    upd_fi = cg.repo.func_opt("types/structure.py", "Union._update")
    if upd_fi is None:
        return False, "Union._update vanished"
    reparses = any(isinstance(c, ast.Call) and call_name(c) == "_read_fields" and c.args and isinstance(c.args[0], ast.Call)
                   and call_name(c.args[0]) == "BytesIO" and "_buf" in norm(c.args[0]) for c in walk_body(upd_fi.node.body))
    if not reparses:
        return False, "Union._update no longer re-parses BytesIO(self._buf) through _read_fields"
    return True, f"bytes kept as {obj}._buf and re-parsed by {obj}._update() on every path (members are length-checked there)"


# ---------------------------------------------------------------------------------------------------------------

def _handler_catches_io(h: ast.ExceptHandler) -> bool:
    if h.type is None:
        return True
    types = h.type.elts if isinstance(h.type, ast.Tuple) else [h.type]
    for t in types:
        c = chain(t)
        nm = ".".join(c) if c else norm(t)
        if nm in IO_EXC or nm.split(".")[-1] in IO_EXC:
            return True
    return False


FIXTURE_EXEC = "def generate(self):\n    br = BitBuffer(None, self.cs.endian)\n    exec(code, {'_bit_reader': br, '_struct': _struct, **symbols}, d := {})\n"


def _exec_global_instances(fn: ast.AST, module_level: set[str]) -> list[tuple[ast.AST, str]]:
    """Entries of the globals dict handed to exec() that are objects created per generated reader (a call result), not module-level
    classes / functions or the field-type table: such an object is shared by every call of that reader."""
    from ..util import resolve_local

    out = []
    for c in ast.walk(fn):
        if not (isinstance(c, ast.Call) and isinstance(c.func, ast.Name) and c.func.id == "exec" and len(c.args) >= 2):
            continue
        g = resolve_local(fn, c.args[1])
        if not isinstance(g, ast.Dict):
            out.append((c, f"globals '{short(c.args[1], 40)}' are not a dict display"))
            continue
        for k, v in zip(g.keys, g.values):
            if k is None:
                src = resolve_local(fn, v)
                ok = isinstance(src, ast.DictComp) and norm(src.value).endswith(".type")
                if not ok:
                    out.append((v, f"'**{short(v, 30)}' is not the token -> field.type table"))
                elif isinstance(v, ast.Name):
                    # the table must stay the field-type table: nothing else may be merged into it afterwards
                    for m in ast.walk(fn):
                        if isinstance(m, ast.Call) and isinstance(m.func, ast.Attribute) and isinstance(m.func.value, ast.Name) and m.func.value.id == v.id \
                                and m.func.attr in ("update", "setdefault", "__setitem__"):
                            out.append((m, f"'{short(m, 50)}' merges other objects into the table handed to exec"))
                        if isinstance(m, (ast.Assign, ast.AugAssign)):
                            for t in (m.targets if isinstance(m, ast.Assign) else [m.target]):
                                if isinstance(t, ast.Subscript) and isinstance(t.value, ast.Name) and t.value.id == v.id:
                                    out.append((m, f"'{short(m, 50)}' adds another object to the table handed to exec"))
                                if isinstance(m, ast.AugAssign) and isinstance(t, ast.Name) and t.id == v.id:
                                    out.append((m, f"'{short(m, 50)}' merges other objects into the table handed to exec"))
                continue
            val = resolve_local(fn, v)
            if isinstance(val, ast.Name) and val.id in module_level:
                continue
            out.append((v, f"entry {short(k, 20)} is '{short(val, 50)}', an object created when the reader is generated"))
    return out


def generated_globals_rule(repo: Repo, rep: Report, rid: str) -> None:
    rep.rule(rid, "the generated reader's globals hold only module-level classes / functions and the field-type table: no object created at generation time "
                  "(such as a bit buffer) is shared between calls, so a failed parse cannot leave state behind for the next one")
    mod = repo.module("compiler.py")
    module_level = set(mod.classes) | {q for q in mod.functions if "." not in q}
    for st in mod.tree.body:
        if isinstance(st, (ast.Import, ast.ImportFrom)):
            module_level |= {(a.asname or a.name).split(".")[0] for a in st.names}
        elif isinstance(st, ast.If):
            for s2 in ast.walk(st):
                if isinstance(s2, (ast.Import, ast.ImportFrom)):
                    module_level |= {(a.asname or a.name).split(".")[0] for a in s2.names}
    fx = _exec_global_instances(ast.parse(FIXTURE_EXEC).body[0], {"BitBuffer", "_struct"})
    if len(fx) != 2:
        raise AnalysisError("exec-globals matcher no longer recognises its positive fixture")
    rep.ok(rid, "fixture:exec globals with an instance", "matcher recognises the positive fixture", "", nontrivial=False)
    n = 0
    for fi in mod.functions.values():
        execs = [c for c in walk_body(fi.node.body) if isinstance(c, ast.Call) and isinstance(c.func, ast.Name) and c.func.id == "exec"]
        if not execs:
            continue
        n += len(execs)
        bad = _exec_global_instances(fi.node, module_level)
        rep.check(not bad, rid, f"{fi.key}:exec-globals", "only module-level classes / functions and the field-type table",
                  f"the generated reader's globals contain a per-reader object: {bad[0][1] if bad else ''}; every call of the compiled _read shares it, so state "
                  "left by a parse that raised (e.g. a bit-field unit marked as pending when the read hit EOF) is consumed by the next parse", fi.loc(bad[0][0]) if bad else fi.loc())
    rep.floor(rid, "exec sites in compiler.py", n, 1)


def call_shortcut_rule(repo: Repo, rep: Report, rid: str) -> None:
    rep.rule(rid, "call syntax: S(bytes) is parsed (so short input raises) unless the structure has exactly one field, of a bytes type, and the argument "
                  "has exactly its size - the only case where initialising and parsing coincide (StructureMetaType.__call__ folded over 16 "
                  "(field list, arguments) cases)")
    from ..folds import fold_structure_call

    fi = repo.func("types/structure.py", "StructureMetaType.__call__")
    fold = fold_structure_call(repo)
    if fold is None:
        rep.ok(rid, f"{fi.key}:fold", "not foldable with the evaluator's whitelist", fi.loc(), nontrivial=False)
        return
    bad = fold["bad"]
    rep.check(not bad, rid, f"{fi.key}:fold", f"{fold['cases']} cases: bytes are parsed except in the single-bytes-field case, which records the same bookkeeping as a read",
              f"StructureMetaType.__call__ on a structure with {bad[0][0] if bad else ''} called with {bad[0][1] if bad else ''}: {bad[0][2] if bad else ''}, "
              f"expected {bad[0][3] if bad else ''}: input that ends after the first field would be accepted and the other fields fabricated from defaults", fi.loc())


def no_fabrication_rule(repo: Repo, rep: Report, rid: str) -> None:
    rep.rule(rid, "bytes that came from the input are never extended: in the readers (types/*.py, bitbuffer.py) a value returned by <stream>.read() is not "
                  "padded - no '+=' / '+' with a bytes constant, a repeated bytes constant or bytes(n), no ljust / rjust / zfill / extend on it: the padding "
                  "would be decoded as data the input never held")
    n = 0
    for fi in sorted(repo.all_functions(), key=lambda f: f.key):
        if not (fi.module.rel.startswith("types/") or fi.module.rel == "bitbuffer.py"):
            continue
        from_read = {t.id for st in ast.walk(fi.node) if isinstance(st, ast.Assign) and isinstance(st.value, ast.Call) and call_name(st.value) in ("read", "read1", "readinto", "recv")
                     for t in st.targets if isinstance(t, ast.Name)}
        from_read |= {st.target.id for st in ast.walk(fi.node) if isinstance(st, ast.NamedExpr) and isinstance(st.value, ast.Call) and call_name(st.value) == "read"}
        if not from_read:
            continue

        def filler(e: ast.AST) -> bool:
            if isinstance(e, ast.Constant) and isinstance(e.value, (bytes, bytearray)):
                return True
            if isinstance(e, ast.BinOp) and isinstance(e.op, ast.Mult):
                return filler(e.left) or filler(e.right)
            return isinstance(e, ast.Call) and call_name(e) in ("bytes", "bytearray") and bool(e.args) and not isinstance(e.args[0], ast.Name)

        for v in sorted(from_read):
            n += 1
            bad = None
            for x in ast.walk(fi.node):
                if isinstance(x, ast.AugAssign) and isinstance(x.op, ast.Add) and isinstance(x.target, ast.Name) and x.target.id == v and filler(x.value):
                    bad = x
                elif isinstance(x, ast.BinOp) and isinstance(x.op, ast.Add) and ((isinstance(x.left, ast.Name) and x.left.id == v and filler(x.right)) or
                                                                                  (isinstance(x.right, ast.Name) and x.right.id == v and filler(x.left))):
                    bad = x
                elif isinstance(x, ast.Call) and isinstance(x.func, ast.Attribute) and x.func.attr in ("ljust", "rjust", "zfill", "extend", "center") and \
                        isinstance(x.func.value, ast.Name) and x.func.value.id == v:
                    bad = x
            rep.check(bad is None, rid, f"{fi.key}:{v} = read()", "the bytes read are used as they came",
                      f"{fi.qualname} pads what it read from the stream ('{short(bad, 60) if bad is not None else ''}'): on an input that ends early the missing bytes are "
                      "made up and decoded as values instead of raising EOFError", fi.loc(bad) if bad is not None else fi.loc())
    rep.floor(rid, "values read from the stream in the readers", n, 8)


def meta_call_rule(repo: Repo, rep: Report, rid: str) -> None:
    rep.rule(rid, "call syntax of every type: T(x) parses exactly when x is the only positional argument and is a stream or a buffer (a bytes object "
                  "of exactly the type's size given to a bytes type is adopted); every other call constructs the value from all its arguments "
                  "(MetaType.__call__ folded over 28 argument shapes)")
    from ..folds import fold_meta_call

    fi = repo.func("types/base.py", "MetaType.__call__")
    fold = fold_meta_call(repo)
    if fold is None:
        rep.ok(rid, f"{fi.key}:fold", "not foldable with the evaluator's whitelist", fi.loc(), nontrivial=False)
        return
    bad = fold["bad"]
    rep.check(not bad, rid, f"{fi.key}:fold", f"{fold['cases']} argument shapes agree with the reference",
              f"MetaType.__call__ called with {bad[0][0] if bad else ''}: {bad[0][1] if bad else ''}, expected {bad[0][2] if bad else ''}: positional "
              "construction whose first value is bytes-like is parsed (the other values dropped), or input meant to be parsed is adopted unparsed", fi.loc())


def template_read_check_rule(repo: Repo, rep: Report, rid: str) -> None:
    rep.rule(rid, "every code template of the generated reader that fetches a sized block checks its length itself: the statements that slice the "
                  "block are appended after the template, so a template with 'buf = stream.read(N)' and no 'if len(buf) != N: raise EOFError()' lets a "
                  "short read through (slicing a short buffer yields short values, not an error)")
    n = 0
    for t in T.reader_templates(repo):
        if t.tree is None or t.kind != "stmt":
            continue
        body = list(t.tree.body)
        for i, st in enumerate(body):
            if not (isinstance(st, ast.Assign) and isinstance(st.value, ast.Call) and call_name(st.value) == "read" and st.value.args
                    and isinstance(st.targets[0], ast.Name)):
                continue
            var, size = st.targets[0].id, norm(st.value.args[0])
            n += 1
            checked = any(isinstance(x, ast.If) and always_raises(x.body) and f"len({var})" in norm(x.test) and size in norm(x.test) for x in body[i + 1:])
            rep.check(checked, rid, f"{t.func.key}:template {short(st, 40)}#{n}", "followed by its length check in the same template",
                      f"template '{' '.join(t.text.split())[:70]}' of {t.func.qualname} reads {size} bytes into '{var}' without checking len({var}): a block made "
                      "only of byte-sliced fields (char, char[n], int24 ...) is then accepted from truncated input with shortened values", t.func.loc(t.node))
    rep.floor(rid, "sized block reads in reader templates", n, 1)


def run(repo: Repo, rep: Report, tier: str) -> None:
    from .compiled import compiled_fold_rule, shape_rule

    compiled_fold_rule(repo, rep, "C08.R10", tier)
    R1, R2, R3 = "C08.R1", "C08.R2", "C08.R3"
    rep.rule(R1, "every sized stream.read(n) is length-checked (EOFError on short read) on every path before its result is used")
    rep.rule(R2, "no try/except (or suppress) around code that reads from the stream swallows the failure")
    rep.rule(R3, "no residue: an attribute of a shared object written during a parse is re-initialised before it is read again")

    tfuncs = T.reader_template_functions(repo)
    cg = CallGraph(repo, extra_functions=tfuncs)
    ep = entry_points(repo)
    roots = ep["PARSE"] + [f.key for f in tfuncs]
    clo = cg.closure(roots)
    rep.info["reach_sizes"] = {"PARSE_roots": len(roots), "closure": len(clo)}

    # ---- R1
    total = 0
    verdicts: dict[str, int] = {}
    scan = [fi for fi in cg.funcs.values() if fi.module.rel.startswith("types/") or fi.module.rel in ("bitbuffer.py", "compiler.py")
            or fi.key in clo]
    for fi in sorted(scan, key=lambda f: f.key):
        if fi.module.rel == "compiler.py" and not fi.qualname.startswith("<generated>"):
            continue
        for site in analyse_read_sites(cg, fi):
            total += 1
            verdicts[site.verdict] = verdicts.get(site.verdict, 0) + 1
            if site.verdict == "violation":
                rep.fail(R1, site.key, site.detail, fi.loc(site.call))
            else:
                rep.ok(R1, site.key, f"{site.verdict}: {site.detail}", fi.loc(site.call), nontrivial=site.verdict != "discarded")
    rep.info["read_site_verdicts"] = verdicts
    rep.floor(R1, "sized stream reads", total, 12)

    # ---- R2
    direct = set()
    for fi in cg.funcs.values():
        binds = cg.local_bindings(fi)
        for n in walk_body(fi.node.body):
            if isinstance(n, ast.Call) and isinstance(n.func, ast.Attribute) and n.func.attr in ("read", "readinto", "readline") \
                    and (cg.is_stream(fi, n.func.value) or _is_stream_read(cg, fi, n, binds)):
                direct.add(fi.key)
    readers = cg.callers_closure(direct)
    rep.info["functions_reading_stream_transitively"] = len(readers)
    n_try = 0
    for k in sorted(clo):
        fi = cg.funcs[k]
        binds = cg.local_bindings(fi)
        for n in walk_body(fi.node.body):
            if isinstance(n, ast.Try):
                n_try += 1
                body_reads = False
                for c in walk_body(n.body):
                    if isinstance(c, ast.Call):
                        callees, _ = cg.resolve(fi, c, binds)
                        if any(x.key in readers for x in callees) or (isinstance(c.func, ast.Attribute) and c.func.attr == "read" and _is_stream_read(cg, fi, c, binds)):
                            body_reads = True
                key = f"{fi.key}:try {short(n.body[0], 60)}"
                if not body_reads:
                    rep.ok(R2, key, "try body performs no stream read (transitively)", fi.loc(n))
                    continue
                swallowed = [h for h in n.handlers if _handler_catches_io(h) and not always_raises(h.body)]
                fin_ret = any(isinstance(x, ast.Return) for x in walk_body(n.finalbody))
                if swallowed or fin_ret:
                    rep.fail(R2, key, "a handler around a stream read catches I/O-class exceptions without re-raising: a failed read "
                                      "could be turned into a value", fi.loc(n))
                else:
                    rep.ok(R2, key, "handlers re-raise or cannot catch read failures", fi.loc(n))
            elif isinstance(n, ast.With):
                for it in n.items:
                    if isinstance(it.context_expr, ast.Call) and call_name(it.context_expr) == "suppress":
                        n_try += 1
                        rep.fail(R2, f"{fi.key}:with {short(it.context_expr, 50)}", "contextlib.suppress inside the parse closure", fi.loc(n))
    rep.floor(R2, "try statements in the PARSE closure", n_try, 1)

    # ---- R3
    residue_rule(repo, rep, R3, cg, clo, roots)
    # ---- R4: a count can only be negative as the EOF sentinel (otherwise a length that happens to equal it reads to end of stream)
    from .c07 import clamp_rule

    clamp_rule(repo, rep, "C08.R4")
    from .c05 import codec_fold_rule

    codec_fold_rule(repo, rep, "C08.R5", slots=("_read", "_read_array", "_read_0"))
    call_shortcut_rule(repo, rep, "C08.R6")
    shape_rule(repo, rep, tier, generated_globals_rule, "C08.R7")
    from .c07 import array_count_fold_rule

    array_count_fold_rule(repo, rep, "C08.R8")
    shape_rule(repo, rep, tier, template_read_check_rule, "C08.R9")
    from .memo import memo_rule

    memo_rule(repo, rep, "C08.R11")
    meta_call_rule(repo, rep, "C08.R12")
    no_fabrication_rule(repo, rep, "C08.R13")
    from .c05 import leb128_rule as _leb

    _leb(repo, rep, "C08.R14")
    from .c11 import union_encode_rule

    # the raw buffer a union keeps holds as many bytes as the input had: a cut inside the union's tail padding leaves it short, so a union dumped
    # from that buffer differs from the value the complete input gives
    union_encode_rule(repo, rep, "C08.R15")
def residue_rule(repo: Repo, rep: Report, rid: str, cg: CallGraph, clo: set[str], roots: list[str]) -> None:
    """Shared-object attributes written in the closure must be reset before any read on entry (or not written at all)."""
    ea = EffectAnalysis(repo, cg)
    offenders: dict[tuple[str, str], list] = {}
    n = 0
    for k in sorted(clo):
        fi = cg.funcs[k]
        for e in ea.effects(fi):
            n += 1
            if e.root_class in ("self-shared", "cls", "global", "shared-call"):
                owner = fi.cls.name if fi.cls is not None and e.root == fi.self_name else e.root
                offenders.setdefault((owner, e.attr or e.target), []).append(e)
    rep.info.setdefault("effects_examined", n)
    if not offenders:
        rep.ok(rid, "closure:no-shared-writes", f"no store to any shared object among {n} write effects of {len(clo)} reachable functions: "
                                                 "there is nothing a failed or earlier parse could leave behind")
        return
    for (owner, attr), effs in sorted(offenders.items()):
        key = f"{owner}.{attr}"
        # find the entry method of that class in the closure that resets the attribute first
        ok = False
        why = ""
        for e in effs:
            fi = e.func
            if e.what == "store" and isinstance(e.node, ast.Assign) and e.target == f"{e.root}.{attr}" and \
                    isinstance(e.node.value, (ast.List, ast.Dict, ast.Set, ast.Constant, ast.Tuple)):
                g = CFG(fi.node)
                dn = g.node_of(e.node)
                others = [x for x in g.nodes if x.expr() is not None and x.id != dn.id and f"{e.root}.{attr}" in norm(x.expr())]
                callers_first = all(g.dominates(dn.id, x.id) for x in others)
                # helper methods touching the attribute must only be called after the reset
                helper_calls = [x for x in g.nodes if x.expr() is not None and any(
                    isinstance(c, ast.Call) and chain(c.func) and chain(c.func)[0] == e.root for c in ast.walk(x.expr()))]
                if callers_first and all(g.dominates(dn.id, x.id) for x in helper_calls):
                    ok, why = True, f"re-initialised at the top of {fi.qualname} before any use"
                    break
        if not ok:
            # constant marker rewrite under an equality guard on the same element (idempotent in place rewrite)
            elem = [e for e in effs if e.what == "store" and isinstance(e.node, ast.Assign) and isinstance(e.node.targets[0], ast.Subscript)]
            if elem and len(elem) == len(effs) and all(isinstance(e.node.value, ast.Constant) for e in elem):
                allg = True
                for e in elem:
                    g = CFG(e.func.node)
                    dn = g.node_of(e.node)
                    tgt = norm(e.node.targets[0])
                    doms = [x for x in g.nodes if x.kind == "if" and g.dominates(x.id, dn.id) and
                            any(isinstance(c, ast.Compare) and norm(c.left) == tgt and isinstance(c.ops[0], ast.Eq) for c in ast.walk(x.ast.test))]
                    allg = allg and bool(doms)
                if allg:
                    ok, why = True, "constant marker written under an equality guard on the same element (in-place rewrite is idempotent)"
        if ok:
            rep.ok(rid, key, why, effs[0].func.loc(effs[0].node))
        else:
            e = effs[0]
            rep.fail(rid, key, f"{owner}.{attr} is written during a parse ({e.func.qualname}: {e.what} {e.target}) and is not "
                               f"re-initialised before use: state survives into the next parse", e.func.loc(e.node))
