"""C02 - byte fidelity of parse-then-dump."""

from __future__ import annotations

import ast

from ..boolalg import Formula
from ..cfg import CFG, Node
from ..model import FuncInfo, Repo
from ..report import Report
from ..util import AnalysisError, parent_map, call_name, chain, const_value, is_const, norm, short, walk_body, walk_local
from .compiled import shape_of


def _is_zero_bytes_times(e: ast.AST) -> bool:
    if isinstance(e, ast.BinOp) and isinstance(e.op, ast.Mult):
        for a in (e.left, e.right):
            if isinstance(a, ast.Constant) and isinstance(a.value, bytes) and a.value and set(a.value) == {0}:
                return True
    return False


def _calls(node: ast.AST, name: str, recv_contains: str | None = None):
    src = node if not isinstance(node, ast.stmt) else node
    for c in (ast.walk(src) if not isinstance(src, ast.stmt) else walk_local(src)):
        if isinstance(c, ast.Call) and call_name(c) == name:
            if recv_contains is None or (isinstance(c.func, ast.Attribute) and recv_contains in norm(c.func.value)):
                yield c


def node_calls(n: Node, name: str, recv_contains: str | None = None) -> list[ast.Call]:
    e = n.expr()
    if e is None:
        return []
    return list(_calls(e, name, recv_contains))


# ---------------------------------------------------------------------------------------------------------------

def padding_rule(repo: Repo, rep: Report, rid: str) -> None:
    rep.rule(rid, "padding is zero: every raw stream.write in the structure/union writers emits b'\\x00' * n; the bit buffer starts from 0 and is only OR-ed into")
    n = 0
    for qn in ("StructureMetaType._write", "UnionMetaType._write"):
        fi = repo.func("types/structure.py", qn)
        stream = fi.node.args.args[1].arg
        for c in walk_body(fi.node.body):
            if isinstance(c, ast.Call) and call_name(c) == "write" and isinstance(c.func, ast.Attribute) and norm(c.func.value) == stream:
                n += 1
                arg = c.args[0] if c.args else None
                rep.check(arg is not None and _is_zero_bytes_times(arg), rid, f"{fi.key}:{short(c, 70)}", "zero padding",
                          f"raw write '{short(arg, 50)}' is not zero padding (b'\\x00' * n): bytes that belong to no field must be written as zero", fi.loc(c))
    rep.floor(rid, "raw padding writes", n, 4)
    m = 0
    for qn in ("BitBuffer.__init__", "BitBuffer.flush", "BitBuffer.reset"):
        fi = repo.func("bitbuffer.py", qn)
        asg = [s for s in walk_body(fi.node.body) if isinstance(s, (ast.Assign, ast.AnnAssign)) and
               norm(s.targets[0] if isinstance(s, ast.Assign) else s.target) == "self._buffer"]
        m += len(asg)
        rep.check(len(asg) >= 1 and all(is_const(s.value) and const_value(s.value) == 0 for s in asg), rid, f"{fi.key}:self._buffer", "unit starts from 0",
                  f"{qn} leaves the unit buffer at {[norm(s.value) for s in asg]}: unassigned bits would not be zero", fi.loc())
    fi = repo.func("bitbuffer.py", "BitBuffer.write")
    stores = [s for s in walk_body(fi.node.body) if isinstance(s, (ast.Assign, ast.AugAssign)) and
              norm(s.targets[0] if isinstance(s, ast.Assign) else s.target) == "self._buffer"]
    rep.check(bool(stores) and all(isinstance(s, ast.AugAssign) and isinstance(s.op, ast.BitOr) for s in stores), rid, f"{fi.key}:self._buffer",
              "bits are only OR-ed into the unit", f"BitBuffer.write stores into the unit other than by |= : {[short(s, 50) for s in stores]}", fi.loc())
    rep.floor(rid, "bit buffer reset sites", m, 3)


def _field_loop(g: CFG, iter_text: str) -> Node:
    loops = [n for n in g.nodes if n.kind == "for" and norm(n.ast.iter) == iter_text]
    if len(loops) != 1:
        raise AnalysisError(f"expected exactly one loop over {iter_text}, found {len(loops)}")
    return loops[0]


def writer_flush_analysis(repo: Repo):
    """Shared by C02.R2 / C06.R1: the flush guard of StructureMetaType._write and the atoms of its test."""
    fi = repo.func("types/structure.py", "StructureMetaType._write")
    g = CFG(fi.node)
    loop = _field_loop(g, "cls.__fields__")
    in_loop = g.reachable(loop.id, first_edge="loop", avoid={loop.id})
    bb = None
    for s in walk_body(fi.node.body):
        if isinstance(s, ast.Assign) and isinstance(s.value, ast.Call) and call_name(s.value) == "BitBuffer":
            bb = norm(s.targets[0])
    if bb is None:
        raise AnalysisError("StructureMetaType._write: BitBuffer construction not found")
    guards = [n for n in g.nodes if n.kind == "if" and n.id in in_loop and any(
        isinstance(c, ast.Call) and call_name(c) == "flush" and norm(c.func.value) == bb for s in n.ast.body for c in ast.walk(s))]
    return fi, g, loop, in_loop, bb, guards


def writer_interp(bb: str):
    def interp(e: ast.AST):
        t = norm(e)
        if t == f"{bb}._type is not None" or t == f"{bb}._type":
            return "PENDING"
        if t == f"{bb}._type is None":
            return ("not", "PENDING")
        if t == "field.bits":
            return "BITS"
        if isinstance(e, ast.Compare) and len(e.ops) == 1 and isinstance(e.ops[0], (ast.NotEq, ast.Eq)):
            l, r = norm(e.left), norm(e.comparators[0])
            if f"{bb}._type" in (l, r) and "type" in (r if l == f"{bb}._type" else l):
                return "TYPECHANGED" if isinstance(e.ops[0], ast.NotEq) else ("not", "TYPECHANGED")
        return None

    return interp


def flush_rule(repo: Repo, rep: Report, rid: str) -> None:
    rep.rule(rid, "a pending bit-field unit is flushed before anything else is emitted: the flush guard dominates every in-loop emit site and is "
                  "true whenever a unit is pending and the current field is not a bit-field; the tail padding is preceded by a flush; "
                  "reader and generator reset the unit at the same boundary")
    fi, g, loop, in_loop, bb, guards = writer_flush_analysis(repo)
    stream = fi.node.args.args[1].arg
    if len(guards) != 1:
        rep.fail(rid, f"{fi.key}:flush-guard", f"expected one in-loop guard that flushes the bit buffer, found {len(guards)}", fi.loc())
        return
    guard = guards[0]
    f = Formula(guard.ast.test, writer_interp(bb))
    rep.check(f.always({"BITS": False, "PENDING": True}, True), rid, f"{fi.key}:flush-guard:non-bit", "guard is true whenever (not field.bits and a unit is pending)",
              f"flush guard '{short(guard.ast.test, 90)}' can be false for a non-bit field while a unit is pending: the field's bytes would be "
              f"emitted before the pending bits", fi.loc(guard.ast))
    emits = []
    for n in g.nodes:
        if n.id not in in_loop or n.kind not in ("stmt",) or n.id == guard.id:
            continue
        for c in node_calls(n, "write"):
            if isinstance(c.func, ast.Attribute) and norm(c.func.value) == stream:
                emits.append((n, c))
        for c in node_calls(n, "_write"):
            if c.args and norm(c.args[0]) == stream:
                emits.append((n, c))
    for n, c in emits:
        rep.check(g.must_pass(loop.id, n.id, {guard.id}), rid, f"{fi.key}:emit {short(c, 60)}", "flush guard precedes this emit in every iteration",
                  f"'{short(c, 60)}' can be reached in an iteration before the bit-buffer flush guard: bytes would be emitted ahead of pending bits", fi.loc(c))
    rep.floor(rid, "in-loop emit sites of the structure writer", len(emits), 3)
    # after the loop
    after = g.reachable(loop.id, first_edge="done") - in_loop
    tail_writes = [(n, c) for n in g.nodes if n.id in after for c in node_calls(n, "write") if isinstance(c.func, ast.Attribute) and norm(c.func.value) == stream]
    post_flush = [n for n in g.nodes if n.id in after and ((n.kind == "if" and any(isinstance(c, ast.Call) and call_name(c) == "flush" for s in n.ast.body for c in ast.walk(s))
                                                            and Formula(n.ast.test, writer_interp(bb)).always({"PENDING": True}, True))
                                                           or (n.kind == "stmt" and node_calls(n, "flush", bb) and _top_level_after(fi, n)))]
    rep.check(bool(post_flush), rid, f"{fi.key}:post-loop flush", "the last unit is flushed after the field loop",
              "no flush of a pending unit after the field loop: the last bit-field unit would never be written", fi.loc())
    for n, c in tail_writes:
        rep.check(bool(post_flush) and any(g.must_pass(loop.id, n.id, {p.id}) for p in post_flush), rid, f"{fi.key}:tail {short(c, 60)}",
                  "tail padding is emitted after the final flush", "tail padding can be emitted before the last unit is flushed", fi.loc(c))
    rep.floor(rid, "tail emit sites", len(tail_writes), 1)

    # reader mirror
    rd = repo.func("types/structure.py", "StructureMetaType._read")
    gr = CFG(rd.node)
    lr = _field_loop(gr, "cls.__fields__")
    resets = {n.id for n in gr.nodes if n.kind == "stmt" and node_calls(n, "reset")}
    reads = [(n, c) for n in gr.nodes for c in node_calls(n, "_read") if c.args and norm(c.args[0]) == rd.node.args.args[1].arg]
    for n, c in reads:
        rep.check(bool(resets) and gr.must_pass(lr.id, n.id, resets), rid, f"{rd.key}:{short(c, 60)}", "bit buffer reset precedes every non-bit field read",
                  "a non-bit field can be read without resetting the bit buffer: following bit-fields would continue a stale unit", rd.loc(c))
    rep.floor(rid, "reader non-bit read sites", len(reads), 1)

    # generator mirror: a rule on the shape of the source generator - where the compiled-reader fold interprets the generator it decides (the reset
    # is then visible in what the generated readers do on bit-field runs interrupted by every other kind of field)
    from .compiled import fold_decides

    if fold_decides(repo, rep.tier):
        rep.ok(rid, "compiler.py:shape:reset-guard", "the compiled-reader fold decides where the generator resets the bit reader", "", nontrivial=False)
        return
    gf = repo.func("compiler.py", "_ReadSourceGenerator._generate_fields")
    gg = CFG(gf.node)
    lg = _field_loop(gg, "self.fields")
    in_g = gg.reachable(lg.id, first_edge="loop", avoid={lg.id})
    rguard = [n for n in gg.nodes if n.kind == "if" and n.id in in_g and any(
        isinstance(y, (ast.Yield,)) and isinstance(y.value, ast.Constant) and "reset()" in str(y.value.value) for s in n.ast.body for y in ast.walk(s))]
    if len(rguard) != 1:
        rep.fail(rid, f"{gf.key}:reset-guard", f"expected one guard yielding the bit_reader.reset() line, found {len(rguard)}", gf.loc())
        return

    def ginterp(e: ast.AST):
        t = norm(e)
        if t == "prev_was_bits":
            return "PREVBITS"
        if t == "field.bits":
            return "BITS"
        return None

    fg = Formula(rguard[0].ast.test, ginterp)
    rep.check(fg.always({"PREVBITS": True, "BITS": False}, True), rid, f"{gf.key}:reset-guard", "reset emitted whenever a non-bit field follows bit-fields",
              f"generator reset guard '{short(rguard[0].ast.test, 60)}' can be false when a non-bit field follows a bit-field", gf.loc(rguard[0].ast))
    rep.check(lg.id not in gg.reachable(lg.id, first_edge="loop", avoid={rguard[0].id}, skip_exc=True), rid, f"{gf.key}:reset-guard:every-iteration",
              "every iteration of the generator's field loop evaluates the reset guard (the interpreted reader resets on every non-bit field)",
              "an iteration of the generator's field loop can end before the reset guard is evaluated (a 'continue' above it): a field that emits no "
              "code (e.g. void) between two bit-fields no longer closes the running unit in the compiled reader, while the layout and the interpreted "
              "reader start a new unit", gf.loc(rguard[0].ast))
    ys = [n for n in gg.nodes if n.id in in_g and n.id != rguard[0].id and n.kind == "stmt" and any(isinstance(y, (ast.Yield, ast.YieldFrom)) for y in ast.walk(n.ast))
          and n.ast not in rguard[0].ast.body]
    appends = [n for n in gg.nodes if n.id in in_g and n.kind == "stmt" and node_calls(n, "append", "current_block")]
    for n in ys + appends:
        rep.check(gg.must_pass(lg.id, n.id, {rguard[0].id}), rid, f"{gf.key}:{short(n.ast, 60)}", "reset guard precedes this per-field emission",
                  "a per-field emission can happen before the reset guard is evaluated", gf.loc(n.ast))
    rep.floor(rid, "generator per-field emissions", len(ys) + len(appends), 5)


def _top_level_after(fi: FuncInfo, n: Node) -> bool:
    return n.ast in fi.node.body


# ---------------------------------------------------------------------------------------------------------------

def terminator_rule(repo: Repo, rep: Report, rid: str) -> None:
    rep.rule(rid, "null-terminated arrays: every writer re-appends the terminator, every reader loop consumes the terminator and does not return it")
    table = repo.slot_table()
    seen: dict[str, FuncInfo] = {}
    for fam, slots in table.items():
        f = slots["_write_0"]
        if f is not None and not f.is_abstract():
            seen[f.key] = f
    nw = 0
    from ..folds import fold_generic_write_array, fold_leb128

    gw = fold_generic_write_array(repo)
    # slots of the scalar / character families that the codec folds interpret: function key -> discrepancies of that slot
    from .. import codecfold as _cf

    folded: dict[str, list] = {}
    cache = repo.__dict__.setdefault("_codec_folds", {})
    for fam in ("Int", "Packed", "Wchar", "Char"):
        if fam not in cache:
            cache[fam] = _cf.fold_family(repo, fam) if fam in ("Int", "Packed") else _cf.fold_text_family(repo, fam)
        fo = cache[fam]
        if fo is None:
            continue
        for slot in ("_read_0", "_write_0"):
            k_ = fo["slots"].get(slot)
            if k_:
                folded.setdefault(k_, [])
                folded[k_] += [b for b in fo["bad"] if b[0] == slot]
    ta = repo.__dict__.setdefault("_text_array_fold", {})
    if "v" not in ta:
        ta["v"] = _cf.fold_text_arrays(repo)
    for f in seen.values():
        nw += 1
        if f.qualname == "MetaType._write_0" and gw is not None:
            # decided by the outcome: the generic writers are folded on a model element type
            bad = [b for b in gw["bad"] if b[0] == "_write_0"]
            rep.check(not bad, rid, f"{f.key}:terminator", "folded: the elements and then the type's default are written, the caller's list is unchanged",
                      f"{f.qualname}: {bad[0][2] if bad else ''} ({bad[0][1] if bad else ''}; {bad[0][3] if bad else ''})", f.loc())
            continue
        calls = [c for c in walk_body(f.node.body) if isinstance(c, ast.Call) and call_name(c) in ("_write_array", "_write")]
        ok = False
        detail = "no delegated _write_array call"
        for c in calls:
            arr = c.args[1] if len(c.args) > 1 else None
            if isinstance(arr, ast.Name):
                # a local holding the terminated list
                defs = [s.value for s in walk_body(f.node.body) if isinstance(s, ast.Assign) and len(s.targets) == 1 and norm(s.targets[0]) == arr.id]
                if len(defs) == 1:
                    arr = defs[0]
            if isinstance(arr, ast.List) and arr.elts and isinstance(arr.elts[-1], ast.Call) and call_name(arr.elts[-1]) == "__default__" \
                    and any(isinstance(e, ast.Starred) for e in arr.elts[:-1]):
                ok = True
                detail = f"appends {short(arr.elts[-1], 40)} after the elements"
            elif isinstance(arr, ast.BinOp) and isinstance(arr.op, ast.Add) and isinstance(arr.right, ast.List) and arr.right.elts \
                    and isinstance(arr.right.elts[-1], ast.Call) and call_name(arr.right.elts[-1]) == "__default__":
                ok = True
                detail = "appends the default element"
            else:
                detail = f"passes '{short(arr, 50)}' on without a terminating default element"
        rep.check(ok, rid, f"{f.key}:terminator", detail, f"{f.qualname}: {detail}", f.loc())
    for cls in ("CharArray", "WcharArray"):
        f = repo.lookup_method(cls, "_write")
        if f is None or f.cls is None or f.cls.name != cls:
            rep.note(f"{cls} no longer overrides _write (terminator handled by the generic _write_0)")
            continue
        nw += 1
        if ta["v"] is not None:
            bad = [b for b in ta["v"]["bad"] if str(b[0]).split(".")[0] == cls and "null" in str(b[2])]
            rep.check(not bad, rid, f"{f.key}:terminator", "folded: a null-terminated character array is written as its encoding plus the terminator",
                      (f"{f.qualname} ({bad[0][1]}, {bad[0][2]} array) given {bad[0][3]!r}: {bad[0][4]}, expected {bad[0][5]}") if bad else "", f.loc())
            continue
        g = CFG(f.node)
        ifs = [n for n in g.nodes if n.kind == "if" and norm(n.ast.test) == f"{f.self_name}.null_terminated"]
        ok = False
        for n in ifs:
            for s in n.ast.body:
                for x in ast.walk(s):
                    if isinstance(x, (ast.BinOp, ast.AugAssign)) and isinstance(x.op, ast.Add):
                        r = x.right if isinstance(x, ast.BinOp) else x.value
                        if isinstance(r, ast.Constant) and r.value in (b"\x00", "\x00"):
                            ok = True
        rep.check(ok, rid, f"{f.key}:terminator", "NUL appended when null_terminated", f"{f.qualname} does not append a NUL when cls.null_terminated", f.loc())
    rep.floor(rid, "null-terminated writers", nw, 4)

    readers: dict[str, FuncInfo] = {}
    for fam, slots in table.items():
        f = slots["_read_0"]
        if f is not None and not f.is_abstract():
            readers[f.key] = f
    nr = 0
    lf = fold_leb128(repo)
    for f in readers.values():
        if f.qualname == "LEB128._read_0" and lf is not None and lf.get("read0_bad") is not None:
            nr += 1
            bad = lf["read0_bad"]
            rep.check(not bad, rid, f"{f.key}:loop", "folded: stops at and consumes the first zero value, raises without a terminator",
                      (f"{f.qualname} (signed={bad[0][0]}) on {bad[0][1]} ({bad[0][2]}): {bad[0][3]}, stream left at {bad[0][4]}; expected {bad[0][5]} at {bad[0][6]}") if bad else "", f.loc())
            continue
        if f.key in folded:
            nr += 1
            bad = folded[f.key]
            rep.check(not bad, rid, f"{f.key}:loop", "folded (codec fold): stops at and consumes the terminator, which is not returned",
                      (f"{f.qualname}: case '{bad[0][2]}' ({bad[0][1]}): got {bad[0][3]!r}, reference {bad[0][4]!r}") if bad else "", f.loc())
            continue
        g = CFG(f.node)
        loops = [n for n in g.nodes if n.kind == "while"]
        if not loops:
            # delegating (Enum) or degenerate (Void) forms
            dele = [c for c in walk_body(f.node.body) if isinstance(c, ast.Call) and call_name(c) == "_read_0"]
            rep.ok(rid, f"{f.key}:loop", "delegates to the underlying type's _read_0" if dele else "no loop (degenerate element)", f.loc(), nontrivial=bool(dele))
            continue
        nr += 1
        for extra in loops[1:]:
            _reader_loop(rep, rid, f, g, extra, f"{f.key}:loop#{loops.index(extra) + 1}")
        _reader_loop(rep, rid, f, g, loops[0], f"{f.key}:loop")
    rep.floor(rid, "null-terminated reader loops", nr, 5)


def _reader_loop(rep: Report, rid: str, f: FuncInfo, g: CFG, lp, key: str) -> None:
    if True:
        body_ids = g.reachable(lp.id, first_edge="T", avoid={lp.id})
        appends = [n for n in g.nodes if n.id in body_ids and n.kind == "stmt" and node_calls(n, "append")]
        if isinstance(lp.ast.test, ast.NamedExpr) or any(isinstance(x, ast.NamedExpr) for x in ast.walk(lp.ast.test)):
            # while obj := cls._read(...):  -> the falsy element ends the loop and is not appended
            has_read = any(call_name(c) in ("_read", "read") for c in ast.walk(lp.ast.test) if isinstance(c, ast.Call))
            rep.check(has_read and bool(appends), rid, key, "element read in the loop test; a zero element ends the loop un-appended",
                      "loop test does not read the element", f.loc(lp.ast))
            return
        readn = [n for n in g.nodes if n.id in body_ids and (node_calls(n, "read") or node_calls(n, "_read"))]
        zero = [n for n in g.nodes if n.id in body_ids and n.kind == "if" and any(isinstance(s, ast.Break) for s in n.ast.body)
                and any(isinstance(c, ast.Constant) and c.value in (0, b"\x00", b"\x00\x00", "\x00") for c in ast.walk(n.ast.test))]
        ok = bool(readn) and bool(zero) and bool(appends)
        if ok and f.cls is not None and f.cls.name == "StructureMetaType":
            # a structure's terminator is the first element whose *fields* are all zero: the test must look at the parsed element, raw bytes also
            # cover padding and unused bits, which belong to no field
            from ..util import resolve_local

            operands = [resolve_local(f.node, x) if isinstance(x, ast.Name) else x for x in ast.walk(zero[0].ast.test)]
            raw = [c for o in operands if o is not None for c in ast.walk(o) if isinstance(c, ast.Call) and call_name(c) == "read"]
            if raw:
                rep.fail(rid, key, f"{f.qualname}: the terminator test compares raw bytes ('{short(zero[0].ast.test, 60)}'): an element whose fields are all zero but "
                                   "whose padding / unused bits are not is no longer recognised as the terminator", f.loc(zero[0].ast))
                return
        if ok:
            first_read = min(readn, key=lambda n: n.lineno)
            z = zero[0]
            if first_read.id == z.id:
                # ``if (value := cls._read(...)) == 0: break`` - read and zero test are one node
                ok = all(g.must_pass(lp.id, a.id, {z.id}) for a in appends)
            else:
                ok = g.must_pass(lp.id, z.id, {first_read.id}) and all(g.must_pass(first_read.id, a.id, {z.id}) for a in appends)
        rep.check(ok, rid, key, "read -> zero test (break) -> append",
                  f"{f.qualname}: the element is not read before the zero test, or it can be appended without passing the zero test "
                  f"(terminator must be consumed and not returned)", f.loc(lp.ast))


def offset_pad_rule(repo: Repo, rep: Report, rid: str) -> None:
    rep.rule(rid, "the writer pads up to a field's recorded offset in both layout modes, as the reader seeks to it in both modes: the padding write "
                  "that mentions field.offset is not conditioned on the alignment flag")
    fi = repo.func("types/structure.py", "StructureMetaType._write")
    pm = {}
    for p_ in ast.walk(fi.node):
        for c_ in ast.iter_child_nodes(p_):
            pm[c_] = p_
    stream = fi.node.args.args[1].arg
    pads = [c for c in walk_body(fi.node.body) if isinstance(c, ast.Call) and call_name(c) == "write" and norm(c.func.value) == stream and "field.offset" in norm(c)]
    if not pads:
        rep.fail(rid, f"{fi.key}:offset-pad", "the writer no longer pads up to field.offset at all", fi.loc())
        return
    for c in pads:
        conds = []
        p_ = pm.get(c)
        child = c
        while p_ is not None and p_ is not fi.node:
            if isinstance(p_, ast.If) and any(child is s2 or any(child is y for y in ast.walk(s2)) for s2 in p_.body):
                conds.append(norm(p_.test))
            child = p_
            p_ = pm.get(p_)
        bad = [t for t in conds if "align" in t.lower()]
        rep.check(not bad, rid, f"{fi.key}:{short(c, 60)}", f"padding to the recorded offset happens under {conds}",
                  f"padding up to field.offset only happens under {bad}: a packed structure with an explicit field offset (add_field(..., offset=12)) is "
                  f"dumped shorter than its size and later fields land at the wrong position, while the reader still seeks to the offset", fi.loc(c))
    rd = repo.func("types/structure.py", "StructureMetaType._read")
    rstream = rd.node.args.args[1].arg
    rpm = {}
    for p_ in ast.walk(rd.node):
        for c_ in ast.iter_child_nodes(p_):
            rpm[c_] = p_

    def guards(node: ast.AST) -> list[str]:
        out, child, p2 = [], node, rpm.get(node)
        while p2 is not None and p2 is not rd.node:
            if isinstance(p2, ast.If) and any(child is s3 or any(child is y for y in ast.walk(s3)) for s3 in p2.body):
                out.append(norm(p2.test))
            child, p2 = p2, rpm.get(p2)
        return out

    # seeks whose target is the recorded offset: guarded (at any nesting depth) by 'field.offset is not None'
    seeks = [c for c in walk_body(rd.node.body) if isinstance(c, ast.Call) and call_name(c) == "seek" and norm(c.func.value) == rstream
             and any("field.offset is not None" in t for t in guards(c))]
    rep.check(bool(seeks) and not any("align" in t.lower() for c in seeks for t in guards(c)), rid, f"{rd.key}:offset-seek",
              "the reader seeks to recorded offsets in both modes", "the reader's seek to the recorded field offset is conditioned on the alignment flag", rd.loc())


def leb128_termination_rule(repo: Repo, rep: Report, rid: str) -> None:
    rep.rule(rid, "LEB128 writer: every path that emits output passes the termination test that consults cls.signed and the sign bit (no fast "
                  "path may bypass it: 64..127 need two bytes when signed)")
    fi = repo.func("types/leb128.py", "LEB128._write")
    from ..folds import fold_leb128

    fold = fold_leb128(repo)
    if fold is not None:
        bad = [x for x in fold["write_bad"] if x[3] != "refusal of a negative value"] + [x for x in fold["loop_bad"] if x[0] == "write"]
        rep.check(not bad, rid, f"{fi.key}:termination", f"writer folded over {fold['cases']} (signedness, value) cases: every value gets the canonical reference "
                  "encoding (the sign-aware termination test is passed on every path)",
                  "LEB128._write can emit output without passing the termination test that looks at cls.signed and the sign bit 0x40: some values get a "
                  f"non-canonical or wrong encoding (e.g. a single byte for signed 64..127 decodes as negative): (signed, value, emitted, reference) = {bad[0] if bad else ''}",
                  fi.loc())
        neg_bad = [x for x in fold["write_bad"] if x[3] == "refusal of a negative value"]
        rep.check(not neg_bad, rid, f"{fi.key}:negative-unsigned", "negative values are refused for unsigned LEB128",
                  f"negative values are no longer refused for uleb128: {neg_bad[0] if neg_bad else ''}", fi.loc())
        return
    g = CFG(fi.node)
    stream = fi.node.args.args[1].arg
    term = {n.id for n in g.nodes if n.kind == "if" and f"{fi.self_name}.signed" in norm(n.ast.test) and any(
        isinstance(c, ast.Constant) and c.value == 0x40 for c in ast.walk(n.ast.test))}
    writes = [n for n in g.nodes if n.kind == "stmt" and any(norm(c.func.value) == stream for c in node_calls(n, "write"))]
    rets = [n for n in g.nodes if n.kind == "stmt" and isinstance(n.ast, ast.Return)]
    ok = bool(term) and bool(writes) and all(g.must_pass(g.entry.id, w.id, term) for w in writes + rets)
    rep.check(ok, rid, f"{fi.key}:termination", "every emission / return is reached through the sign-aware termination test",
              "LEB128._write can emit output without passing the termination test that looks at cls.signed and the sign bit 0x40: some values get a "
              "non-canonical or wrong encoding (e.g. a single byte for signed 64..127 decodes as negative)", fi.loc())
    neg = [n for n in g.nodes if n.kind == "if" and "< 0" in norm(n.ast.test) and f"not {fi.self_name}.signed" in norm(n.ast.test) and any(isinstance(x, ast.Raise) for x in n.ast.body)]
    rep.check(bool(neg), rid, f"{fi.key}:negative-unsigned", "negative values are refused for unsigned LEB128", "negative values are no longer refused for uleb128", fi.loc())


FIXTURE_DEFAULT_OR = "def f(data, t):\n    value = getattr(data, 'x', None) or t.__default__()\n    if not value:\n        value = t.__default__()\n    return value\n"


def _truthiness_substitutions(fn: ast.AST):
    """__default__() calls that replace a value on a truthiness test ('x or T.__default__()', 'if not x: x = T.__default__()'): zero, -0.0, empty
    arrays and all-zero structures are falsy but are values, only None means 'missing'."""
    pm = parent_map(fn)
    for c in ast.walk(fn):
        if not (isinstance(c, ast.Call) and call_name(c) == "__default__"):
            continue
        child, p = c, pm.get(c)
        while p is not None and not isinstance(p, (ast.FunctionDef, ast.AsyncFunctionDef, ast.Lambda)):
            if isinstance(p, ast.BoolOp) and isinstance(p.op, ast.Or) and child is not p.values[0]:
                yield c, f"'{short(p, 70)}' replaces every falsy value"
                break
            if isinstance(p, ast.IfExp) and child is not p.test and not _tests_none(p.test):
                yield c, f"'{short(p, 70)}' selects the default on a truthiness test"
                break
            if isinstance(p, ast.If) and any(child is x for x in p.body + p.orelse):
                if isinstance(child, ast.Assign) and not _tests_none(p.test) and _is_plain_truth_test(p.test, child):
                    yield c, f"'if {short(p.test, 50)}:' replaces every falsy value"
                break
            child, p = p, pm.get(p)


def _tests_none(test: ast.AST) -> bool:
    return any(isinstance(x, ast.Compare) and any(isinstance(o, (ast.Is, ast.IsNot)) for o in x.ops) and any(norm(k) == "None" for k in x.comparators)
               for x in ast.walk(test))


def _is_plain_truth_test(test: ast.AST, assign: ast.Assign) -> bool:
    tgt = norm(assign.targets[0])
    t = test.operand if isinstance(test, ast.UnaryOp) and isinstance(test.op, ast.Not) else test
    return norm(t) == tgt


def default_substitution_rule(repo: Repo, rep: Report, rid: str) -> None:
    rep.rule(rid, "a field value is replaced by the type's default only when it is None (missing): no 'value or default' / 'if not value' substitution, "
                  "which would also replace 0, -0.0, empty arrays and all-zero nested structures")
    fx = list(_truthiness_substitutions(ast.parse(FIXTURE_DEFAULT_OR)))
    if len(fx) != 2:
        raise AnalysisError("truthiness-substitution matcher no longer recognises its positive fixture")
    rep.ok(rid, "fixture:value or T.__default__()", "matcher recognises both forms of its positive fixture", "", nontrivial=False)
    sites = 0
    for fi in repo.all_functions():
        has = [c for c in walk_body(fi.node.body) if isinstance(c, ast.Call) and call_name(c) == "__default__"]
        if not has:
            continue
        bad = list(_truthiness_substitutions(fi.node))
        for c, why in bad:
            rep.fail(rid, f"{fi.key}:{short(c, 50)}", f"{why}: a field holding a falsy value (e.g. float -0.0, whose sign bit is set) is dumped as the default", fi.loc(c))
        guarded = [c for c in has if not any(c is b for b, _ in bad)]
        for c in guarded:
            sites += 1
            rep.ok(rid, f"{fi.key}:{short(c, 50)}", "default taken only for a missing (None) value or as a terminator / initial value", fi.loc(c))
    rep.floor(rid, "__default__() call sites", sites, 7)


def run(repo: Repo, rep: Report, tier: str) -> None:
    from .compiled import compiled_fold_rule

    compiled_fold_rule(repo, rep, "C02.R13", tier)
    offset_pad_rule(repo, rep, "C02.R4")
    leb128_termination_rule(repo, rep, "C02.R5")
    padding_rule(repo, rep, "C02.R1")
    flush_rule(repo, rep, "C02.R2")
    terminator_rule(repo, rep, "C02.R3")
    from .c05 import codec_fold_rule

    codec_fold_rule(repo, rep, "C02.R6")
    from .c06 import mask_rule

    mask_rule(repo, rep, "C02.R7")
    default_substitution_rule(repo, rep, "C02.R8")
    from .c04 import struct_rw_fold_rule

    struct_rw_fold_rule(repo, rep, "C02.R9", 3 if tier == "thorough" else 2)
    from .c08 import generated_globals_rule

    generated_globals_rule(repo, rep, "C02.R10")
    from .c09 import absolute_padding_rule

    absolute_padding_rule(repo, rep, "C02.R11")
    from .c11 import union_write_fold_rule

    union_write_fold_rule(repo, rep, "C02.R12")
    from .memo import memo_rule

    memo_rule(repo, rep, "C02.R17")
    from .c05 import call_time_rule
    from .c06 import unit_switch_rule
    from .c17 import one_list_rule

    call_time_rule(repo, rep, "C02.R18")
    one_list_rule(repo, rep, "C02.R19")
    unit_switch_rule(repo, rep, "C02.R20")
    from .c05 import text_array_fold_rule

    text_array_fold_rule(repo, rep, "C02.R21")
    from .c05 import leb128_rule as _leb

    _leb(repo, rep, "C02.R22")
    from .c07 import generic_write_array_rule

    generic_write_array_rule(repo, rep, "C02.R23")
    from .c11 import size_rule

    # a union is dumped as exactly its size: the padding behind the written member is measured on the stream, not taken from a member's return value
    size_rule(repo, rep, "C02.R24")
