"""C17 - structure values: field-wise equality, consistent hash/bool, construction.

The generated __init__/__eq__/__hash__/__bool__ are produced by compiling a per-arity template and
replacing co_names / co_consts / co_varnames of the code object.  Here every template is instantiated
for each field count n by partial evaluation of the repository's own builder (AST interpretation over
a whitelist), compiled with compile() and the *code object is inspected, never executed*; the patcher
is evaluated symbolically over that code object and compared with "the template with placeholder i
replaced by field i".
"""

from __future__ import annotations

import ast
import types as _types

from ..minieval import Evaluator, Host, Refused, Sym, UserFunc
from ..model import Repo
from ..report import Report
from ..util import AnalysisError, call_name, chain, norm, resolve_local, short, walk_body

KINDS = {
    "eq": ("_make__eq__", "_generate__eq__"),
    "bool": ("_make__bool__", "_generate__bool__"),
    "hash": ("_make__hash__", "_generate__hash__"),
    "init": ("_make_structure__init__", "_generate_structure__init__"),
    "uinit": ("_make_union__init__", "_generate_union__init__"),
}


class CodeSym:
    """Symbolic code object: the three tuples the patchers touch."""

    def __init__(self, co_names, co_consts, co_varnames):
        self.co_names, self.co_consts, self.co_varnames = tuple(co_names), tuple(co_consts), tuple(co_varnames)
        self.replaced: set[str] = set()

    def replace(self, **kw):
        new = CodeSym(self.co_names, self.co_consts, self.co_varnames)
        new.replaced = set(self.replaced)
        for k, v in kw.items():
            if k not in ("co_names", "co_consts", "co_varnames"):
                raise Refused(f"code.replace({k}=...) is outside the modelled attributes")
            setattr(new, k, tuple(v))
            new.replaced.add(k)
        return new


def _code_sym(c: CodeSym) -> Sym:
    return Sym("code", attrs={"co_names": c.co_names, "co_consts": c.co_consts, "co_varnames": c.co_varnames},
               methods={"replace": lambda **kw: _code_sym(c.replace(**kw))} | {"_obj": c})


def placeholders(repo: Repo, n: int) -> list[str]:
    """The placeholder names make_func_code passes to the template builder, from its own AST."""
    f = repo.func("types/structure.py", "_codegen.<locals>.make_func_code")
    calls = [c for c in walk_body(f.node.body) if isinstance(c, ast.Call) and isinstance(c.func, ast.Name) and c.func.id == "func" and len(c.args) == 1]
    if len(calls) != 1:
        raise AnalysisError("_codegen.make_func_code: call func(<placeholders>) not found")
    try:
        v = Evaluator({f.params[0]: n}).ev(resolve_local(f.node, calls[0].args[0]))
    except Refused as e:
        raise AnalysisError(f"_codegen placeholder expression is outside the evaluator's whitelist: {e}") from e
    if not (isinstance(v, list) and len(v) == n and all(isinstance(x, str) for x in v) and len(set(v)) == n):
        raise AnalysisError(f"_codegen placeholders for n={n} are not n distinct strings: {v!r}")
    return v


def instantiate(repo: Repo, make: str, ph: list[str]) -> tuple[str, _types.CodeType, ast.FunctionDef]:
    fi = repo.func("types/structure.py", make)
    try:
        kind, src = Evaluator({fi.params[0]: list(ph)}).run(fi.node.body, {fi.params[0]: list(ph)})
    except Refused as e:
        raise AnalysisError(f"{make}: template builder uses a construct outside the evaluator's whitelist: {e}") from e
    if kind != "return" or not isinstance(src, str):
        raise AnalysisError(f"{make}: builder did not return source text")
    try:
        tree = ast.parse(src)
        mod_code = compile(src, f"<template {make} n={len(ph)}>", "exec")
    except SyntaxError as e:
        return src, None, None  # reported by the caller
    fns = [c for c in mod_code.co_consts if isinstance(c, _types.CodeType)]
    defs = [s for s in tree.body if isinstance(s, ast.FunctionDef)]
    if len(fns) != 1 or len(defs) != 1:
        raise AnalysisError(f"{make}: template does not define exactly one function")
    return src, fns[0], defs[0]


def field_names(n: int, scheme: str, ph: list[str]) -> list[str]:
    """Names given to the fields when the patcher is evaluated.

    'neutral': F0..Fn-1.  'shifted': field i is named like the placeholder of position i+1 (a user may call fields ``_1``, ``_2``):
    a patcher that substitutes by *name* instead of by position confuses them.
    """
    if scheme == "neutral" or n < 2:
        return [f"F{i}" for i in range(n)]
    return [ph[(i + 1) % n] for i in range(n)]


def patched(repo: Repo, gen: str, code: _types.CodeType, n: int, union_or_struct_init: bool, names: list[str] | None = None, shared_type: bool = False):
    """Symbolically evaluate the _generate_* patcher over the template's code object. -> (CodeSym, field symbols)"""
    st = repo.module("types/structure.py")
    fi = repo.func("types/structure.py", gen)
    base = CodeSym(code.co_names, code.co_consts, code.co_varnames)
    result: dict = {}

    def func_sym(c: CodeSym) -> Sym:
        return Sym("function", attrs={"__code__": _code_sym(c), "__globals__": Sym("globals"), "__defaults__": Sym("defaults")})

    def type_host(x):
        def ctor(code_s, *a, **k):
            obj = code_s.methods["_obj"]
            result["code"] = obj
            return func_sym(obj)
        return Host(ctor)

    env: dict = {"type": Host(type_host)}
    for name, f in st.functions.items():
        if f.kind == "function" and name.startswith("_patch"):
            env[name] = UserFunc(f.node)
    for kind, (mk, _g) in KINDS.items():
        env[mk] = Host(lambda k, _c=base: func_sym(_c) if k == n else (_ for _ in ()).throw(Refused(f"template requested for {k} fields, structure has {n}")))
    if union_or_struct_init:
        nm = names or [f"F{i}" for i in range(n)]
        if shared_type:
            # all fields are of ONE type object whose __default__() hands out a new object per call (as a mutable default must be)
            counter = iter(range(10 ** 6))
            one = Sym("the-type", methods={"__default__": (lambda: Sym(f"DS#{next(counter)}"))})
            fields = [Sym(f"field{i}", attrs={"_name": nm[i], "name": nm[i], "type": one}) for i in range(n)]
        else:
            fields = [Sym(f"field{i}", attrs={"_name": nm[i], "name": nm[i], "type": Sym(f"type{i}", methods={"__default__": (lambda i=i: Sym(f"D{i}"))})}) for i in range(n)]
    else:
        fields = list(names or [f"F{i}" for i in range(n)])
    try:
        ev = Evaluator(env)
        ev.call_user(UserFunc(fi.node, env), [fields], {})
    except Refused as e:
        raise AnalysisError(f"{gen}: patcher uses a construct outside the evaluator's whitelist: {e}") from e
    if "code" not in result:
        raise AnalysisError(f"{gen}: patcher did not build a function from a code object")
    return result["code"]


def expected(code: _types.CodeType, ph: list[str], kind: str, fnames: list[str] | None = None) -> CodeSym:
    """The template with placeholder i replaced by field i (names) / default i (integer constants of the init templates)."""
    idx = {p: i for i, p in enumerate(ph)}
    fn_ = fnames or [f"F{i}" for i in range(len(ph))]
    names = tuple(fn_[idx[x]] if x in idx else x for x in code.co_names)
    varnames = tuple(fn_[idx[x]] if x in idx else x for x in code.co_varnames)
    consts = []
    for c in code.co_consts:
        if kind in ("init", "uinit") and isinstance(c, int) and not isinstance(c, bool) and 0 <= c < len(ph):
            consts.append(Sym(f"D{c}"))
        elif kind == "uinit" and isinstance(c, str) and c in idx:
            consts.append(fn_[idx[c]])
        else:
            consts.append(c)
    return CodeSym(names, consts, varnames)


def _check_template_ast(kind: str, fn: ast.FunctionDef, ph: list[str]) -> str | None:
    """Field completeness of the instantiated template; returns a complaint or None."""
    n = len(ph)
    args = [a.arg for a in fn.args.args]
    body = fn.body
    if kind == "eq":
        if args != ["self", "other"] or len(body) != 2 or not isinstance(body[0], ast.If):
            return "__eq__ template is not 'if <same class>: return <tuple> == <tuple>; return False'"
        t = body[0].test
        if not (isinstance(t, ast.Compare) and isinstance(t.ops[0], ast.Is) and {norm(t.left), norm(t.comparators[0])} == {"self.__class__", "other.__class__"}):
            return f"__eq__ template compares classes with '{norm(t)}' (must be 'self.__class__ is other.__class__')"
        r = body[0].body[0] if body[0].body else None
        if not (isinstance(r, ast.Return) and isinstance(r.value, ast.Compare) and isinstance(r.value.ops[0], ast.Eq)):
            return "__eq__ template does not return an == comparison"
        l, rr = r.value.left, r.value.comparators[0]
        if not (isinstance(l, ast.Tuple) and isinstance(rr, ast.Tuple)):
            return "__eq__ template does not compare two tuples"
        sides = {}
        for side in (l, rr):
            owners = {norm(e.value) for e in side.elts if isinstance(e, ast.Attribute)}
            if len(side.elts) != n or sorted(e.attr for e in side.elts if isinstance(e, ast.Attribute)) != sorted(ph) or (n and len(owners) != 1):
                return f"__eq__ template does not list every field exactly once on each side (n={n}: {norm(side)[:60]})"
        if [e.attr for e in l.elts] != [e.attr for e in rr.elts]:
            return "__eq__ template pairs different fields of self and other"
        for side in (l, rr):
            owners = {norm(e.value) for e in side.elts if isinstance(e, ast.Attribute)}
            if owners:
                sides[next(iter(owners))] = True
        if n and set(sides) != {"self", "other"}:
            return "__eq__ template does not compare self's fields with other's fields"
        if not (isinstance(body[1], ast.Return) and norm(body[1].value) in ("False", "NotImplemented")):
            return "__eq__ template does not return False / NotImplemented for another class"
        return None
    if kind in ("bool", "hash"):
        if args != ["self"] or len(body) != 1 or not isinstance(body[0], ast.Return) or not isinstance(body[0].value, ast.Call):
            return f"__{kind}__ template is not a single return of a call"
        c = body[0].value
        want = {"bool": "any", "hash": "hash"}[kind]
        if norm(c.func) != want or len(c.args) != 1:
            return f"__{kind}__ template does not return {want}(<all fields>)"
        # ``hash((self._0))`` for one field is the hash of that field itself: equal instances still hash equally
        elts = c.args[0].elts if isinstance(c.args[0], (ast.List, ast.Tuple)) else [c.args[0]]
        if kind == "bool" and not isinstance(c.args[0], (ast.List, ast.Tuple)):
            return "__bool__ template does not pass a list of all fields to any()"
        if sorted(e.attr for e in elts if isinstance(e, ast.Attribute) and norm(e.value) == "self") != sorted(ph) or len(elts) != n:
            return f"__{kind}__ template does not cover every field exactly once (n={n})"
        return None
    if kind in ("init", "uinit"):
        if args != ["self", *ph]:
            return f"__init__ template parameters are {args[:4]}..., expected (self, *fields)"
        d = fn.args.defaults
        if len(d) != n or not all(isinstance(x, ast.Constant) and x.value is None for x in d):
            return "__init__ template parameters do not all default to None"
        stmts = [s for s in body if not isinstance(s, ast.Pass)]
        if len(stmts) != n:
            return f"__init__ template has {len(stmts)} statements for {n} fields"
        for i, (s, p) in enumerate(zip(stmts, ph)):
            if kind == "init":
                if not (isinstance(s, ast.Assign) and norm(s.targets[0]) == f"self.{p}"):
                    return f"__init__ template statement {i} does not assign self.{p}"
                v = s.value
            else:
                if not (isinstance(s, ast.Expr) and isinstance(s.value, ast.Call) and norm(s.value.func) == "object.__setattr__" and len(s.value.args) == 3
                        and norm(s.value.args[0]) == "self" and isinstance(s.value.args[1], ast.Constant) and s.value.args[1].value == p):
                    return f"union __init__ template statement {i} is not object.__setattr__(self, '{p}', ...)"
                v = s.value.args[2]
            if not (isinstance(v, ast.IfExp) and norm(v.body) == p and norm(v.test) == f"{p} is not None" and isinstance(v.orelse, ast.Constant) and v.orelse.value == i
                    and not isinstance(v.orelse.value, bool)):
                return f"__init__ template field {i}: value is '{norm(v)[:60]}', expected '{p} if {p} is not None else {i}'"
        return None
    return "unknown kind"


def layout_rule(repo: Repo, rep: Report, R1: str, R2: str, max_n: int, skip: set[str] = frozenset()) -> None:
    rep.rule(R1, "template <-> patcher layout for every field count n: the patched co_names / co_consts / co_varnames equal the compiled template's "
                 "with placeholder i replaced by field i (and default i), and nothing else carries a placeholder")
    rep.rule(R2, "field completeness of every instantiated template: each placeholder is read from self (and other) / stored on self from the "
                 "like-named argument with default index i, in field order; __eq__ compares classes with 'is' first")
    for kind, (mk, gen) in KINDS.items():
        if gen in skip:
            continue  # already reported by the cache rule: the generator does not install the patched template
        first_bad_layout = None
        first_bad_ast = None
        ok_count = 0
        for n in range(0, max_n + 1):
            ph = placeholders(repo, n)
            src, code, fn = instantiate(repo, mk, ph)
            if code is None:
                first_bad_ast = first_bad_ast or (n, "the instantiated template is not valid Python")
                continue
            complaint = _check_template_ast(kind, fn, ph)
            if complaint and first_bad_ast is None:
                first_bad_ast = (n, complaint)
            for scheme in ("neutral", "shifted"):
                fnames = field_names(n, scheme, ph)
                got = patched(repo, gen, code, n, kind in ("init", "uinit"), fnames)
                exp = expected(code, ph, kind, fnames)
                diffs = []
                for attr in ("co_names", "co_varnames", "co_consts"):
                    g, e = getattr(got, attr), getattr(exp, attr)
                    if g != e and kind in ("eq", "bool", "hash") and attr == "co_names" and len(g) == len(e):
                        # these methods read every field through one shared name slot per field: any bijection slot -> field is the same method
                        slots = [i for i, x in enumerate(code.co_names) if x in ph]
                        if all(g[i] == e[i] for i in range(len(e)) if i not in slots) and sorted(g[i] for i in slots) == sorted(fnames):
                            continue
                    if g != e:
                        where = next((i for i, (a, b) in enumerate(zip(g, e)) if a != b), min(len(g), len(e)))
                        diffs.append(f"[fields named {fnames[:3]}...] {attr}: patched {_fmt(g, where)} but the template needs {_fmt(e, where)} (first difference at index "
                                     f"{where}; {'patched by ' + gen if attr in got.replaced else 'NOT patched although the template keeps placeholders there'})")
                if diffs and first_bad_layout is None:
                    first_bad_layout = (n, "; ".join(diffs))
                if not diffs:
                    ok_count += 1
        fi = repo.func("types/structure.py", gen)
        mf = repo.func("types/structure.py", mk)
        key1 = f"{fi.key}:layout n=0..{max_n}"
        if first_bad_layout:
            n, why = first_bad_layout
            rep.fail(R1, key1, f"for a structure with {n} field(s): {why}", fi.loc())
        else:
            rep.ok(R1, key1, f"patched tuples equal the substituted template for all {ok_count} field counts", fi.loc())
        key2 = f"{mf.key}:completeness n=0..{max_n}"
        if first_bad_ast:
            n, why = first_bad_ast
            rep.fail(R2, key2, f"for {n} field(s): {why}", mf.loc())
        else:
            rep.ok(R2, key2, f"every field is covered exactly once, in order, for all {max_n + 1} field counts", mf.loc())
    rep.info["arities_checked"] = max_n + 1
    rep.info["templates_compiled"] = (max_n + 1) * len(KINDS)


def _fmt(t: tuple, where: int) -> str:
    lo = max(0, where - 1)
    part = ", ".join(repr(x) for x in t[lo:where + 3])
    return f"(…{part}…)[len {len(t)}]"


def per_field_default_rule(repo: Repo, rep: Report, rid: str) -> None:
    rep.rule(rid, "one default object per field: the __init__ patchers, interpreted for 2..4 fields that all have the same type object, embed as many "
                  "distinct default objects as there are fields (a default cached per type would make a.x and b.x the same object, so assigning through "
                  "one field changes another)")
    for kind in ("init", "uinit"):
        mk, gen = KINDS[kind]
        fi = repo.func("types/structure.py", gen)
        bad = None
        for n in (2, 3, 4):
            ph = placeholders(repo, n)
            _src, code, _fn = instantiate(repo, mk, ph)
            if code is None:
                continue
            got = patched(repo, gen, code, n, True, [f"F{i}" for i in range(n)], shared_type=True)
            ds = [c for c in got.co_consts if isinstance(c, Sym) and c.label.startswith("DS#")]
            if len({c.label for c in ds}) != n:
                bad = (n, [c.label for c in ds])
                break
        rep.check(bad is None, rid, f"{fi.key}:per-field", "n fields of one type get n distinct default objects",
                  f"{gen}: {bad[0] if bad else ''} fields of the same type receive the default objects {bad[1] if bad else ''}: members of the same nested "
                  "structure / typedef'd array type share one default object, so assigning through one member also changes the other", fi.loc())


def one_list_rule(repo: Repo, rep: Report, rid: str) -> None:
    rep.rule(rid, "one field list: _update_fields hands the same field-name view to the __eq__, __hash__ and __bool__ generators and the same raw field "
                  "list to __init__; unions take Union.__eq__")
    fi = repo.func("types/structure.py", "StructureMetaType._update_fields")
    from .c18 import update_fields_fold

    uf = update_fields_fold(repo)
    if uf is not None:
        bad = [b_ for b_ in uf["bad"] if "class dict differs" in b_[1] and any(k in b_[1] for k in ("__eq__", "__hash__", "__bool__", "__init__", "'fields'", "'lookup'"))]
        rep.check(not bad, rid, f"{fi.key}:field-names", f"folded over {uf['cases']} cases: __eq__ / __hash__ / __bool__ are generated from the folded field names, "
                  "__init__ from the raw field list, unions take Union.__eq__, each installed under its own name",
                  f"_update_fields for '{bad[0][0] if bad else ''}': {bad[0][1] if bad else ''}", fi.loc())
        _one_list_tail(repo, rep, rid, fi)
        return
    calls = {}
    for s in walk_body(fi.node.body):
        if isinstance(s, ast.Assign) and isinstance(s.value, ast.Call) and call_name(s.value).startswith("_generate"):
            calls.setdefault(call_name(s.value), []).append((norm(s.targets[0]), [norm(a) for a in s.value.args]))
    names = {k: v[0][1][0] for k, v in calls.items() if v and v[0][1]}
    same = {names.get("_generate__eq__"), names.get("_generate__hash__"), names.get("_generate__bool__")}
    rep.check(len(same) == 1 and None not in same, rid, f"{fi.key}:field-names", f"eq/hash/bool all generated from '{next(iter(same))}'",
              f"__eq__/__hash__/__bool__ are generated from different field lists: {names}", fi.loc())
    from .c18 import update_fields_roles

    roles = update_fields_roles(fi)
    shared = next(iter(same)) if len(same) == 1 else None
    src_expr = shared
    if shared and shared.isidentifier():
        defs = [s for s in walk_body(fi.node.body) if isinstance(s, ast.Assign) and norm(s.targets[0]) == shared]
        src_expr = norm(defs[-1].value) if defs else None
    rep.check(roles["ok"] and src_expr == f"{roles['folded']}.keys()", rid, f"{fi.key}:field-names-source",
              "eq/hash/bool take the keys of the folded name table (anonymous members folded)", f"field_names is '{src_expr}' ({roles['why'] or 'not the keys of the folded table'})", fi.loc())
    inits = {names.get("_generate_structure__init__"), names.get("_generate_union__init__")}
    rep.check(roles["ok"] and inits == {f"{roles['raw']}.values()"}, rid, f"{fi.key}:init-fields", "both __init__ generators take the values of the raw name table",
              f"__init__ generators take {inits}", fi.loc())
    targets = {k: v[0][0] for k, v in calls.items()}
    want = {"_generate__eq__": "classdict['__eq__']", "_generate__hash__": "classdict['__hash__']", "_generate__bool__": "classdict['__bool__']",
            "_generate_structure__init__": "classdict['__init__']", "_generate_union__init__": "classdict['__init__']"}
    rep.check(targets == want, rid, f"{fi.key}:installation", "each generated method is installed under its own name", f"generated methods installed as {targets}", fi.loc())
    ue = [s for s in walk_body(fi.node.body) if isinstance(s, ast.Assign) and norm(s.targets[0]) == "classdict['__eq__']" and norm(s.value) == "Union.__eq__"]
    rep.check(len(ue) == 1, rid, f"{fi.key}:union-eq", "unions compare by bytes (Union.__eq__)", "unions no longer take Union.__eq__", fi.loc())
    _one_list_tail(repo, rep, rid, fi)


def _one_list_tail(repo: Repo, rep: Report, rid: str, fi) -> None:
    u = repo.func_opt("types/structure.py", "Union.__eq__")
    if u is None:
        rep.fail(rid, "types/structure.py:Union.__eq__:return", "Union.__eq__ no longer exists: unions would be compared field by field, but structure-typed members "
                      "of a union are UnionProxy objects that only compare by identity, so two unions with equal bytes compare unequal", fi.loc())
        return
    r = [x for x in walk_body(u.node.body) if isinstance(x, ast.Return)]
    rep.check(len(r) == 1 and "self.__class__ is other.__class__" in norm(r[0].value) and "bytes(self) == bytes(other)" in norm(r[0].value), rid, f"{u.key}:return",
              "same class and equal bytes", f"Union.__eq__ returns '{short(r[0].value if r else None, 60)}'", u.loc())
    # generators derive the field names from the Field objects' _name
    for gen in ("_generate_structure__init__", "_generate_union__init__"):
        g = repo.func("types/structure.py", gen)
        fn = [s for s in walk_body(g.node.body) if isinstance(s, ast.Assign) and norm(s.targets[0]) == "field_names"]
        rep.check(bool(fn) and "field._name" in norm(fn[0].value), rid, f"{g.key}:names", "attribute names are the fields' _name", f"{gen} no longer uses field._name", g.loc())
        tpl = [s for s in walk_body(g.node.body) if isinstance(s, (ast.Assign, ast.AnnAssign)) and isinstance(s.value, ast.Call) and call_name(s.value).startswith("_make_")]
        rep.check(bool(tpl) and norm(tpl[0].value.args[0]) == "len(field_names)", rid, f"{g.key}:arity", "template selected by len(field_names)",
                  f"{gen} selects its template by '{norm(tpl[0].value.args[0]) if tpl else None}'", g.loc())
        ad = [k for c in walk_body(g.node.body) if isinstance(c, ast.Call) for k in c.keywords if k.arg == "argdefs"]
        rep.check(bool(ad) and norm(ad[0].value).endswith(".__defaults__"), rid, f"{g.key}:argdefs", "keeps the template's (None, ...) argument defaults",
                  f"{gen} does not pass the template's __defaults__", g.loc())
    for gen, mk in (("_generate__eq__", "_make__eq__"), ("_generate__bool__", "_make__bool__"), ("_generate__hash__", "_make__hash__")):
        g = repo.func("types/structure.py", gen)
        c = [x for x in walk_body(g.node.body) if isinstance(x, ast.Call) and call_name(x) == mk]
        rep.check(len(c) == 1 and norm(c[0].args[0]) == f"len({g.params[0]})", rid, f"{g.key}:arity", f"template {mk} selected by len(fields)",
                  f"{gen} does not select {mk}(len(fields))", g.loc())


def cache_rule(repo: Repo, rep: Report, rid: str) -> None:
    rep.rule(rid, "cached templates are never mutated: the lru-cached template functions are only read by the patchers (code.replace / type(func)(...)), "
                  "and each class gets a new function object")
    from ..callgraph import CallGraph
    from ..effects import EffectAnalysis

    cg = CallGraph(repo)
    ea = EffectAnalysis(repo, cg)
    for qn in ("_patch_attributes", "_generate_structure__init__", "_generate_union__init__", "_generate__eq__", "_generate__bool__", "_generate__hash__"):
        fi = repo.func("types/structure.py", qn)
        bad = [e for e in ea.effects(fi) if e.root_class != "fresh"]
        rep.check(not bad, rid, f"{fi.key}:template-readonly", "no store through the cached template",
                  f"{qn} writes through the cached template ({[e.target for e in bad]}): every class with the same field count shares that object", fi.loc())
    for qn in ("_patch_attributes", "_generate_structure__init__", "_generate_union__init__"):
        fi = repo.func("types/structure.py", qn)
        news = [c for c in walk_body(fi.node.body) if isinstance(c, ast.Call) and isinstance(c.func, ast.Call) and call_name(c.func) == "type"]
        code_arg = resolve_local(fi.node, news[0].args[0]) if len(news) == 1 and news[0].args else None
        rep.check(len(news) == 1 and isinstance(code_arg, ast.Call) and call_name(code_arg) == "replace", rid, f"{fi.key}:new-function",
                  "returns a new function built from code.replace(...)", f"{qn} does not build a new function from a replaced code object", fi.loc())
    for qn in ("_generate__eq__", "_generate__bool__", "_generate__hash__"):
        fi = repo.func("types/structure.py", qn)
        nested = [x for x in walk_body(fi.node.body) if isinstance(x, (ast.FunctionDef, ast.AsyncFunctionDef, ast.Lambda))]
        rets = [r for r in walk_body(fi.node.body) if isinstance(r, ast.Return)]
        direct = bool(rets) and all(isinstance(resolve_local(fi.node, r.value), ast.Call) and call_name(resolve_local(fi.node, r.value)) == "_patch_attributes" for r in rets)
        rep.check(not nested and direct, rid, f"{fi.key}:installs-template", "installs the patched template itself",
                  f"{qn} no longer returns the patched template itself but wraps it ({'a nested function' if nested else 'another value'}): state kept by the "
                  "wrapper (e.g. a cached hash that is only invalidated by assignments on the instance itself) makes equal instances hash or compare "
                  "differently after a nested field was assigned", fi.loc(nested[0]) if nested else fi.loc())
    cgn = repo.func("types/structure.py", "_codegen")
    rets = [r for r in walk_body(cgn.node.body) if isinstance(r, ast.Return)]
    rep.check(len(rets) == 1 and isinstance(rets[0].value, ast.Call) and call_name(rets[0].value) == "lru_cache", rid, f"{cgn.key}:cache", "templates are cached per field count",
              "_codegen no longer caches the template per field count", cgn.loc())
    for mk in sorted({v[0] for v in KINDS.values()}):
        fi = repo.func("types/structure.py", mk)
        rep.check(any(norm(d) == "_codegen" for d in fi.node.decorator_list), rid, f"{fi.key}:decorated", "built through _codegen", f"{mk} is not decorated with _codegen", fi.loc())


def run(repo: Repo, rep: Report, tier: str) -> None:
    max_n = 300 if tier == "thorough" else 40
    cache_rule(repo, rep, "C17.R4")
    wrapped = {it.construct.split(":")[1] for it in rep.items if it.rule == "C17.R4" and not it.ok and it.construct.endswith(":installs-template")}
    layout_rule(repo, rep, "C17.R1", "C17.R2", max_n, skip=wrapped)
    one_list_rule(repo, rep, "C17.R3")
    per_field_default_rule(repo, rep, "C17.R6")
    from .c02 import offset_pad_rule

    offset_pad_rule(repo, rep, "C17.R5")
    from .memo import memo_rule

    memo_rule(repo, rep, "C17.R7")
    from .c01 import walker_rule
    from .c02 import default_substitution_rule

    default_substitution_rule(repo, rep, "C17.R8")
    walker_rule(repo, rep, "C17.R9")
    from .c06 import signed_unit_rule
    from .c08 import meta_call_rule

    meta_call_rule(repo, rep, "C17.R10")
    signed_unit_rule(repo, rep, "C17.R11")
    from .c07 import array_count_fold_rule

    array_count_fold_rule(repo, rep, "C17.R12")
    from .c05 import codec_fold_rule
    from .share import share_rules

    share_rules(repo, rep, tier, "c18", {"C18.R1": "C17.R13"}, "a structure whose generated __eq__ / __hash__ / __bool__ / __init__ were not rebuilt after its field list changed compares and constructs by the old fields")
    share_rules(repo, rep, tier, "c07", {"C07.R4": "C17.R14"}, "a wrong-sized array that is dumped shifts every field behind it")
    codec_fold_rule(repo, rep, "C17.R15")
    from .c07 import array_size_text_fold_rule

    array_size_text_fold_rule(repo, rep, "C17.R16")
    from .c05 import text_array_fold_rule
    from .c11 import rebuild_fold_rule

    rebuild_fold_rule(repo, rep, "C17.R17")
    text_array_fold_rule(repo, rep, "C17.R18")
    from .c13 import parser_fold_rule

    parser_fold_rule(repo, rep, "C17.R19")
    from .c18 import accessor_fold_rule, late_binding_rule

    # local assignment: a member of an anonymous structure assigned on the parent lands in that member
    accessor_fold_rule(repo, rep, "C17.R20")
    late_binding_rule(repo, rep, "C17.R21")
    from .c04 import struct_rw_fold_rule

    # assigning a field changes exactly the bytes of that field in the dump: every field is written at its own offset, gaps as zeros
    struct_rw_fold_rule(repo, rep, "C17.R22", 3 if tier == "thorough" else 2)
    from .c11 import proxy_fold_rule
    from .c14 import replicate_rule

    # the entries of a default array are distinct objects: assigning through one entry changes the bytes of that entry only
    replicate_rule(repo, rep, "C17.R23")
    # local assignment through a structure nested in a union: the proxy names the top-level member at every depth
    proxy_fold_rule(repo, rep, "C17.R24")
    from .c11 import union_life_rule

    # local assignment, for unions: assigning a member changes exactly its bytes
    union_life_rule(repo, rep, "C17.R25")
