"""C20 - generated type stubs are valid Python naming exactly the loaded definitions."""

from __future__ import annotations

import ast
import re

from .. import templates as T
from ..cfg import CFG
from ..model import Repo
from ..report import Report
from ..util import resolve_local, AnalysisError, call_name, chain, names_loaded, names_stored, norm, parent_map, short, walk_body
from .c04 import type_table_rule

# positive example for the check-after-use matcher (the pre-fix shape of generate_cstruct_stub)
FIXTURE_R3 = """
def f(items):
    for name, typedef in items:
        if typedef.__name__ in seen:
            stub = 1
        elif isinstance(typedef, str):
            stub = 2
"""

DEFINITION_NAME_SOURCES = ("name", "key", "field_name", "__name__")


def template_rule(repo: Repo, rep: Report, rid: str) -> None:
    rep.rule(rid, "every stub emitter template is valid Python once its holes are filled with identifiers (fragments ending in ':' get a '...' body)")
    n = 0
    for t in T.stub_templates(repo):
        txt = t.text.strip()
        if not txt or t.role in ("arg",) and t.kind != "stmt":
            continue
        if t.role.startswith("assign:indent") or set(txt) <= {" "}:
            continue
        emitted = t.role.startswith(("append:", "assign:stub", "assign:result", "assign:header", "return")) or t.role in ("assign:type_hint",)
        if not emitted:
            continue
        if txt.endswith(".") and len(T.placeholders_in(txt)) <= 1 and t.kind == "fragment":
            continue  # a name prefix such as "cstruct."
        n += 1
        if t.kind in ("stmt", "expr"):
            rep.ok(rid, t.key, f"parses as {t.kind}", t.loc())
        elif txt.startswith("@") or txt.startswith("#"):
            rep.ok(rid, t.key, "decorator / comment line", t.loc(), nontrivial=False)
        else:
            rep.fail(rid, t.key, f"emitted text '{txt[:70]}' is not valid Python even with identifier holes", t.loc())
    rep.floor(rid, "emitted stub templates", n, 15)


def _identifier_holes(t: T.Template) -> list[tuple[str, str]]:
    """[(placeholder, position)] of holes that land in an identifier-defining position of the template."""
    out = []
    if t.tree is None:
        return out
    for x in ast.walk(t.tree):
        if isinstance(x, ast.ClassDef):
            for ph in T.placeholders_in(x.name):
                out.append((ph, "class name"))
        elif isinstance(x, ast.AnnAssign) and isinstance(x.target, ast.Name):
            for ph in T.placeholders_in(x.target.id):
                out.append((ph, "annotated name"))
        elif isinstance(x, ast.Assign):
            for tg in x.targets:
                if isinstance(tg, ast.Name):
                    for ph in T.placeholders_in(tg.id):
                        out.append((ph, "assigned name"))
        elif isinstance(x, ast.arg):
            for ph in T.placeholders_in(x.arg):
                out.append((ph, "parameter name"))
    return out


DEFINITION_ITERABLES = ("consts", "typedefs", "__members__", "fields")


def _definition_derived(fi, hole: ast.AST) -> bool:
    """Is the hole filled with a name that comes from a loaded definition (constant / alias / member / field / type name)?"""
    if isinstance(hole, ast.Attribute) and hole.attr == "__name__":
        return True
    if isinstance(hole, ast.Name):
        for x in ast.walk(fi.node):
            if isinstance(x, (ast.For, ast.comprehension)):
                tnames = {n.id for n in ast.walk(x.target) if isinstance(n, ast.Name)}
                if hole.id in tnames and any(k in norm(x.iter) for k in DEFINITION_ITERABLES):
                    # the *name* component of items(): first element of the target tuple, or the sole target
                    if isinstance(x.target, ast.Tuple):
                        return isinstance(x.target.elts[0], ast.Name) and x.target.elts[0].id == hole.id
                    return True
    return False


def sanitise_rule(repo: Repo, rep: Report, rid: str) -> None:
    rep.rule(rid, "identifier holes are sanitised: a hole that lands in an identifier position (class, field, alias, constant, enum member, "
                  "__init__ parameter) and is filled from a definition-derived name passes str.isidentifier() and not keyword.iskeyword() first")
    n = 0
    for t in T.stub_templates(repo):
        for ph, where in _identifier_holes(t):
            hole = t.holes.get(ph)
            if hole is None:
                continue
            src = norm(hole)
            fi = t.func
            if not _definition_derived(fi, hole):
                continue  # prefixes, caller-chosen class names, python module attribute names, computed hints
            n += 1
            checked = False
            for c in walk_body(fi.node.body):
                if isinstance(c, ast.Call) and call_name(c) in ("isidentifier", "iskeyword"):
                    checked = True
                if isinstance(c, ast.Call) and isinstance(c.func, ast.Name) and any(k in c.func.id.lower() for k in ("sanit", "escape", "identifier", "mangle")):
                    checked = True
            # the construct is named by what fills the hole (followed through plain locals) and by the constant skeleton of the template: the names of
            # the other holes, and helper functions a refactoring moves the emitter into, do not change which emit site this is
            from ..util import resolve_local as _rl3

            src_res = norm(_rl3(fi.node, hole)) if isinstance(hole, ast.Name) else src
            role = "<type>.__name__" if src_res.endswith(".__name__") else "<name>"
            skeleton = re.sub(r"Ħ[^Ħ]*Ħ", "Ħ", " ".join(t.text.split()))[:50]
            key = f"tools/stubgen.py:{where} <- {role} in '{skeleton}'"
            rep.check(checked, rid, key, "validated before emission",
                      f"'{src}' is emitted as {where} without an isidentifier()/iskeyword() check: a definition using a Python keyword or a name "
                      f"starting with a digit (struct k {{ uint32 from; }}) yields a stub that is not valid Python", t.loc())
    rep.floor(rid, "definition-derived identifier holes", n, 6)


def _check_after_use(fn: ast.FunctionDef) -> list[tuple[str, ast.AST, ast.AST]]:
    """(var, deref node, later isinstance(var, str) test) where the dereference happens unconditionally first."""
    out = []
    g = CFG(fn)
    derefs: dict[str, list] = {}
    tests: dict[str, list] = {}
    for n in g.nodes:
        e = n.expr()
        if e is None:
            continue
        for x in ast.walk(e):
            if isinstance(x, ast.Call) and isinstance(x.func, ast.Name) and x.func.id == "isinstance" and len(x.args) == 2 and \
                    isinstance(x.args[0], ast.Name) and norm(x.args[1]) in ("str", "(str,)", "bytes", "int"):
                tests.setdefault(x.args[0].id, []).append((n, x))
            if isinstance(x, ast.Attribute) and isinstance(x.value, ast.Name) and isinstance(x.ctx, ast.Load) and x.attr.startswith("__") and x.attr.endswith("__"):
                derefs.setdefault(x.value.id, []).append((n, x))
    for var, ts in tests.items():
        for tn, tx in ts:
            for dn, dx in derefs.get(var, []):
                if dn.id == tn.id:
                    continue
                # the dereference dominates the test and the variable is not re-assigned in between
                redefs = {m.id for m in g.nodes if m.kind in ("stmt", "for") and m.ast is not None and
                          var in (names_stored(m.ast) if m.kind == "stmt" else names_stored(m.ast.target)) and m.id not in (dn.id, tn.id)}
                if g.dominates(dn.id, tn.id) and tn.id in g.reachable(dn.id, avoid=redefs):
                    # the test itself must not already guard the dereference
                    guarded = any(g.dominates(t2.id, dn.id) for t2, _ in ts if t2.id != dn.id)
                    if not guarded:
                        out.append((var, dx, tx))
    return out


def contradiction_rule(repo: Repo, rep: Report, rid: str) -> None:
    rep.rule(rid, "no check-after-use contradiction: a variable whose dunder attribute is dereferenced unconditionally is not later tested with "
                  "isinstance(var, str) on the same path (one of the two beliefs is wrong)")
    fx = _check_after_use(ast.parse(FIXTURE_R3).body[0])
    if len(fx) != 1:
        raise AnalysisError("check-after-use matcher no longer recognises its positive fixture")
    rep.ok(rid, "fixture:typedef.__name__ then isinstance(typedef, str)", "matcher recognises the positive fixture", "", nontrivial=False)
    n = 0
    for fi in repo.all_functions():
        n += 1
        for var, dx, tx in _check_after_use(fi.node):
            rep.fail(rid, f"{fi.key}:{norm(dx)} before {norm(tx)}", f"'{norm(dx)}' is evaluated unconditionally before '{norm(tx)}' is tested: when "
                     f"'{var}' is a string the dereference raises AttributeError and the later branch is unreachable", fi.loc(dx))
    rep.info["functions_scanned_for_contradictions"] = n
    gs = repo.func("tools/stubgen.py", "generate_cstruct_stub")
    g = CFG(gs.node)
    strtest = [x for x in g.nodes if x.kind == "if" and norm(x.ast.test) == "isinstance(typedef, str)"]
    deref = [x for x in g.nodes if x.expr() is not None and "typedef.__name__" in norm(x.expr())]
    ok = bool(strtest) and bool(deref) and all(g.must_pass(g.entry.id, d.id, {strtest[0].id}) for d in deref) and \
        any(isinstance(s, ast.Continue) for s in strtest[0].ast.body)
    rep.check(ok, rid, f"{gs.key}:str-alias-first", "string aliases are handled (and skipped) before any typedef.__name__ dereference",
              "generate_cstruct_stub can dereference typedef.__name__ on a string alias (cs.add_type('a', 'uint8'))", gs.loc())


def _mentions_fresh_cstruct(fn: ast.AST, test: ast.AST) -> bool:
    """The test consults a cstruct() created without arguments in this function (the 'built-in names' baseline), under whatever local name."""
    for x in ast.walk(test):
        v = resolve_local(fn, x) if isinstance(x, ast.Name) else x
        if isinstance(v, ast.Call) and call_name(v) == "cstruct" and not v.args and not v.keywords:
            return True
    return False


def completeness_rule(repo: Repo, rep: Report, rid: str) -> None:
    rep.rule(rid, "completeness of the emitter loops: every constant and typedef that is not a built-in emits a line (or raises); every structure "
                  "field gets its annotation line and its __init__ parameter unconditionally")
    gs = repo.func("tools/stubgen.py", "generate_cstruct_stub")
    g = CFG(gs.node)
    loops = [x for x in g.nodes if x.kind == "for"]
    n = 0
    for lp in loops:
        it = norm(lp.ast.iter)
        if "consts" not in it and "typedefs" not in it:
            continue
        n += 1
        body_ids = g.reachable(lp.id, first_edge="loop", avoid={lp.id})
        emits = {x.id for x in g.nodes if x.id in body_ids and x.kind == "stmt" and any(isinstance(c, ast.Call) and call_name(c) == "append" and norm(c.func.value) == "body"
                                                                                         for c in ast.walk(x.ast))}
        skips = [x for x in g.nodes if x.id in body_ids and x.kind == "stmt" and isinstance(x.ast, ast.Continue)]
        # a continue is allowed only under the "built-in of a fresh cstruct" test or after an emit
        ok = bool(emits)
        for s in skips:
            guard = [m for m in g.nodes if m.kind == "if" and s.ast in m.ast.body]
            builtin_skip = bool(guard) and _mentions_fresh_cstruct(gs.node, guard[0].ast.test)
            after_emit = g.must_pass(lp.id, s.id, emits)
            ok = ok and (builtin_skip or after_emit)
        # falling back to the loop head without emitting: every path loop->loop passes an emit, a permitted continue, or a raise
        permitted = emits | {s.id for s in skips}
        ok = ok and lp.id not in g.reachable(lp.id, first_edge="loop", avoid=permitted)
        rep.check(ok, rid, f"{gs.key}:loop {it}", "every iteration emits, skips a built-in, or raises",
                  f"an iteration of the loop over {it} can finish without emitting anything for a user definition", gs.loc(lp.ast))
    rep.floor(rid, "cstruct stub loops", n, 2)
    els = [x for x in g.nodes if x.kind == "stmt" and isinstance(x.ast, ast.Raise) and "TypeError" in norm(x.ast)]
    rep.check(bool(els), rid, f"{gs.key}:unknown-typedef", "an unknown kind of typedef raises TypeError", "unknown typedef kinds are silently skipped", gs.loc())
    fresh_guards = [m for m in g.nodes if m.kind == "if" and _mentions_fresh_cstruct(gs.node, m.ast.test)]
    rep.check(len(fresh_guards) >= 2, rid, f"{gs.key}:baseline", "built-ins are those of a fresh cstruct()",
              "the set of skipped names is no longer that of a fresh cstruct()", gs.loc())
    st = repo.func("tools/stubgen.py", "generate_structure_stub")
    g = CFG(st.node)
    loops = [x for x in g.nodes if x.kind == "for" and "fields" in norm(x.ast.iter)]
    if len(loops) != 1:
        raise AnalysisError("generate_structure_stub: field loop not found")
    lp = loops[0]
    body_ids = g.reachable(lp.id, first_edge="loop", avoid={lp.id})
    ann = [x for x in g.nodes if x.id in body_ids and x.kind == "stmt" and any(isinstance(c, ast.Call) and call_name(c) == "append" and norm(c.func.value) == "result"
                                                                                and isinstance(c.args[0], ast.JoinedStr) and "field_name" in norm(c.args[0]) for c in ast.walk(x.ast))]
    arg = [x for x in g.nodes if x.id in body_ids and x.kind == "stmt" and any(isinstance(c, ast.Call) and call_name(c) == "append" and norm(c.func.value) == "args" for c in ast.walk(x.ast))]
    for what, nodes in (("annotation line", ann), ("__init__ parameter", arg)):
        ok = len(nodes) == 1 and lp.id not in g.reachable(lp.id, first_edge="loop", avoid={nodes[0].id})
        rep.check(ok, rid, f"{st.key}:field {what}", f"every field gets its {what}", f"a structure field can be skipped without its {what}", st.loc(lp.ast))
    rep.check(norm(lp.ast.iter) == "structure.fields.items()", rid, f"{st.key}:fields", "iterates structure.fields (anonymous members folded, as attribute access sees them)",
              f"field loop iterates '{norm(lp.ast.iter)}'", st.loc(lp.ast))
    # a nested structure is declared inline exactly when the cstruct object does not provide it globally
    inl = [x for x in walk_body(st.node.body) if isinstance(x, ast.If) and any(isinstance(c, ast.Call) and call_name(c) == "generate_structure_stub" for s2 in x.body for c in ast.walk(s2))]
    rep.check(len(inl) == 1 and "typedefs" in norm(inl[0].test) and "not in" in norm(inl[0].test) and "Structure" in norm(inl[0].test), rid, f"{st.key}:inline-decision",
              "nested structures are inlined iff their name is not in cs.typedefs", f"the inline decision is '{short(inl[0].test, 80) if inl else None}': a nested structure "
              f"that is neither anonymous nor registered on the cstruct object would be referenced as a global type the object does not provide", st.loc())
    en = repo.func("tools/stubgen.py", "generate_enum_stub")
    per_member = any(isinstance(x, (ast.GeneratorExp, ast.ListComp)) and "__members__" in norm(x.generators[0].iter) for x in walk_body(en.node.body)) or \
        any(isinstance(x, ast.For) and "__members__" in norm(x.iter) and not any(isinstance(y, (ast.If, ast.Continue, ast.Break)) for y in ast.walk(x))
            and any(isinstance(c, ast.Call) and call_name(c) in ("append", "extend") for c in ast.walk(x)) for x in walk_body(en.node.body))
    rep.check(per_member, rid,
              f"{en.key}:members", "every member of the enum is emitted", "enum members are no longer taken from __members__", en.loc())
    # the type hint names the field's actual type
    hint = [c for c in walk_body(st.node.body) if isinstance(c, ast.Call) and call_name(c) == "generate_typehint"]
    rep.check(len(hint) == 1 and bool(hint[0].args) and norm(resolve_local(st.node, hint[0].args[0])) == "field.type", rid,
              f"{st.key}:hint", "hint generated from field.type", "the field hint is no longer generated from field.type", st.loc())
    th = repo.func("tools/stubgen.py", "generate_typehint")
    rets = [r for r in walk_body(th.node.body) if isinstance(r, ast.Return)]
    rep.check(bool(rets) and "__name__" in norm(rets[-1].value) and norm(rets[-1].value).count("type_") >= 1, rid, f"{th.key}:leaf", "leaf hint is the type's own __name__",
              "leaf type hints no longer use the type's __name__", th.loc())


def synthesised_name_rule(repo: Repo, rep: Report, rid: str) -> None:
    rep.rule(rid, "type names synthesised with non-identifier characters (arrays 'T[n]', pointers 'T*') never reach a class-name hole: the typedef "
                  "dispatcher has an arm for array / pointer types before the generic class emitter")
    cs = repo.module("cstruct.py")
    synth = []
    for qn in ("cstruct._make_array", "cstruct._make_pointer"):
        fi = repo.func("cstruct.py", qn)
        for x in walk_body(fi.node.body):
            if isinstance(x, ast.JoinedStr):
                lit = "".join(str(v.value) for v in x.values if isinstance(v, ast.Constant))
                if any(ch in lit for ch in "[]*"):
                    synth.append((qn, lit))
    rep.check(len({q for q, _ in synth}) == 2, rid, "cstruct.py:synthesised-names", f"array and pointer type names are synthesised ({sorted({l for _, l in synth})})",
              "array / pointer type names are no longer synthesised with [] / * (re-confirm which names can reach the stubs)", cs.path)
    gs = repo.func("tools/stubgen.py", "generate_cstruct_stub")
    g = CFG(gs.node)
    generic = [x for x in g.nodes if x.kind == "stmt" and any(isinstance(c, ast.Call) and call_name(c) == "generate_generic_stub" for c in ast.walk(x.ast))]
    if not generic:
        rep.ok(rid, f"{gs.key}:generic-arm", "no generic class emitter is used for typedefs", gs.loc())
        return
    arms = [x for x in g.nodes if x.kind == "if" and "issubclass(typedef" in norm(x.ast.test) and ("BaseArray" in norm(x.ast.test) or "Array" in norm(x.ast.test))
            and "Pointer" in norm(x.ast.test)]
    ok = bool(arms) and all(g.must_pass(g.entry.id, gn.id, {a.id for a in arms}) for gn in generic) and \
        all(gn.ast not in a.ast.body for gn in generic for a in arms)
    rep.check(ok, rid, f"{gs.key}:generic-arm", "array / pointer typedefs are handled before the generic class emitter",
              "a typedef of an array or pointer type reaches generate_generic_stub, which emits its synthesised name as a class name "
              "('class uint8[4](Array): ...' is not valid Python)", gs.loc(generic[0].ast))
    for a in arms:
        rep.check(any("TypeAlias" in norm(s) and "generate_typehint" in norm(s) for s in a.ast.body), rid, f"{gs.key}:array-pointer-arm",
                  "emitted as a TypeAlias of the type hint", "the array / pointer arm does not emit a TypeAlias of the type hint", gs.loc(a.ast))


def literal_rule(repo: Repo, rep: Report, rid: str) -> None:
    rep.rule(rid, "constants are emitted as Literal[repr(value)]: every writer of cstruct.consts stores a value whose repr is a literal, or the "
                  "emitter normalises it first (members of anonymous enums are stored as constants)")
    writers = []
    for fi in repo.all_functions():
        for x in walk_body(fi.node.body):
            if isinstance(x, ast.Assign) and isinstance(x.targets[0], ast.Subscript) and norm(x.targets[0].value).endswith(".consts"):
                writers.append((fi, x, norm(x.value), "literal"))
            elif isinstance(x, ast.Call) and call_name(x) == "update" and norm(x.func.value).endswith(".consts") and x.args:
                kind = "enum-members" if "__members__" in norm(x.args[0]) else "unknown"
                writers.append((fi, x, norm(x.args[0]), kind))
    rep.floor(rid, "writers of cstruct.consts", len(writers), 3)
    nonlit = [w for w in writers if w[3] != "literal"]
    gs = repo.func("tools/stubgen.py", "generate_cstruct_stub")
    loops = [l for l in walk_body(gs.node.body) if isinstance(l, ast.For) and "consts" in norm(l.iter)]
    if not loops:
        raise AnalysisError("generate_cstruct_stub: constants loop not found")
    lp = loops[0]
    vname = lp.target.elts[1].id if isinstance(lp.target, ast.Tuple) and len(lp.target.elts) == 2 else "value"
    normalises = any(isinstance(s, ast.If) and "isinstance" in norm(s.test) and vname in names_loaded(s.test) and ("Enum" in norm(s.test) and "Flag" in norm(s.test))
                     and any(isinstance(a, ast.Assign) and norm(a.targets[0]) == vname for a in s.body) for s in lp.body)
    for fi, x, src, kind in writers:
        key = f"{fi.key}:consts <- {short(x, 50)}"
        if kind == "literal":
            rep.ok(rid, key, "value comes from ast.literal_eval / an evaluated integer expression / raw text", fi.loc(x))
        else:
            rep.check(normalises, rid, key, f"{kind} are normalised to their integer value by the emitter",
                      f"'{src}' stores enum members as constants and the stub emitter formats them with repr(): 'A: Literal[<A: 0>] = ...' is not valid Python", fi.loc(x))
    lit = [t for t in T.stub_templates(repo) if "Literal[" in t.text]
    rep.check(len(lit) == 1 and any(isinstance(v, ast.FormattedValue) and v.conversion == 114 for v in lit[0].node.values), rid, f"{gs.key}:Literal-repr",
              "the literal is formatted with !r", "the constant template no longer formats the value with !r", gs.loc())


def typedef_order_rule(repo: Repo, rep: Report, rid: str) -> None:
    rep.rule(rid, "the typedef table keeps the order of first definition (cstruct.add_type folded): the stub declares a class at the first name that "
                  "reaches it and aliases every later name to it - a name that moves to the end when it is registered again (a tag used in a later "
                  "typedef, replace=True) is met after its own alias, so the stub aliases the tag to itself and never declares the alias")
    from ..folds import fold_add_type

    fi = repo.func("cstruct.py", "cstruct.add_type")
    fold = fold_add_type(repo)
    if fold is None:
        rep.ok(rid, f"{fi.key}:order", "not foldable with the evaluator's whitelist", fi.loc(), nontrivial=False)
        return
    bad = [b for b in fold["bad"] if "order" in str(b[1])]
    rep.check(not bad, rid, f"{fi.key}:order", f"{fold['cases']} registrations keep the table order", f"add_type with '{bad[0][0] if bad else ''}': {bad[0][1] if bad else ''}", fi.loc())


def fresh_generation_rule(repo: Repo, rep: Report, rid: str) -> None:
    rep.rule(rid, "stubs are generated from the definitions as they are now: no generator in tools/stubgen.py is memoised (structures are mutable - add_field / "
                  "commit change the class in place, so a cache keyed by the class would return the text of an earlier definition)")
    mod = repo.module("tools/stubgen.py")
    n = 0
    for q, fi in mod.functions.items():
        if not q.startswith("generate_"):
            continue
        n += 1
        decs = [norm(d) for d in fi.node.decorator_list]
        memo = [d for d in decs if "cache" in d.lower() or "memo" in d.lower()]
        stores = [x for x in walk_body(fi.node.body) if isinstance(x, (ast.Global, ast.Nonlocal))]
        from .c15 import param_mutations

        acc = param_mutations(fi.node, fi.params)
        rep.check(not acc, rid, f"{fi.key}:no-accumulator", "no parameter is used as an accumulator across calls",
                  f"{q} mutates its parameter '{acc[0][1] if acc else ''}' ('{short(acc[0][0], 50) if acc else ''}'): a caller that passes the same object to several calls "
                  "(one set of defined names for all cstruct objects of a file) makes the stub of one cstruct object depend on the objects processed before it",
                  fi.loc(acc[0][0]) if acc else fi.loc())
        rep.check(not memo and not stores, rid, f"{fi.key}:not-memoised", "generated afresh on every call",
                  f"{q} is memoised ({memo or 'module-level state'}): after a structure is extended in place the stub generated next is the cached text of the "
                  "old definition", fi.loc())
    rep.floor(rid, "stub generators", n, 5)


def rename_once_rule(repo: Repo, rep: Report, rid: str) -> None:
    rep.rule(rid, "a typedef'd anonymous structure takes exactly one name: every store to <type>.__name__ in the parser sits under a test that reads "
                  "<type>.__anonymous__ in the same iteration and clears the flag alongside (the stub declares a class under __name__ the first time it "
                  "meets it and aliases the other names to it)")
    n = 0
    for fi in repo.module("parser.py").functions.values():
        pm = None
        for st in walk_body(fi.node.body):
            if not (isinstance(st, ast.Assign) and isinstance(st.targets[0], ast.Attribute) and st.targets[0].attr == "__name__"):
                continue
            n += 1
            pm = pm or parent_map(fi.node)
            obj = norm(st.targets[0].value)
            p_, guard, loop_crossed = pm.get(st), None, False
            while p_ is not None and p_ is not fi.node:
                if isinstance(p_, ast.If) and guard is None and not loop_crossed:
                    if any(isinstance(x, ast.Attribute) and x.attr == "__anonymous__" and norm(x.value) == obj and isinstance(x.ctx, ast.Load) for x in ast.walk(p_.test)):
                        guard = p_
                if isinstance(p_, (ast.For, ast.While)):
                    loop_crossed = True
                p_ = pm.get(p_)
            cleared = guard is not None and any(isinstance(x, ast.Assign) and norm(x.targets[0]) == f"{obj}.__anonymous__" and norm(x.value) == "False" for x in guard.body)
            rep.check(guard is not None and cleared, rid, f"{fi.key}:rename {obj}", "renamed under a per-iteration test-and-clear of __anonymous__",
                      f"'{short(st, 50)}' is not guarded by a test of {obj}.__anonymous__ evaluated in the same iteration (with the flag cleared alongside): "
                      "'typedef struct {...} A, B;' renames the structure for every declarator, so it is registered as A but ends up named B and the stub "
                      "declares no class A", fi.loc(st))
    rep.floor(rid, "rename sites in the parser", n, 1)


CONTEXT_PARAMS = ("cs_prefix", "module_prefix", "prefix")


def context_forwarding_rule(repo: Repo, rep: Report, rid: str) -> None:
    rep.rule(rid, "naming context is forwarded: when one stub generator calls another (or itself) that also takes cs_prefix / module_prefix / prefix, "
                  "it passes its own value on - a nested type is named in the same scope as the type that contains it")
    mod = repo.module("tools/stubgen.py")
    gens = {q: f for q, f in mod.functions.items() if q.startswith("generate_") and "." not in q}
    n = 0
    for q, fi in gens.items():
        mine = [p_ for p_ in fi.params if p_ in CONTEXT_PARAMS]
        if not mine:
            continue
        for c in walk_body(fi.node.body):
            if not (isinstance(c, ast.Call) and isinstance(c.func, ast.Name) and c.func.id in gens):
                continue
            callee = gens[c.func.id]
            passed = {}
            for i_, a_ in enumerate(c.args):
                if i_ < len(callee.params):
                    passed[callee.params[i_]] = a_
            for k_ in c.keywords:
                if k_.arg:
                    passed[k_.arg] = k_.value
            for p_ in mine:
                if p_ not in callee.params:
                    continue
                n += 1
                arg = passed.get(p_)
                ok = arg is not None and any(isinstance(x, ast.Name) and x.id == p_ for x in ast.walk(arg))
                # a generator may deliberately blank cs_prefix for an inlined type ('' if inlined else cs_prefix): the parameter still occurs in the argument
                rep.check(ok, rid, f"{fi.key}:{c.func.id}({p_})", f"{p_} forwarded",
                          f"{q} calls {c.func.id} without forwarding its '{p_}' ({short(c, 70)}): nested hints lose their scope, e.g. in a file stub "
                          "(module_prefix='__cs__.') 'Array[Pointer[...]]' names Pointer, which the stub neither imports nor declares", fi.loc(c))
    rep.floor(rid, "generator-to-generator context parameters", n, 4)
    st = repo.func("tools/stubgen.py", "generate_structure_stub")
    loops = [w for w in walk_body(st.node.body) if isinstance(w, ast.While) and "issubclass" in norm(w.test) and "BaseArray" in norm(w.test)
             and any(isinstance(a_, ast.Assign) and norm(a_.value).endswith(".type") for a_ in w.body)]
    rep.check(len(loops) == 1, rid, f"{st.key}:array-levels", "every array level is stripped (a loop) before deciding whether the element is an inline structure",
              "generate_structure_stub strips at most one array level when looking for an inline element structure: for 'struct {...} cells[8][8]' no inline "
              "class is emitted and the hint names '__anonymous_0__', which the cstruct object does not provide", st.loc())
    if len(loops) == 1:
        w = loops[0]
        rep.check("Pointer" in norm(w.test), rid, f"{st.key}:pointer-levels", "pointers are stripped like array levels before deciding whether the target is an inline structure",
                  "generate_structure_stub does not look through pointers when deciding about an inline class: 'struct {...} *p' is hinted "
                  "Pointer[cstruct.__anonymous_0__], a name the stub never declares", st.loc(w))
        var = next((norm(a_.targets[0]) for a_ in w.body if isinstance(a_, ast.Assign) and norm(a_.value).endswith(".type")), None)
        tests = [c for c in ast.walk(st.node) if isinstance(c, ast.Compare) and any(isinstance(o, (ast.In, ast.NotIn)) for o in c.ops) and "typedefs" in norm(c.comparators[0])]
        from ..util import resolve_local as _rl2

        def names_stripped(e: ast.AST, depth: int = 4) -> bool:
            if var is None or depth < 0:
                return False
            for x in ast.walk(e):
                if isinstance(x, ast.Name):
                    if x.id == var:
                        return True
                    v_ = _rl2(st.node, x, 1)
                    if v_ is not x and v_ is not None and names_stripped(v_, depth - 1):
                        return True
            return False

        for c in tests:
            rep.check(names_stripped(c.left), rid, f"{st.key}:declared-elsewhere test", "the 'declared on the cstruct object?' test looks up the stripped structure's own name",
                      f"'{short(c, 70)}' looks up the name of the field type, not of the structure left after stripping arrays / pointers: for 'child x[2]' that is "
                      "the synthesised name 'child[2]', never a typedef, so a globally defined structure gets a duplicate inline class that shadows the real one",
                      st.loc(c))


def class_body_rule(repo: Repo, rep: Report, rid: str) -> None:
    rep.rule(rid, "every class a stub generator opens has a body whatever the definition contains: a header 'class X(...):' is followed by an "
                  "unconditional body line, or by a fallback ('...' / 'pass') for the case that the member / field loop emits nothing (an enum without "
                  "members, a cstruct without definitions)")
    mod = repo.module("tools/stubgen.py")
    n = 0
    for q, fi in mod.functions.items():
        if not q.startswith("generate_") or "." in q:
            continue
        pm0 = parent_map(fi.node)
        headers = [x for x in walk_body(fi.node.body) if isinstance(x, (ast.JoinedStr, ast.Constant)) and not isinstance(pm0.get(x), (ast.JoinedStr, ast.FormattedValue)) and
                   ("".join(str(v.value) for v in x.values if isinstance(v, ast.Constant)) if isinstance(x, ast.JoinedStr) else (x.value if isinstance(x.value, str) else "")).lstrip().startswith("class ")]
        for h in headers:
            text = "".join(str(v.value) for v in h.values if isinstance(v, ast.Constant)) if isinstance(h, ast.JoinedStr) else h.value
            n += 1
            if text.rstrip().endswith("...") or text.rstrip().endswith("pass"):
                rep.ok(rid, f"{fi.key}:class body", "body on the header line", fi.loc(h))
                continue
            # an unconditional body line: an append / list element of an indented constant or textwrap.indent(...) call outside every loop / comprehension / if
            pm = parent_map(fi.node)

            def unconditional(node: ast.AST) -> bool:
                from ..util import resolve_local as _rl

                p_ = pm.get(node)
                while p_ is not None and p_ is not fi.node:
                    if isinstance(p_, ast.For):
                        it = _rl(fi.node, p_.iter) if isinstance(p_.iter, ast.Name) else p_.iter
                        if not (isinstance(it, (ast.List, ast.Tuple)) and it.elts):
                            return False  # a loop over something that may be empty
                    elif isinstance(p_, (ast.ListComp, ast.GeneratorExp)):
                        g_ = p_.generators
                        it = _rl(fi.node, g_[0].iter) if isinstance(g_[0].iter, ast.Name) else g_[0].iter
                        if not (len(g_) == 1 and not g_[0].ifs and isinstance(it, (ast.List, ast.Tuple)) and it.elts):
                            return False  # a comprehension over something that may be empty / filtered
                    elif isinstance(p_, (ast.While, ast.If, ast.comprehension, ast.Try)):
                        return False
                    p_ = pm.get(p_)
                return True

            def is_body_line(x: ast.AST) -> bool:
                if isinstance(x, ast.Call) and norm(x.func) == "textwrap.indent":
                    return True
                t_ = "".join(str(v.value) for v in x.values if isinstance(v, ast.Constant)) if isinstance(x, ast.JoinedStr) else (x.value if isinstance(x, ast.Constant) and isinstance(x.value, str) else None)
                return bool(t_) and t_.startswith("    ") and t_.strip() != ""

            always = [x for x in walk_body(fi.node.body) if is_body_line(x) and x is not h and unconditional(x)]
            # ... or a top-level append / extend of something that is not an iteration over the definition: a list display, or the lines a helper returns
            from ..util import resolve_local

            for st_ in fi.node.body:
                c_ = st_.value if isinstance(st_, ast.Expr) else None
                if isinstance(c_, ast.Call) and isinstance(c_.func, ast.Attribute) and c_.func.attr in ("append", "extend") and c_.args:
                    arg = resolve_local(fi.node, c_.args[0]) if isinstance(c_.args[0], ast.Name) else c_.args[0]
                    if isinstance(arg, (ast.List, ast.Tuple)) and any(is_body_line(e) or (isinstance(e, ast.Call)) for e in arg.elts):
                        always.append(arg)
                    elif isinstance(arg, ast.Call) and isinstance(arg.func, ast.Name) and arg.func.id in mod.functions and arg.func.id != "generate_typehint":
                        always.append(arg)
            fallback = [x for x in walk_body(fi.node.body) if isinstance(x, ast.If) and isinstance(x.test, ast.UnaryOp) and isinstance(x.test.op, ast.Not)
                        and any(isinstance(c, (ast.Constant, ast.JoinedStr)) and ("..." in norm(c) or "pass" in norm(c)) for s_ in x.body for c in ast.walk(s_))]
            rep.check(bool(always) or bool(fallback), rid, f"{fi.key}:class body", "an unconditional body line or an empty-case fallback exists",
                      f"{q} opens a class ('{' '.join(text.split())[:40]}') whose only body lines come from a loop over the definition's members: for an empty one "
                      "(enum E : uint8 { };) the stub is 'class E(Enum):' with no body - not valid Python", fi.loc(h))
    rep.floor(rid, "class headers in stub generators", n, 3)
    # names synthesised for array / pointer types are never emitted as a name: the alias-to-an-earlier-declaration arm must not see them
    gs = repo.func("tools/stubgen.py", "generate_cstruct_stub")
    chain_: list[ast.If] = []
    first = next((x for x in walk_body(gs.node.body) if isinstance(x, ast.If) and any(isinstance(c, ast.Compare) and "defined_names" in norm(c) for c in ast.walk(x.test))), None)
    # find the head of the elif chain that contains it
    for x in walk_body(gs.node.body):
        if isinstance(x, ast.If):
            cur, seq = x, []
            while isinstance(cur, ast.If):
                seq.append(cur)
                cur = cur.orelse[0] if len(cur.orelse) == 1 and isinstance(cur.orelse[0], ast.If) else None
            if first is not None and any(c is first for c in seq) and len(seq) > len(chain_):
                chain_ = seq
    idx_alias = next((i for i, c in enumerate(chain_) if "defined_names" in norm(c.test)), None)
    idx_array = next((i for i, c in enumerate(chain_) if "BaseArray" in norm(c.test) or "Pointer" in norm(c.test)), None)
    adds = [c for c in walk_body(gs.node.body) if isinstance(c, ast.Call) and norm(c.func).endswith("defined_names.add")]
    guarded_add = bool(adds) and all(any(isinstance(p_, ast.If) and ("BaseArray" in norm(p_.test) or "Pointer" in norm(p_.test)) for p_ in _ancestors(gs.node, c)) for c in adds)
    rep.check(idx_alias is None or (idx_array is not None and idx_array < idx_alias) or guarded_add, rid, f"{gs.key}:synthesised alias",
              "array / pointer typedefs are handled before the 'seen before' alias arm (or never recorded as seen)",
              "a second typedef of the same array or pointer type takes the 'already declared' arm and is emitted as an alias to the synthesised type name "
              "('arr2: TypeAlias = uint8[4]', 'p2: TypeAlias = uint8*'), which no stub declares and, for pointers, is not even valid Python", gs.loc(first) if first else gs.loc())


def _ancestors(root: ast.AST, node: ast.AST):
    pm = parent_map(root)
    p_ = pm.get(node)
    while p_ is not None:
        yield p_
        p_ = pm.get(p_)


def stub_fold_rule(repo: Repo, rep: Report, rid: str) -> bool:
    rep.rule(rid, "stub generator folded: generate_cstruct_stub is interpreted on a model cstruct object (constants of every literal kind and members "
                  "of anonymous enums / flags, aliases by name and of built-ins, repeated array / pointer typedefs, enums with and without members, a "
                  "second name of an enum, a flag, structures with scalar / array / pointer / enum / bit-field / char-array fields, fields of "
                  "registered, anonymous and unregistered named structures behind arrays and pointers, a union, an empty structure, a custom type), "
                  "with and without a module prefix, and on an object without definitions; the text must parse and declare exactly the object's "
                  "names: Literal constants, aliases in the right scope, classes with every member / field, its hint and the two __init__ overloads")
    from ..stubfold import fold_stub

    cache = repo.__dict__.setdefault("_stub_fold", {})
    if "r" not in cache:
        cache["r"] = fold_stub(repo)
    fold = cache["r"]
    fi = repo.func("tools/stubgen.py", "generate_cstruct_stub")
    if fold is None:
        rep.ok(rid, f"{fi.key}:stub-fold", "the stub generator uses a construct outside the evaluator's whitelist: the structural rules decide", fi.loc(), nontrivial=False)
        return False
    rep.info["stub_fold_cases"] = fold["cases"]
    bad = fold["bad"]
    rep.check(not bad, rid, f"{fi.key}:stub-fold", f"{fold['cases']} generated stubs declare exactly what the model objects provide",
              f"stub generated with {bad[0][0] if bad else ''}: {bad[0][1] if bad else ''}" + (f" [{len(bad)} discrepancies]" if len(bad) > 1 else ""), fi.loc())
    return True


def run(repo: Repo, rep: Report, tier: str) -> None:
    from .compiled import fallback_rule

    decided = stub_fold_rule(repo, rep, "C20.R13")
    fallback_rule(repo, rep, decided, "the stub fold (R13)", template_rule, "C20.R1")
    sanitise_rule(repo, rep, "C20.R2")
    fallback_rule(repo, rep, decided, "the stub fold (R13)", contradiction_rule, "C20.R3")
    fallback_rule(repo, rep, decided, "the stub fold (R13)", completeness_rule, "C20.R4")
    type_table_rule(repo, rep, "C20.R5")
    fallback_rule(repo, rep, decided, "the stub fold (R13)", synthesised_name_rule, "C20.R6")
    fallback_rule(repo, rep, decided, "the stub fold (R13)", literal_rule, "C20.R7")
    fresh_generation_rule(repo, rep, "C20.R8")
    rename_once_rule(repo, rep, "C20.R9")
    from .memo import memo_rule

    memo_rule(repo, rep, "C20.R10")
    fallback_rule(repo, rep, decided, "the stub fold (R13)", context_forwarding_rule, "C20.R11")
    fallback_rule(repo, rep, decided, "the stub fold (R13)", class_body_rule, "C20.R12")
    from .c13 import getattr_fold_rule

    getattr_fold_rule(repo, rep, "C20.R14")
    from .c17 import one_list_rule

    one_list_rule(repo, rep, "C20.R15")
    from .c13 import resolve_rule

    resolve_rule(repo, rep, "C20.R16")
    from .c13 import parser_fold_rule

    parser_fold_rule(repo, rep, "C20.R17")
    from .c18 import commit_rule

    # the stub is generated from the name-keyed field table, which only a commit refreshes: every change of the field list is committed on every path
    commit_rule(repo, rep, "C20.R18")
    typedef_order_rule(repo, rep, "C20.R19")
