"""C07 - array length semantics: fixed, expression, null-terminated and to-end-of-stream."""

from __future__ import annotations

import ast

from .. import templates as T
from ..cfg import CFG, ReachingDefs
from ..model import SLOTS, Repo
from ..report import Report
from ..util import AnalysisError, always_raises, call_name, chain, const_value, is_const, norm, parent_map, short, walk_body
from .c01 import array_guard_rule
from .c02 import node_calls, terminator_rule

READ_SLOTS = ("_read", "_read_array", "_read_0")
CONTEXT_WAIVERS = {
    "bitbuffer.py:BitBuffer.read": "storage scalars of a bit-field unit take no context",
}


def _clamped_or_eof(repo: Repo, fi, val: ast.AST | None, depth: int = 2) -> bool:
    """max(0, .), the EOF sentinel, or a call of a repository function all of whose returns are (a helper that computes the count)."""
    if isinstance(val, ast.Call) and isinstance(val.func, ast.Name) and val.func.id == "max" and len(val.args) == 2 and \
            any(is_const(a) and const_value(a) == 0 for a in val.args):
        return True
    if isinstance(val, ast.Name) and val.id == "EOF":
        return True
    if depth and isinstance(val, ast.Call):
        nm = call_name(val)
        callee = fi.module.functions.get(nm or "") or (fi.module.functions.get(f"{fi.cls.name}.{nm}") if fi.cls is not None else None)
        if callee is not None:
            rets = [r for r in walk_body(callee.node.body) if isinstance(r, ast.Return)]
            if rets:
                def ret_ok(r: ast.Return) -> bool:
                    v = r.value
                    if isinstance(v, ast.Name) and v.id != "EOF":
                        defs = [s_.value for s_ in walk_body(callee.node.body) if isinstance(s_, ast.Assign) and any(isinstance(t, ast.Name) and t.id == v.id for t in s_.targets)]
                        return bool(defs) and all(_clamped_or_eof(repo, callee, d_, depth - 1) for d_ in defs)
                    return _clamped_or_eof(repo, callee, v, depth - 1)
                return all(ret_ok(r) for r in rets)
    return False


def clamp_rule(repo: Repo, rep: Report, rid: str) -> None:
    rep.rule(rid, "the element count handed to _read_array is max(0, .) or the EOF sentinel on every path")
    fi = repo.func("types/base.py", "BaseArray._read")
    g = CFG(fi.node)
    rd = ReachingDefs(g, fi.params)
    sites = [(n, c) for n in g.nodes for c in node_calls(n, "_read_array")]
    if not sites:
        raise AnalysisError("BaseArray._read: call to _read_array not found")
    k = 0
    for n, c in sites:
        cnt = c.args[1] if len(c.args) > 1 else None
        if not isinstance(cnt, ast.Name):
            ok = isinstance(cnt, ast.Call) and call_name(cnt) == "max"
            k += 1
            rep.check(ok, rid, f"{fi.key}:{short(c, 60)}", "count clamped inline", f"count argument '{norm(cnt)}' is not clamped", fi.loc(c))
            continue
        defs = rd.reaching(n.id, cnt.id)
        if not defs:
            rep.fail(rid, f"{fi.key}:{short(c, 60)}", f"'{cnt.id}' has no definition reaching the call", fi.loc(c))
        def leaves(nid_: int, v_: ast.AST | None, depth: int = 3) -> list[tuple[int, ast.AST | None]]:
            """Definitions behind copies of locals (e.g. the result variable of an inlined helper)."""
            if depth and isinstance(v_, ast.Name) and v_.id != "EOF":
                ds = rd.reaching(nid_, v_.id)
                if ds:
                    return [x for n2, v2 in ds for x in leaves(n2, v2, depth - 1)]
            return [(nid_, v_)]

        for nid, val in [x for d_ in defs for x in leaves(*d_)]:
            k += 1
            key = f"{fi.key}:{cnt.id} = {short(val, 50)}"
            ok = _clamped_or_eof(repo, fi, val)
            rep.check(ok, rid, key, "max(0, .) or EOF", f"a count defined as '{short(val, 50)}' reaches _read_array: a negative length must yield an "
                      f"empty array (max(0, n)), only the EOF sentinel may be negative", fi.loc(g.nodes[nid].ast))
    rep.floor(rid, "definitions of the count reaching _read_array", k, 3)

def context_rule(repo: Repo, rep: Report, rid: str) -> None:
    rep.rule(rid, "the parsing context is forwarded along every _read chain; structure readers pass the in-progress result dict to their fields")
    n = 0
    funcs = [f for f in repo.all_functions() if f.module.rel.startswith("types/") or f.module.rel == "bitbuffer.py"]
    tf = T.reader_template_functions(repo)
    from ..util import resolve_local as _resolve_local

    for fi in funcs + tf:
        has_ctx = "context" in fi.params
        # in-progress result dict: the dict receiving  X[field._name] = value
        result_names = set()
        for x in ast.walk(fi.node):
            if isinstance(x, ast.Assign) and isinstance(x.targets[0], ast.Subscript) and isinstance(x.targets[0].value, ast.Name):
                sl = norm(_resolve_local(fi.node, x.targets[0].slice))
                if "field._name" in sl or "field__name" in sl:
                    result_names.add(x.targets[0].value.id)
        from ..util import in_progress_result_names as _iprn

        result_names = (result_names & _iprn(fi.node)) or (result_names - {"sizes", "s"})
        is_walker = bool(result_names)
        for c in ast.walk(fi.node) if fi in tf else walk_body(fi.node.body):
            if not (isinstance(c, ast.Call) and isinstance(c.func, ast.Attribute) and c.func.attr in READ_SLOTS):
                continue
            recv = c.func.value
            if isinstance(recv, ast.Name) and recv.id in ("bit_buffer", "bit_reader"):
                continue
            need = 3 if c.func.attr == "_read_array" else 2
            ctx = None
            if len(c.args) >= need:
                ctx = c.args[need - 1]
            for kw in c.keywords:
                if kw.arg == "context":
                    ctx = kw.value
            key = f"{fi.key}:{short(c, 70)}"
            if fi.key in CONTEXT_WAIVERS:
                rep.ok(rid, key, f"waiver: {CONTEXT_WAIVERS[fi.key]}", fi.loc(c), nontrivial=False)
                continue
            if not has_ctx and not is_walker:
                if fi.name == "dereference":
                    n += 1
                    rep.check(ctx is not None and norm(ctx) == f"{fi.self_name}._context", rid, key, "pointer forwards the context it was parsed with",
                              "dereference does not forward the pointer's own context", fi.loc(c))
                # context-free entry points (reads / read / __call__): fine - unless the function is a helper that readers *with* a context call
                callers = [g_ for g_ in funcs + tf if g_ is not fi and ("context" in g_.params) and
                           any(isinstance(c2, ast.Call) and call_name(c2) == fi.name for c2 in ast.walk(g_.node))]
                if callers and fi.name not in ("__call__", "reads", "read", "dereference") and fi.key != "bitbuffer.py:BitBuffer.read":
                    n += 1
                    rep.fail(rid, key, f"{fi.qualname} has no context parameter but is called by {callers[0].qualname}, which has one: the context is dropped on the "
                                       f"way to {c.func.attr} - an expression-sized array below this point cannot refer to earlier fields", fi.loc(c))
                continue
            n += 1
            if ctx is None:
                rep.fail(rid, key, f"{fi.qualname} drops the context when calling {c.func.attr}: an expression-sized array below this point could "
                                   f"not refer to earlier fields", fi.loc(c))
                continue
            t = norm(ctx)
            if is_walker and isinstance(recv, (ast.Name, ast.Attribute)) and ("field" in norm(recv) or fi in tf):
                rep.check(t in result_names, rid, key, f"passes the in-progress result '{t}'",
                          f"field read receives '{t}' as context instead of the in-progress result dict ({sorted(result_names)})", fi.loc(c))
            else:
                rep.check(t == "context" or t in result_names, rid, key, f"forwards '{t}'", f"forwards '{t}' instead of the received context", fi.loc(c))
    rep.floor(rid, "context-forwarding call sites", n, 20)


def eof_rule(repo: Repo, rep: Report, rid: str) -> None:
    rep.rule(rid, "EOF mode is handled by every bulk reader: each _read_array implementation tests its count against EOF or delegates to another _read_array")
    table = repo.slot_table()
    impls = {}
    for fam, slots in table.items():
        f = slots["_read_array"]
        if f is not None:
            impls[f.key] = f
    n = 0
    from .c05 import folded_slots

    folded = folded_slots(repo, ("_read_array",))
    for f in impls.values():
        n += 1
        if f.key in folded and f.qualname != "MetaType._read_array":
            bad = [b for b in folded[f.key] if "EOF" in str(b[2]) or "eof" in str(b[2]).lower()]
            rep.check(not bad, rid, f"{f.key}:eof", "folded (codec fold): the EOF count reads every remaining whole element",
                      (f"{f.qualname}: case '{bad[0][2]}' ({bad[0][1]}): got {bad[0][3]!r}, reference {bad[0][4]!r}") if bad else "", f.loc())
            continue
        cnt = f.params[2] if len(f.params) > 2 else "count"
        cmp_eof = any(isinstance(x, ast.Compare) and {norm(x.left), norm(x.comparators[0])} == {cnt, "EOF"} for x in walk_body(f.node.body))
        delegates = any(isinstance(c, ast.Call) and call_name(c) == "_read_array" and len(c.args) >= 2 and norm(c.args[1]) == cnt for c in walk_body(f.node.body))
        rep.check(cmp_eof or delegates, rid, f"{f.key}:eof", "tests count == EOF" if cmp_eof else "delegates the count unchanged",
                  f"{f.qualname} neither tests its count against EOF nor delegates it: x[EOF] would be read as a negative count", f.loc())
    rep.floor(rid, "_read_array implementations", n, 5)
    d = repo.func("types/base.py", "MetaType._read_array")
    g = CFG(d.node)
    arms = [x for x in g.nodes if x.kind == "if" and "EOF" in norm(x.ast.test)]
    def eof_loop(stmts: list[ast.stmt], depth: int = 1) -> bool:
        for s_ in stmts:
            for w in ast.walk(s_):
                if isinstance(w, ast.While) and "_is_eof" in norm(w.test) and isinstance(w.test, ast.UnaryOp):
                    return True
                if depth and isinstance(w, ast.Call):  # the loop may live in a helper of the same class / module the arm calls
                    callee = d.module.functions.get(f"{d.cls.name}.{call_name(w)}" if d.cls is not None else "") or d.module.functions.get(call_name(w) or "")
                    if callee is not None and callee is not d and eof_loop(callee.node.body, depth - 1):
                        return True
        return False

    from ..folds import fold_generic_read_array

    gfold = fold_generic_read_array(repo)
    if gfold is not None:
        bad = gfold["bad"]
        rep.check(not bad, rid, f"{d.key}:eof-loop", f"folded over {gfold['cases']} (length, start, count) cases: counted reads, whole elements to the end, nothing consumed by the probe",
                  (f"MetaType._read_array on a stream of {bad[0][0]} bytes at {bad[0][1]} with count {bad[0][2]}: got {bad[0][3]}, stream left at {bad[0][4]} {bad[0][5]}") if bad else "",
                  d.loc())
    else:
        ok = bool(arms) and eof_loop(arms[0].ast.body)
        rep.check(ok, rid, f"{d.key}:eof-loop", "default EOF mode loops while not _is_eof(stream)", "the default EOF mode no longer loops on 'not _is_eof(stream)'", d.loc())
    # Packed EOF: whole elements only
    p = repo.func("types/packed.py", "Packed._read_array")
    fl = [x for x in walk_body(p.node.body) if isinstance(x, ast.BinOp) and isinstance(x.op, ast.FloorDiv) and norm(x.right) == f"{p.self_name}.size"]
    rep.check(bool(fl), rid, f"{p.key}:whole-elements", "count = length // size", "Packed EOF mode does not take whole elements (length // size)", p.loc())


def fallback_rule(repo: Repo, rep: Report, rid: str) -> None:
    rep.rule(rid, "an expression length falls back to 'rest of stream' only for the literal EOF expression; every other evaluation error propagates")
    fi = repo.func("types/base.py", "BaseArray._read")
    trys = [x for x in walk_body(fi.node.body) if isinstance(x, ast.Try)]
    if len(trys) != 1:
        rep.check(len(trys) == 0, rid, f"{fi.key}:try", "no handler at all", f"expected at most one try, found {len(trys)}", fi.loc())
        return
    t = trys[0]
    ok = False
    for h in t.handlers:
        first = h.body[0] if h.body else None
        if isinstance(first, ast.If) and always_raises(first.body) and isinstance(first.body[-1], ast.Raise) and first.body[-1].exc is None:
            tst = first.test
            if isinstance(tst, ast.Compare) and isinstance(tst.ops[0], ast.NotEq) and is_const(tst.comparators[0]) and const_value(tst.comparators[0]) == "EOF" \
                    and "expression" in norm(tst.left):
                ok = True
    rep.check(ok, rid, f"{fi.key}:try", "handler re-raises unless the expression text is 'EOF'",
              "the evaluation-error handler no longer re-raises for expressions other than 'EOF': a failing length expression would silently "
              "swallow the rest of the stream", fi.loc(t))
    only_eval = all(isinstance(s, ast.Assign) for s in t.body) and len(t.body) == 1 and "evaluate" in norm(t.body[0])
    rep.check(only_eval, rid, f"{fi.key}:try-body", "only the expression evaluation is inside the try", "the try covers more than the expression evaluation", fi.loc(t))


def nesting_rule(repo: Repo, rep: Report, rid: str) -> None:
    rep.rule(rid, "multi-dimensional arrays nest in C order: dimensions are wrapped innermost-first and a null-terminated inner dimension is refused")
    fi = repo.func("parser.py", "TokenParser._parse_field_type")
    loops = [x for x in walk_body(fi.node.body) if isinstance(x, ast.For)]
    lp = next((l for l in loops if any(isinstance(c, ast.Call) and call_name(c) == "_make_array" for c in ast.walk(l))), None)
    if lp is None:
        raise AnalysisError("_parse_field_type: dimension loop not found")
    rep.check(isinstance(lp.iter, ast.Call) and call_name(lp.iter) == "reversed", rid, f"{fi.key}:order", "iterates reversed(counts)",
              f"dimensions are iterated as '{norm(lp.iter)}': int x[2][3] must be 2 arrays of 3 (wrap the last dimension first)", fi.loc(lp))
    g = [x for x in ast.walk(lp) if isinstance(x, ast.If) and always_raises(x.body) and "BaseArray" in norm(x.test) and "None" in norm(x.test)]
    rep.check(bool(g), rid, f"{fi.key}:inner-null", "a null-terminated inner dimension raises ParserError", "null-terminated inner dimensions are no longer refused", fi.loc(lp))
    mk = [c for c in ast.walk(lp) if isinstance(c, ast.Call) and call_name(c) == "_make_array"]
    rep.check(len(mk) == 1 and norm(mk[0].args[0]) == "type_" and any(isinstance(s, ast.Assign) and norm(s.targets[0]) == "type_" and s.value is mk[0] for s in ast.walk(lp)),
              rid, f"{fi.key}:wrap", "type_ = _make_array(type_, count)", "the dimension loop does not wrap the running type", fi.loc(lp))
    ma = repo.func("cstruct.py", "cstruct._make_array")
    from ..folds import fold_make_array

    fold = fold_make_array(repo)
    if fold is not None:
        bad = fold["nt_bad"] + fold["name_bad"]
        rep.check(not bad, rid, f"{ma.key}:null-terminated", f"folded over {fold['cases']} cases: null_terminated iff the count is absent (x[]), and the name says so",
                  f"_make_array no longer marks x[] as null-terminated: {bad[:1]}", ma.loc())
        return
    g2 = [x for x in walk_body(ma.node.body) if isinstance(x, ast.If) and "num_entries is None" in norm(x.test)]
    rep.check(bool(g2) and any("null_terminated = True" in norm(s) for s in g2[0].body), rid, f"{ma.key}:null-terminated", "x[] -> null_terminated",
              "_make_array no longer marks x[] as null-terminated", ma.loc())


# functions that evaluate an expression without a field context because no structure is being defined there, with the reason
NO_FIELD_CONTEXT = {
    "parser.py:TokenParser._constant": "#define values: there is no enclosing structure",
    "parser.py:CStyleParser._constants": "#define values: there is no enclosing structure",
    "parser.py:CStyleParser._enums": "enum member values of the legacy parser: no enclosing structure (earlier members are not supported there)",
}


def parse_time_count_rule(repo: Repo, rep: Report, rid: str) -> None:
    rep.rule(rid, "an array size is folded to a number at definition time only when it cannot mean a field: every context-free Expression.evaluate() "
                  "in the parsers outside the #define / enum-value sites is preceded by a test of the expression's identifiers (.tokens) against the "
                  "fields declared so far - at read time a field of that name takes precedence over a constant")
    n = 0
    seen_exempt = 0
    for fi in repo.module("parser.py").functions.values():
        calls = [c for c in walk_body(fi.node.body) if isinstance(c, ast.Call) and call_name(c) == "evaluate" and not c.args and not c.keywords]
        if not calls:
            continue
        if fi.key in NO_FIELD_CONTEXT:
            seen_exempt += 1
            rep.ok(rid, f"{fi.key}:evaluate()", f"exempt: {NO_FIELD_CONTEXT[fi.key]}", fi.loc(calls[0]))
            continue
        g = CFG(fi.node)
        for c in calls:
            n += 1
            node = next((x for x in g.nodes if x.expr() is not None and any(y is c for y in ast.walk(x.expr()))), None)
            guards = {x.id for x in g.nodes if x.kind == "if" and any(isinstance(a_, ast.Attribute) and a_.attr == "tokens" for a_ in ast.walk(x.ast.test))}
            ok = node is not None and bool(guards) and g.must_pass(g.entry.id, node.id, guards)
            rep.check(ok, rid, f"{fi.key}:evaluate()", "folded only after its identifiers were checked against the declared fields",
                      f"{fi.qualname} evaluates an array-size expression without field context and without looking at its identifiers: if one of them is "
                      "also an earlier field of the structure (and a #define of the same name exists) the size is frozen to the constant, although at read "
                      "time the field must win (#define n 2; struct {{ uint8 n; uint8 d[n]; }})".replace("{{", "{").replace("}}", "}"), fi.loc(c))
    rep.floor(rid, "context-free array-size evaluations", n, 1)
    rep.floor(rid, "exempt define / enum sites", seen_exempt, 2)


def count_text_rule(repo: Repo, rep: Report, rid: str) -> None:
    rep.rule(rid, "the text of an array size is interpreted by the expression evaluator only (C literal rules: a leading 0 is octal, suffixes, 0x / 0b): "
                  "no int(<text>) / literal_eval shortcut in the parsers' size handling")
    n = 0
    for fi in repo.module("parser.py").functions.values():
        mk = [c for c in walk_body(fi.node.body) if isinstance(c, ast.Call) and call_name(c) == "Expression" and len(c.args) == 2]
        texts = {norm(c.args[1]) for c in mk}
        if not texts or fi.name.startswith(("_constant", "_enum")):
            continue
        n += 1
        bad = [c for c in walk_body(fi.node.body) if isinstance(c, ast.Call) and call_name(c) in ("int", "literal_eval", "float", "eval") and c.args
               and any(norm(x) in texts for x in ast.walk(c.args[0]))]
        rep.check(not bad, rid, f"{fi.key}:size-text", "only Expression(...) interprets the size text",
                  f"{fi.qualname} converts the size text with '{short(bad[0], 50) if bad else ''}': Python's int() reads '010' as ten, the expression evaluator (and "
                  "C) as eight, so x[010] and x[010 + 0] get different lengths", fi.loc(bad[0]) if bad else fi.loc())
    rep.floor(rid, "size-text sites", n, 1)


def array_count_fold_rule(repo: Repo, rep: Report, rid: str) -> None:
    rep.rule(rid, "array length semantics of BaseArray, folded over the count kinds: x[n] asks the element type for exactly n elements (never a "
                  "negative number), x[expr] for max(0, expr), x[] delegates to the null-terminated reader / writer, x[EOF] passes the EOF sentinel, an "
                  "unknown name in the count raises; dumping a static array of another length (including an empty list) is refused")
    from ..folds import fold_base_array

    rd = repo.func("types/base.py", "BaseArray._read")
    wr = repo.func("types/base.py", "BaseArray._write")
    fold = fold_base_array(repo)
    if fold is None:
        rep.ok(rid, f"{rd.key}:fold", "not foldable with the evaluator's whitelist: the structural rules decide alone", rd.loc(), nontrivial=False)
        return
    bad = fold["read_bad"]
    rep.check(not bad, rid, f"{rd.key}:fold", "9 count kinds give the expected request to the element type",
              f"BaseArray._read for {bad[0][0] if bad else ''}: {bad[0][1] if bad else ''}, expected {bad[0][2] if bad else ''}", rd.loc())
    bad = fold["write_bad"]
    rep.check(not bad, rid, f"{wr.key}:fold", "(count kind, value length) cases incl. two dimensions: written through the right slot or refused",
              f"BaseArray._write for {bad[0][0] if bad else ''}: {bad[0][1] if bad else ''}, expected {bad[0][2] if bad else ''}", wr.loc())


def array_size_text_fold_rule(repo: Repo, rep: Report, rid: str) -> None:
    rep.rule(rid, "array size text at definition time, folded over 15 (size text, earlier fields, constants) cases: a size that names an earlier field - as a "
                  "whole token, not as a substring of a literal or of another name - stays an expression also when a constant of that name exists; any other "
                  "size the evaluator can compute becomes that number under C literal rules (010 is 8); the rest stays an expression")
    from ..folds import fold_array_count

    fi = repo.func("parser.py", "Parser._array_count")
    fold = fold_array_count(repo)
    if fold is None:
        rep.ok(rid, f"{fi.key}:fold", "not foldable with the evaluator's whitelist: the structural rules on the array size decide", fi.loc(), nontrivial=False)
        return
    bad = fold["bad"]
    rep.check(not bad, rid, f"{fi.key}:fold", f"{fold['cases']} cases agree with the reference",
              (f"array size '{bad[0][0]}' with earlier fields {bad[0][1]} and constants {bad[0][2]} becomes {bad[0][3]!r}, expected {bad[0][4]!r}") if bad else "", fi.loc())


def generic_write_array_rule(repo: Repo, rep: Report, rid: str) -> None:
    rep.rule(rid, "generic array writers folded: MetaType._write_array / _write_0 on a model element type (whose writer pads to the absolute stream "
                  "position) over 8 (slot, start position, entries) cases - every element, and the default as terminator of the null-terminated form, is "
                  "written by the element writer, in order, on the caller's stream at the position the previous one left; the caller's list is unchanged; "
                  "the count is the sum of the element writer's counts")
    from ..folds import fold_generic_write_array

    fi = repo.func("types/base.py", "MetaType._write_array")
    fold = fold_generic_write_array(repo)
    if fold is None:
        rep.ok(rid, f"{fi.key}:fold", "not foldable with the evaluator's whitelist", fi.loc(), nontrivial=False)
        return
    bad = fold["bad"]
    rep.check(not bad, rid, f"{fi.key}:fold", f"{fold['cases']} cases agree with the reference",
              (f"MetaType.{bad[0][0]} given {bad[0][1]}: {bad[0][2]} ({bad[0][3]}): elements that pad to an absolute alignment (aligned structures) are "
               "laid out as if the array started at 0, so the bytes differ from what the reader expects whenever the array starts elsewhere") if bad else "", fi.loc())


def run(repo: Repo, rep: Report, tier: str) -> None:
    from .compiled import compiled_fold_rule

    compiled_fold_rule(repo, rep, "C07.R14", tier)
    clamp_rule(repo, rep, "C07.R1")
    context_rule(repo, rep, "C07.R2")
    terminator_rule(repo, rep, "C07.R3")
    array_guard_rule(repo, rep, "C07.R4")
    eof_rule(repo, rep, "C07.R5")
    fallback_rule(repo, rep, "C07.R6")
    from .c13 import token_parser_shape as _tps

    _tps(repo, rep, nesting_rule, "C07.R7")
    from .c10 import lookup_order_rule

    from .c10 import lookup_order_shared

    lookup_order_shared(repo, rep, "C07.R8")
    from .c05 import codec_fold_rule

    codec_fold_rule(repo, rep, "C07.R9", slots=("_read_array", "_read_0", "_write_array", "_write_0"))
    from .c02 import default_substitution_rule

    default_substitution_rule(repo, rep, "C07.R10")
    from .c13 import token_parser_shape

    token_parser_shape(repo, rep, parse_time_count_rule, "C07.R11")
    array_count_fold_rule(repo, rep, "C07.R12")
    count_text_rule(repo, rep, "C07.R13")
    from .memo import memo_rule

    memo_rule(repo, rep, "C07.R16")
    from .c17 import one_list_rule

    one_list_rule(repo, rep, "C07.R17")
    array_size_text_fold_rule(repo, rep, "C07.R18")
    from .share import share_rules

    share_rules(repo, rep, tier, "c10", {"C10.R1": "C07.R19", "C10.R2": "C07.R20", "C10.R3": "C07.R21"},
                "an array length written as an expression is computed by the expression evaluator: a mis-evaluated length is a wrong element count")
    from .c13 import parser_fold_rule

    parser_fold_rule(repo, rep, "C07.R22")
    generic_write_array_rule(repo, rep, "C07.R23")
    from .c05 import text_array_fold_rule

    # character arrays: x[] is dumped with its terminator re-appended, x[n] as exactly its characters
    text_array_fold_rule(repo, rep, "C07.R24")
    from .c10 import expression_fold_rule

    # x[expr]: the length is what the expression evaluates to over the fields parsed before it, falling back to constants
    expression_fold_rule(repo, rep, "C07.R25")
    from .c05 import leb128_rule
    from .share import share_rules

    # uleb128 x[] / ileb128 x[]: the terminator is the first element whose value is zero
    leb128_rule(repo, rep, "C07.R26")
    share_rules(repo, rep, tier, "c08", {"C08.R1": "C07.R27"}, "x[EOF] of characters reads 'everything': the size handed to read() must be one every stream kind accepts (-1, not another negative number)")
