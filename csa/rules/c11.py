"""C11 - union members are coherent views of one byte buffer."""

from __future__ import annotations

import ast

from ..cfg import CFG
from ..model import FuncInfo, Repo
from ..report import Report
from ..util import parent_map, AnalysisError, call_name, chain, names_loaded, norm, short, walk_body
from .compiled import shape_of
from .c02 import _is_zero_bytes_times, node_calls
from .c04 import calculator_rule


def member_seek_rule(repo: Repo, rep: Report, rid: str) -> None:
    rep.rule(rid, "every union member is read from its own offset of the shared buffer: the seek to base + member offset precedes the member read "
                  "in every iteration; fixed-size unions read through a private buffer of exactly cls.size bytes")
    fi = repo.func("types/structure.py", "UnionMetaType._read_fields")
    g = CFG(fi.node)
    loops = [x for x in g.nodes if x.kind == "for" and norm(x.ast.iter) == "cls.__fields__"]
    if len(loops) != 1:
        raise AnalysisError("_read_fields: member loop not found")
    lp = loops[0]
    reads = [(n, c) for n in g.nodes for c in node_calls(n, "_read") if c.args]
    if not reads:
        raise AnalysisError("_read_fields: member read not found")
    for n, c in reads:
        buf = norm(c.args[0])
        seeks = {m.id for m in g.nodes if m.kind == "stmt" and any(norm(s.func.value) == buf and s.args and "offset" in norm(s.args[0]) or
                                                                  (norm(s.func.value) == buf and s.args and "start" in norm(s.args[0]))
                                                                  for s in node_calls(m, "seek"))}
        rep.check(bool(seeks) and g.must_pass(lp.id, n.id, seeks), rid, f"{fi.key}:{short(c, 60)}", f"{buf}.seek(base + member offset) precedes the member read",
                  "a union member can be read without first seeking the buffer to that member's offset: members would be parsed back to back "
                  "instead of overlaying each other", fi.loc(c))
        from ..util import in_progress_result_names

        rep.check(len(c.args) >= 2 and norm(c.args[1]) in in_progress_result_names(fi.node), rid, f"{fi.key}:context", "members see earlier members as context",
                  "members are not given the in-progress result as context", fi.loc(c))
    priv = [s for s in walk_body(fi.node.body) if isinstance(s, ast.Assign) and isinstance(s.value, ast.Call) and call_name(s.value) == "BytesIO"]
    ok = len(priv) == 1 and isinstance(priv[0].value.args[0], ast.Call) and call_name(priv[0].value.args[0]) == "read" and \
        norm(priv[0].value.args[0].args[0]) == "cls.size"
    rep.check(ok, rid, f"{fi.key}:private-buffer", "fixed-size union: BytesIO(stream.read(cls.size))",
              "fixed-size unions no longer consume exactly cls.size bytes into a private buffer", fi.loc())
    # the offset a member is read at is computed for that member: every definition of a local used in the seek argument that reaches the seek was
    # made in the same iteration (a value carried over from the previous member would place this member at the other member's offset)
    from ..cfg import ReachingDefs

    rdefs = ReachingDefs(g, fi.params)
    in_loop = g.reachable(lp.id, first_edge="loop", avoid={lp.id})
    for m in g.nodes:
        if m.id in in_loop and m.kind == "stmt":
            for sk in node_calls(m, "seek"):
                if not sk.args:
                    continue
                for nm in sorted({x.id for x in ast.walk(sk.args[0]) if isinstance(x, ast.Name)}):
                    defs = rdefs.reaching(m.id, nm)
                    inside = [d for d, _ in defs if d in in_loop]
                    outside = [d for d, _ in defs if d not in in_loop]
                    if inside and outside:
                        rep.fail(rid, f"{fi.key}:seek operand {nm}", f"'{nm}' in '{short(sk, 50)}' can still hold the value of an earlier iteration (it is set before the "
                                      "member loop and only re-assigned on some paths inside it): a member without an explicit offset that follows one with an "
                                      "offset is parsed at that other member's offset", fi.loc(sk))
                    elif inside:
                        rep.ok(rid, f"{fi.key}:seek operand {nm}", "computed in the same iteration", fi.loc(sk))
    read_nodes = {n.id for n, _ in reads}
    rep.check(lp.id not in g.reachable(lp.id, first_edge="loop", avoid=read_nodes, skip_exc=True), rid, f"{fi.key}:every-member",
              "every iteration of the member loop parses the member from the buffer",
              "an iteration of the member loop can finish without parsing the member (a 'continue' above the read): that member's value is then not "
              "the result of parsing its type from the union's bytes", fi.loc(lp.ast))
    # the static _read consumes cls.size bytes exactly once
    rd = repo.func("types/structure.py", "UnionMetaType._read")
    rstream = rd.params[1]
    tells = {norm(s_.targets[0]) for s_ in walk_body(rd.node.body) if isinstance(s_, ast.Assign) and norm(s_.value) == f"{rstream}.tell()"}
    moves = [c for c in walk_body(rd.node.body) if isinstance(c, ast.Call) and call_name(c) == "seek" and norm(c.func.value) == rstream]
    stray = [c for c in moves if not (len(c.args) == 1 and norm(c.args[0]) in tells)]
    rep.check(not stray, rid, f"{rd.key}:no-extra-seek", "the caller's stream is only rewound to the recorded start (dynamic unions), never moved otherwise",
              f"UnionMetaType._read moves the caller's stream with '{short(stray[0], 70) if stray else ''}': a union then consumes more (or less) than its size "
              "and whatever is parsed next is read from the wrong bytes", rd.loc(stray[0]) if stray else rd.loc())
    sized = [c for c in walk_body(rd.node.body) if isinstance(c, ast.Call) and call_name(c) == "read" and c.args and norm(c.args[0]) == "cls.size"]
    rep.check(len(sized) == 1, rid, f"{rd.key}:consume", "static union consumes cls.size bytes", f"static union reads cls.size bytes {len(sized)} times", rd.loc())


def rebuild_rule(repo: Repo, rep: Report, rid: str) -> None:
    rep.rule(rid, "assignment always rebuilds: Union.__setattr__ and UnionProxy.__setattr__ reach _rebuild on every normal path after the store; "
                  "_rebuild performs write -> store _buf -> _update() -> _proxify() in that order on all normal paths")
    for qn, store_pred in (("Union.__setattr__", lambda c: call_name(c) == "__setattr__"), ("UnionProxy.__setattr__", lambda c: call_name(c) == "setattr")):
        fi = repo.func("types/structure.py", qn)
        g = CFG(fi.node)
        stores = [n for n in g.nodes if n.kind == "stmt" and any(store_pred(c) for c in ast.walk(n.ast) if isinstance(c, ast.Call))]
        reb = {n.id for n in g.nodes if n.kind == "stmt" and node_calls(n, "_rebuild")}
        # a name that is not a member of the union itself (a field folded in from an anonymous structure: its property setter already went through the
        # nested proxy, which rebuilds the union under the top-level member's name) may skip the rebuild behind a membership test
        member_tests = {n.id for n in g.nodes if n.kind == "if" and any(isinstance(c, ast.Compare) and any(isinstance(o, (ast.In, ast.NotIn)) for o in c.ops)
                                                                       and "lookup" in norm(c.comparators[0]) for c in ast.walk(n.ast.test))}
        ok = bool(stores) and bool(reb) and all(g.must_pass(s.id, g.exit.id, reb | member_tests) for s in stores)
        if qn == "Union.__setattr__":
            rb_calls = [c for n in g.nodes for c in node_calls(n, "_rebuild")]
            rb_fn = repo.func("types/structure.py", "Union._rebuild")
            tolerant = any(isinstance(c, ast.Call) and call_name(c) == "get" and "lookup" in norm(c.func.value) for c in walk_body(rb_fn.node.body)) or \
                any(isinstance(t, ast.Try) for t in walk_body(rb_fn.node.body))
            guarded = bool(member_tests) and all(g.must_pass(g.entry.id, n.id, member_tests) for n in g.nodes if n.kind == "stmt" and node_calls(n, "_rebuild"))
            rep.check(bool(rb_calls) and (guarded or tolerant), rid, f"{fi.key}:member-name", "_rebuild only receives names of the union's own members",
                      "Union.__setattr__ hands every attribute name to _rebuild, which indexes the union's own member table with it: assigning a field that was "
                      "folded in from an anonymous structure (union u { struct { uint8 x; uint8 y; }; uint16 v; }; u.x = 5) applies the change through the "
                      "nested proxy and then raises KeyError('x')", fi.loc())
        # ... and no normal path skips the store itself (an early return for "unchanged" values loses in-place edits and -0.0 / +0.0)
        no_skip = bool(stores) and g.must_pass(g.entry.id, g.exit.id, {s.id for s in stores})
        rep.check(no_skip, rid, f"{fi.key}:always-stores", "every normal path performs the store",
                  f"{qn} can return without storing the assigned value (early return): an assignment that compares equal but has different bytes "
                  f"(-0.0 for 0.0, an array edited in place and assigned back) would not reach the union's buffer", fi.loc())
        rep.check(ok, rid, f"{fi.key}:rebuild", "store is followed by _rebuild on every normal path",
                  f"{qn}: a member can be assigned without the union being rebuilt - the other members and the dumped bytes would keep the old value", fi.loc())
        if qn == "UnionProxy.__setattr__":
            calls = [c for n in g.nodes for c in node_calls(n, "_rebuild")]
            rep.check(bool(calls) and all(norm(c.func.value).endswith("__union__") and norm(c.args[0]).endswith("__attr__") for c in calls), rid,
                      f"{fi.key}:target", "rebuilds the owning union through the proxy's member name",
                      "the proxy does not rebuild its owning union with its own member name", fi.loc())
    fi = repo.func("types/structure.py", "Union._rebuild")
    g = CFG(fi.node)
    W = [n for n in g.nodes if n.kind == "stmt" and any(c.args and norm(c.args[0]) == "buf" for c in node_calls(n, "_write"))]
    B = [n for n in g.nodes if n.kind == "stmt" and any(call_name(c) == "__setattr__" and len(c.args) >= 3 and isinstance(c.args[1], ast.Constant) and c.args[1].value == "_buf"
                                                        for c in ast.walk(n.ast) if isinstance(c, ast.Call))]
    U = [n for n in g.nodes if n.kind == "stmt" and node_calls(n, "_update")]
    P = [n for n in g.nodes if n.kind == "stmt" and node_calls(n, "_proxify")]
    ok = all(len(x) == 1 for x in (W, B, U, P))
    if ok:
        w, b, u, p = W[0], B[0], U[0], P[0]
        ok = g.dominates(w.id, b.id) and g.dominates(b.id, u.id) and g.dominates(u.id, p.id) and all(g.must_pass(g.entry.id, g.exit.id, {x.id}) for x in (w, b, u, p))
    rep.check(ok, rid, f"{fi.key}:order", "write -> _buf -> _update -> _proxify, each on every normal path",
              f"_rebuild lost a step or the order (write={len(W)}, store _buf={len(B)}, _update={len(U)}, _proxify={len(P)})", fi.loc())
    # the member is written at its own offset into a copy of the current buffer
    look = [s for s in walk_body(fi.node.body) if isinstance(s, ast.Assign) and isinstance(s.targets[0], ast.Name) and "lookup[" in norm(s.value)]
    fvar = norm(look[0].targets[0]) if look else "field"
    sk = [n for n in g.nodes if n.kind == "stmt" and any(norm(c.args[0]) == f"{fvar}.offset" for c in node_calls(n, "seek") if c.args)]
    rep.check(bool(sk) and bool(W) and g.must_pass(sk[0].id, g.exit.id, {W[0].id}) and any("cur_buf" in norm(s.value) for s in walk_body(fi.node.body)
                                                                                          if isinstance(s, ast.Assign) and norm(s.targets[0]) == "buf"),
              rid, f"{fi.key}:offset", "member written at field.offset of a copy of the current bytes", "_rebuild does not write the member at its offset into the current bytes", fi.loc())
    bufv = [c for n in B for c in ast.walk(n.ast) if isinstance(c, ast.Call) and call_name(c) == "__setattr__"]
    rep.check(bool(bufv) and norm(bufv[0].args[2]) == "buf.getvalue()", rid, f"{fi.key}:bytes", "_buf = buf.getvalue()", "_buf is not the rewritten buffer", fi.loc())
    rep.check(bool(look) and norm(look[0].value) == f"self.__class__.lookup[{fi.params[1]}]", rid, f"{fi.key}:lookup", "member resolved in the union's own lookup",
              "_rebuild no longer resolves the member in the union's own lookup", fi.loc())


def update_proxify_rule(repo: Repo, rep: Report, rid: str) -> None:
    rep.rule(rid, "_update() replaces the member objects with un-proxied ones, so every call of _update is followed by _proxify() before return")
    n = 0
    for fi in repo.all_functions():
        if not fi.module.rel.endswith("structure.py"):
            continue
        g = None
        for c in walk_body(fi.node.body):
            if isinstance(c, ast.Call) and call_name(c) == "_update" and isinstance(c.func, ast.Attribute) and not c.args:
                if g is None:
                    g = CFG(fi.node)
                n += 1
                recv = norm(c.func.value)
                un = next(x for x in g.nodes if x.expr() is not None and any(y is c for y in ast.walk(x.expr())))
                prox = {x.id for x in g.nodes if x.kind == "stmt" and any(norm(p.func.value) == recv for p in node_calls(x, "_proxify"))}
                rep.check(bool(prox) and g.must_pass(un.id, g.exit.id, prox), rid, f"{fi.key}:{recv}._update()", "followed by _proxify() on every normal path",
                          f"{fi.qualname}: after {recv}._update() a path returns without {recv}._proxify(): nested structures would no longer write through "
                          f"to the union", fi.loc(c))
    rep.floor(rid, "_update call sites", n, 2)
    up = repo.func("types/structure.py", "Union._update")
    rep.check(any(isinstance(c, ast.Call) and call_name(c) == "update" and "__dict__" in norm(c.func.value) for c in walk_body(up.node.body)), rid,
              f"{up.key}:members", "member values replaced from the re-parsed buffer", "_update no longer replaces the member values", up.loc())


def proxy_key_rule(repo: Repo, rep: Report, rid: str) -> None:
    rep.rule(rid, "proxy keys are top-level member names: the name given to a UnionProxy created at recursion depth >= 1 is carried unchanged "
                  "through the recursion from the top-level member (Union._rebuild indexes the union's own lookup with it)")
    n = 0
    mod = repo.module("types/structure.py")
    for fi in mod.functions.values():
        for c in walk_body(fi.node.body):
            if not (isinstance(c, ast.Call) and call_name(c) == "UnionProxy" and len(c.args) >= 2):
                continue
            n += 1
            key = f"{fi.key}:{short(c, 70)}"
            attr = c.args[1]
            rec = [r for r in walk_body(fi.node.body) if isinstance(r, ast.Call) and isinstance(r.func, ast.Name) and r.func.id == fi.name]
            if not rec:
                rep.ok(rid, key, "not recursive: only top-level members are proxied", fi.loc(c))
                continue
            params = [a.arg for a in fi.node.args.args]
            carried = None
            for pi, p in enumerate(params):
                derived = {p}
                for s in walk_body(fi.node.body):
                    if isinstance(s, ast.Assign) and isinstance(s.targets[0], ast.Name) and p in names_loaded(s.value):
                        derived.add(s.targets[0].id)
                if names_loaded(attr) & derived and pi > 0:
                    ok_rec = True
                    for r in rec:
                        a = r.args[pi] if len(r.args) > pi else next((k.value for k in r.keywords if k.arg == p), None)
                        if a is None or not (names_loaded(a) & derived):
                            ok_rec = False
                    if ok_rec:
                        carried = p
            # the carried name must win over the current level's field name when present
            prefers = carried is not None and _prefers_param(fi, attr, carried)
            rep.check(carried is not None and prefers, rid, key, f"member name carried through the recursion in parameter '{carried}'",
                      f"UnionProxy is given '{norm(attr)}' - the field name at the current nesting level - and the recursion does not carry the "
                      f"top-level member name: assigning through a structure nested two levels deep makes Union._rebuild look up a name the "
                      f"union does not have (KeyError) or the wrong member", fi.loc(c))
    rep.floor(rid, "UnionProxy construction sites", n, 1)


def _prefers_param(fi: FuncInfo, attr: ast.AST, p: str) -> bool:
    """attr is `p`, or a local bound to ``p or <fallback>`` / ``p if p is not None else <fallback>`` (p first)."""
    if isinstance(attr, ast.Name) and attr.id == p:
        return True
    if isinstance(attr, ast.Name):
        for s in walk_body(fi.node.body):
            if isinstance(s, ast.Assign) and isinstance(s.targets[0], ast.Name) and s.targets[0].id == attr.id:
                v = s.value
                if isinstance(v, ast.BoolOp) and isinstance(v.op, ast.Or) and isinstance(v.values[0], ast.Name) and v.values[0].id == p:
                    return True
                if isinstance(v, ast.IfExp) and p in names_loaded(v.test) and (norm(v.body) == p or norm(v.orelse) == p):
                    return True
    if isinstance(attr, ast.BoolOp) and isinstance(attr.op, ast.Or) and isinstance(attr.values[0], ast.Name) and attr.values[0].id == p:
        return True
    return False


def proxy_cover_rule(repo: Repo, rep: Report, rid: str) -> None:
    rep.rule(rid, "every nested structure *and union* member is proxied: the condition guarding the UnionProxy construction is true for every "
                  "Structure subclass (a nested union rebuilds only its own buffer, not the enclosing union's)")
    from ..boolalg import Formula

    mod = repo.module("types/structure.py")
    n = 0
    for fi in mod.functions.values():
        for st in walk_body(fi.node.body):
            if isinstance(st, ast.If) and any(isinstance(c, ast.Call) and call_name(c) == "UnionProxy" for s2 in st.body for c in ast.walk(s2)):
                n += 1

                def interp(e: ast.AST):
                    if isinstance(e, ast.Call) and call_name(e) == "issubclass" and len(e.args) == 2 and norm(e.args[1]) == "Structure":
                        return "STRUCT"
                    return None

                f = Formula(st.test, interp)
                rep.check("STRUCT" in f.atoms and f.always({"STRUCT": True}, True), rid, f"{fi.key}:proxy-condition", "proxied whenever the member type is a Structure subclass",
                          f"members are proxied only under '{short(st.test, 70)}': a Structure subclass excluded by that test (e.g. a nested union) is "
                          f"handed out un-proxied, so assigning through it never rebuilds the enclosing union", fi.loc(st))
    rep.floor(rid, "proxy conditions", n, 1)


@shape_of("layout")
def size_rule(repo: Repo, rep: Report, rid: str) -> None:
    rep.rule(rid, "a union has the size of its largest member rounded up to its alignment; dumping pads to len(union) with zeros")
    fi = repo.func("types/structure.py", "UnionMetaType._write")
    pads = [c for c in walk_body(fi.node.body) if isinstance(c, ast.Call) and call_name(c) == "write" and c.args and _is_zero_bytes_times(c.args[0])]

    def mentions_len_cls(e: ast.AST, depth: int = 3) -> bool:
        """The padding count is derived from len(cls), directly or through locals / a walrus binding (whatever they are called)."""
        if "len(cls)" in norm(e):
            return True
        if depth == 0:
            return False
        for nm in {x.id for x in ast.walk(e) if isinstance(x, ast.Name)}:
            for d_ in walk_body(fi.node.body):
                if isinstance(d_, ast.Assign) and any(isinstance(t, ast.Name) and t.id == nm for t in d_.targets) and mentions_len_cls(d_.value, depth - 1):
                    return True
                if isinstance(d_, ast.NamedExpr) and d_.target.id == nm and mentions_len_cls(d_.value, depth - 1):
                    return True
        return False

    exp = [c for c in pads if mentions_len_cls(c.args[0])]
    rep.check(bool(exp) and bool(pads), rid, f"{fi.key}:pad", "pads to offset + len(cls) with zeros", "union writer no longer pads to len(cls) with zeros", fi.loc())
    from ..boolalg import Formula

    calc = repo.func("types/structure.py", "UnionMetaType._calculate_size_and_offsets")
    flag = calc.params[2] if len(calc.params) > 2 else "align"
    pm = parent_map(calc.node)
    ups = [x for x in walk_body(calc.node.body) if isinstance(x, (ast.AugAssign, ast.Assign)) and any(
        isinstance(b_, ast.BinOp) and isinstance(b_.op, ast.BitAnd) and any(isinstance(u, ast.UnaryOp) and isinstance(u.op, ast.USub) for u in ast.walk(b_)) for b_ in ast.walk(x.value))]
    okpad = bool(ups)
    why = "no round-up of the union size found"
    for u in ups:
        p_, guarded = pm.get(u), False
        while p_ is not None and p_ is not calc.node:
            if isinstance(p_, ast.If):
                f_ = Formula(p_.test, lambda e: "ALIGN" if norm(e) == flag else None)
                if "ALIGN" in f_.atoms and f_.always({"ALIGN": False}, False):
                    guarded = True
            p_ = pm.get(p_)
        if not guarded:
            okpad, why = False, f"'{short(u, 50)}' is not guarded by the '{flag}' parameter"
    rep.check(okpad, rid, f"{calc.key}:tail-padding", f"the size is rounded up to the alignment only when '{flag}' is set",
              f"union size round-up: {why}: a union defined without alignment must be exactly as large as its largest member", calc.loc(ups[0]) if ups else calc.loc())
    rets = [s for s in walk_body(fi.node.body) if isinstance(s, ast.Return)]
    rep.check(bool(rets) and "tell()" in norm(rets[-1].value), rid, f"{fi.key}:written", "returns the number of bytes written", "union writer return value changed", fi.loc())


def union_encode_rule(repo: Repo, rep: Report, rid: str) -> None:
    rep.rule(rid, "a union is dumped by encoding a member value through its type under the settings in force now: UnionMetaType._write never emits the "
                  "stored raw buffer (_buf), which holds the bytes as they were encoded when the union was read or last rebuilt")
    fi = repo.func("types/structure.py", "UnionMetaType._write")
    from ..util import resolve_local

    stream = fi.params[1]
    raw = []
    for c in walk_body(fi.node.body):
        if isinstance(c, ast.Call) and call_name(c) == "write" and norm(c.func.value) == stream and c.args:
            src = resolve_local(fi.node, c.args[0]) if isinstance(c.args[0], ast.Name) else c.args[0]
            names = {x.id for x in ast.walk(c.args[0]) if isinstance(x, ast.Name)}
            from_buf = any((isinstance(x, ast.Attribute) and x.attr == "_buf") or (isinstance(x, ast.Constant) and x.value == "_buf") for x in ast.walk(src))
            # walrus-bound locals: (buf := getattr(data, "_buf", None))
            for w in walk_body(fi.node.body):
                if isinstance(w, ast.NamedExpr) and isinstance(w.target, ast.Name) and w.target.id in names and any(
                        (isinstance(x, ast.Attribute) and x.attr == "_buf") or (isinstance(x, ast.Constant) and x.value == "_buf") for x in ast.walk(w.value)):
                    from_buf = True
            if from_buf:
                raw.append(c)
    members = [c for c in walk_body(fi.node.body) if isinstance(c, ast.Call) and call_name(c) == "_write" and isinstance(c.func, ast.Attribute) and c.func.value is not None
               and norm(c.func.value) != stream]
    rep.check(not raw and bool(members), rid, f"{fi.key}:encodes-members", "written through a member type's _write",
              f"UnionMetaType._write emits the stored buffer ('{short(raw[0], 60) if raw else ''}'): after the byte order of the cstruct instance changed, an existing "
              "union (and every structure embedding it) is still dumped in the old order while all scalar types follow the new one", fi.loc(raw[0]) if raw else fi.loc())


def union_call_rule(repo: Repo, rep: Report, rid: str) -> None:
    rep.rule(rid, "UnionMetaType.__call__ folded over 8 kinds of argument: a union parsed from bytes, a bytearray, a memoryview or a stream keeps the parsed "
                  "bytes (no rebuild); values given by the user rebuild it from the first given member; a default-constructed union is proxified")
    from ..folds import fold_union_call

    fi = repo.func("types/structure.py", "UnionMetaType.__call__")
    fold = fold_union_call(repo)
    if fold is None:
        rep.ok(rid, f"{fi.key}:fold", "not foldable with the evaluator's whitelist", fi.loc(), nontrivial=False)
        return
    bad = fold["bad"]
    rep.check(not bad, rid, f"{fi.key}:fold", f"{fold['cases']} argument kinds behave as specified",
              f"UnionMetaType.__call__ given {bad[0][0] if bad else ''}: {bad[0][1] if bad else ''}, expected {bad[0][2] if bad else ''}: a freshly parsed union that is "
              "rebuilt from its first member loses the bytes that member does not own (unused bits of a bit-field unit, alignment padding)", fi.loc())


def proxy_liveness_rule(repo: Repo, rep: Report, rid: str) -> None:
    rep.rule(rid, "a proxy handed out for a nested member stays a view of the union: either UnionProxy resolves its target through the union on every "
                  "use, or a rebuild keeps the nested member objects (updating them in place) - a proxy that stores the object it wraps while every "
                  "rebuild replaces that object goes stale after the first assignment made through it")
    px = repo.cls("UnionProxy")
    init = px.methods.get("__init__")
    stores_target = init is not None and any(isinstance(c, ast.Call) and call_name(c) == "__setattr__" and len(c.args) >= 3 and isinstance(c.args[1], ast.Constant)
                                             and c.args[1].value == "__target__" for c in walk_body(init.node.body))
    upd = repo.func("types/structure.py", "Union._update")
    replaces = any(isinstance(c, ast.Call) and norm(c.func).endswith("__dict__.update") for c in walk_body(upd.node.body))
    rep.check(not (stores_target and replaces), rid, "types/structure.py:UnionProxy:liveness", "proxies cannot go stale",
              "UnionProxy keeps the nested object it was created for (__target__) while Union._update replaces every member object on each rebuild: "
              "p = u.s; p.lo = 9; p.hi = 8 applies the second assignment to an object the union no longer holds, and the rebuild it triggers "
              "re-serialises the union's current member - the second write is lost", f"{px.module.path}:{px.node.lineno}")


def union_write_fold_rule(repo: Repo, rep: Report, rid: str) -> None:
    rep.rule(rid, "UnionMetaType._write folded over 7 member lists: what is dumped is a full image of the union - one member as large as the union is encoded "
                  "(an anonymous structure when no regular member is as large), followed by zero padding up to len(union)")
    from ..folds import fold_union_write

    fi = repo.func("types/structure.py", "UnionMetaType._write")
    fold = fold_union_write(repo)
    if fold is None:
        rep.ok(rid, f"{fi.key}:fold", "not foldable with the evaluator's whitelist", fi.loc(), nontrivial=False)
        return
    bad = fold["bad"]
    rep.check(not bad, rid, f"{fi.key}:fold", f"{fold['cases']} member lists dump a full image",
              f"union with members '{bad[0][0] if bad else ''}': {bad[0][1] if bad else ''}, expected {bad[0][2] if bad else ''}: the bytes that only the larger member "
              "covers are dumped as zeros", fi.loc())


def proxy_fold_rule(repo: Repo, rep: Report, rid: str) -> bool:
    rep.rule(rid, "union proxies folded on a model union (an anonymous structure, a structure member with a nested structure, a nested union, a scalar): after "
                  "_proxify every structure-typed member at any depth - the anonymous one included - is a proxy naming its top-level member; an "
                  "assignment through a proxy sets the attribute on the proxy's own target, rebuilds through that member once and stores nothing else on the union")
    from ..folds import fold_union_proxies

    fi = repo.func("types/structure.py", "Union._proxify")
    fold = fold_union_proxies(repo)
    if fold is None:
        rep.ok(rid, f"{fi.key}:fold", "not foldable with the evaluator's whitelist: the structural proxy rules decide", fi.loc(), nontrivial=False)
        return False
    bad = fold["bad"]
    rep.check(not bad, rid, f"{fi.key}:fold", f"{fold['cases']} model cases agree with the reference",
              (f"{bad[0][0]}: {bad[0][1]} is {bad[0][2]}, expected {bad[0][3]}: members reached through it and the union's buffer go out of step") if bad else "", fi.loc())
    return True


def union_life_rule(repo: Repo, rep: Report, rid: str) -> None:
    rep.rule(rid, "union life cycle folded: UnionMetaType._read / _read_fields / _write, Union.__setattr__ / _rebuild / _update / _proxify and "
                  "UnionProxy.__setattr__ are interpreted together on four model unions (scalars, a char array, a structure, a structure nested two "
                  "levels, an anonymous structure, explicit member offsets), two contents, parsed at stream positions 0 and 3: parsing consumes the "
                  "union's size, every member is the reference parse of its type from the union's bytes, and after each of 4 - 6 assignments (to "
                  "members, through nested structures, zero values included) every member and the dump reflect the new bytes of the assigned member "
                  "and the old bytes elsewhere")
    from ..unionfold import fold_union_life

    fi = repo.func("types/structure.py", "UnionMetaType._read")
    fold = fold_union_life(repo)
    if fold is None:
        rep.ok(rid, f"{fi.key}:life-fold", "not foldable with the evaluator's whitelist: the per-function folds and structural rules decide", fi.loc(), nontrivial=False)
        return
    bad = fold["bad"]
    b = bad[0] if bad else None
    rep.check(not bad, rid, f"{fi.key}:life-fold", f"{fold['cases']} parse / assignment steps agree with the reference",
              (f"{b[0]}: {b[1]}; expected {b[2]} [{len(bad)} discrepancies]") if b else "", fi.loc())


def rebuild_fold_rule(repo: Repo, rep: Report, rid: str) -> None:
    rep.rule(rid, "Union._rebuild folded over 6 (old buffer, member offset, value) cases: the member's encoding replaces exactly the bytes at the member's "
                  "offset, the rest of the buffer stays (zeros when there was none), None is written as the default, 0 as 0; members are re-read, then re-proxified")
    from ..folds import fold_union_rebuild

    fi = repo.func("types/structure.py", "Union._rebuild")
    fold = fold_union_rebuild(repo)
    if fold is None:
        rep.ok(rid, f"{fi.key}:fold", "not foldable with the evaluator's whitelist: the structural rebuild rules decide", fi.loc(), nontrivial=False)
        return
    bad = fold["bad"]
    rep.check(not bad, rid, f"{fi.key}:fold", f"{fold['cases']} cases agree with the reference",
              (f"Union._rebuild for {bad[0][0]}: buffer {bad[0][1]}, expected {bad[0][2]} (calls {bad[0][3]}): assigning one member clobbers bytes that belong to the others") if bad else "", fi.loc())


def run(repo: Repo, rep: Report, tier: str) -> None:
    member_seek_rule(repo, rep, "C11.R1")
    rebuild_rule(repo, rep, "C11.R2")
    update_proxify_rule(repo, rep, "C11.R3")
    proxy_key_rule(repo, rep, "C11.R4")
    size_rule(repo, rep, "C11.R5")
    calculator_rule(repo, rep, "C11.R6")
    from .compiled import fallback_rule

    fallback_rule(repo, rep, proxy_fold_rule(repo, rep, "C11.R19"), "the proxy fold (R19)", proxy_cover_rule, "C11.R7")
    rid = "C11.R8"
    rep.rule(rid, "union operations are history-free: nothing reachable from reading, dumping or rebuilding a union stores state on the union type "
                  "(a memo of the write order would survive add_field)")
    from ..callgraph import CallGraph
    from .c08 import residue_rule

    cg = CallGraph(repo)
    roots = [f.key for f in repo.all_functions() if f.cls is not None and f.cls.name in ("UnionMetaType", "Union", "UnionProxy")
             and f.name in ("_read", "_read_fields", "_write", "_rebuild", "_update", "_proxify", "__setattr__", "__call__")]
    residue_rule(repo, rep, rid, cg, cg.closure(roots), roots)
    from .c04 import layout_fold_rule

    layout_fold_rule(repo, rep, "C11.R9", 3 if tier == "thorough" else 2, part="union")
    union_encode_rule(repo, rep, "C11.R10")
    union_call_rule(repo, rep, "C11.R11")
    union_write_fold_rule(repo, rep, "C11.R12")
    proxy_liveness_rule(repo, rep, "C11.R13")
    from .memo import memo_rule

    memo_rule(repo, rep, "C11.R16")
    from .c02 import default_substitution_rule
    from .c08 import call_shortcut_rule

    default_substitution_rule(repo, rep, "C11.R17")
    call_shortcut_rule(repo, rep, "C11.R18")
    rebuild_fold_rule(repo, rep, "C11.R20")
    from .share import share_rules

    share_rules(repo, rep, tier, "c04", {"C04.R2": "C11.R21"}, "a union's size is its largest member rounded up to its alignment in aligned mode - in whichever way the union class is created")
    from .c18 import accessor_fold_rule, late_binding_rule

    # members of an anonymous structure inside a union are assigned through the accessor properties of the union class
    accessor_fold_rule(repo, rep, "C11.R22")
    late_binding_rule(repo, rep, "C11.R23")
    from .c13 import parser_fold_rule

    # a union written inline or through a typedef gets the alignment mode of the definition as a top-level one does (its size is rounded up)
    parser_fold_rule(repo, rep, "C11.R24")
    from .c04 import struct_rw_fold_rule

    # a structure-typed member is encoded by the structure writer into the union's buffer: every byte of its extent is written (gaps as zeros)
    struct_rw_fold_rule(repo, rep, "C11.R25", 3 if tier == "thorough" else 2)
    union_life_rule(repo, rep, "C11.R26")
