"""C06 - bit-fields partition their storage unit exactly, in endian-defined order."""

from __future__ import annotations

import ast

from .. import templates as T
from ..boolalg import Formula, equivalent
from ..cfg import CFG
from ..model import FuncInfo, Repo
from ..report import Report
from ..util import AnalysisError, always_raises, call_name, chain, const_value, is_const, names_loaded, norm, short, walk_body
from .compiled import shape_of
from .c02 import flush_rule, node_calls, writer_flush_analysis, writer_interp


def _unit_interp(e: ast.AST):
    """EXHAUSTED: <remaining counter> == 0 ; TYPECHANGED: <tracked type> != <current storage type>."""
    if isinstance(e, ast.Compare) and len(e.ops) == 1:
        l, r, op = e.left, e.comparators[0], e.ops[0]
        lt, rt = norm(l), norm(r)
        if isinstance(op, (ast.Eq, ast.NotEq)) and ((is_const(r) and const_value(r) == 0 and "remaining" in lt) or (is_const(l) and const_value(l) == 0 and "remaining" in rt)):
            return "EXHAUSTED" if isinstance(op, ast.Eq) else ("not", "EXHAUSTED")
        if isinstance(op, (ast.Eq, ast.NotEq)) and "type" in lt.lower() and "type" in rt.lower() and not is_const(l) and not is_const(r):
            return "TYPECHANGED" if isinstance(op, ast.NotEq) else ("not", "TYPECHANGED")
    if isinstance(e, ast.UnaryOp) and isinstance(e.op, ast.Not) and isinstance(e.operand, (ast.Name, ast.Attribute)) and "remaining" in norm(e.operand):
        return "EXHAUSTED"
    return None


def unit_switch_rule(repo: Repo, rep: Report, rid: str) -> None:
    rep.rule(rid, "the 'open a new storage unit?' decision agrees across layout calculator, BitBuffer.read, BitBuffer.write and the source "
                  "generator: each is true whenever (unit exhausted or storage type changed); the two BitBuffer guards equal it; the writer "
                  "flushes an exhausted unit and a unit of another type")
    sites = [
        ("types/structure.py", "StructureMetaType._calculate_size_and_offsets", False),
        ("bitbuffer.py", "BitBuffer.read", True),
        ("bitbuffer.py", "BitBuffer.write", True),
        ("compiler.py", "_ReadSourceGenerator._generate_fields", False),
    ]
    ref = Formula(ast.parse("EXH or TC", mode="eval").body, lambda e: {"EXH": "EXHAUSTED", "TC": "TYPECHANGED"}.get(norm(e)))
    found = 0
    from .compiled import fold_decides

    for rel, qn, exact in sites:
        if rel == "compiler.py" and fold_decides(repo, rep.tier):
            # the generator's bookkeeping is visible in what the generated readers do on every run of bit-fields: the compiled-reader fold decides
            found += 1
            rep.ok(rid, "compiler.py:shape:unit-switch", "the compiled-reader fold decides where the generator opens a new unit", "", nontrivial=False)
            continue
        fi = repo.func(rel, qn)
        g = CFG(fi.node)
        cands = []
        for n in g.nodes:
            if n.kind == "if":
                f = Formula(n.ast.test, _unit_interp)
                if "EXHAUSTED" in f.atoms or "TYPECHANGED" in f.atoms:
                    cands.append((n, f))
        both = [(n, f) for n, f in cands if "EXHAUSTED" in f.atoms and "TYPECHANGED" in f.atoms]
        key = f"{fi.key}:unit-switch"
        found += 1
        if not both:
            txt = [short(n.ast.test, 60) for n, _ in cands]
            rep.fail(rid, key, f"no guard decides on both 'unit exhausted' and 'storage type changed' (candidates: {txt}): consecutive bit-fields "
                               f"would share or split units differently from the other implementations", fi.loc())
            continue
        n, f = both[0]
        ok = f.always({"EXHAUSTED": True}, True) and f.always({"TYPECHANGED": True}, True)
        opened = n.ast.body
        if not ok and n.ast.orelse and f.always({"EXHAUSTED": True}, False) and f.always({"TYPECHANGED": True}, False):
            # the negated form: 'if <still inside the unit>: ... else: <open a new unit>'
            ok, opened = True, n.ast.orelse
            if exact:
                ok = equivalent(Formula(ast.UnaryOp(op=ast.Not(), operand=n.ast.test), _unit_interp), ref)
        elif ok and exact:
            ok = equivalent(f, ref)
        rep.check(ok, rid, key, f"'{short(n.ast.test, 80)}' {'==' if exact else '>='} (exhausted or typechanged)",
                  f"unit-switch guard '{short(n.ast.test, 90)}' is not {'equivalent to' if exact else 'implied by'} (exhausted or type changed)", fi.loc(n.ast))
        # the remembered type is refreshed whenever a unit is opened: a guard that compares with a type it never re-assigns goes stale after the
        # first switch of storage type inside a run of bit-fields and then fires for every following field
        tc = [c_ for c_ in ast.walk(n.ast.test) if isinstance(c_, ast.Compare) and len(c_.ops) == 1 and isinstance(c_.ops[0], (ast.NotEq, ast.Eq)) and _unit_interp(c_) in ("TYPECHANGED", ("not", "TYPECHANGED"))]
        if tc:
            sides = {norm(tc[0].left), norm(tc[0].comparators[0])}
            refreshed = any(isinstance(s2, ast.Assign) and norm(s2.targets[0]) in sides and norm(s2.value) in sides for b_ in opened for s2 in ast.walk(b_))
            rep.check(refreshed, rid, f"{fi.key}:tracked-type-updated", "opening a unit records its storage type",
                      f"'{short(tc[0], 50)}' compares with a remembered type that the guard's body never refreshes: after the first change of storage type "
                      "inside a run of bit-fields every following bit-field looks like another change (uint16 x:4; uint8 a:2; uint8 b:2; counts a third unit), "
                      "so the statically tracked offset runs ahead and a needed seek is left out", fi.loc(n.ast))
        # the type remembered for the open unit is the very value the next field is compared with
        for cmpx in ast.walk(n.ast.test):
            if isinstance(cmpx, ast.Compare) and len(cmpx.ops) == 1 and isinstance(cmpx.ops[0], ast.NotEq) and _unit_interp(cmpx) == "TYPECHANGED":
                sides = [cmpx.left, cmpx.comparators[0]]
                for t_side, o_side in (sides, sides[::-1]):
                    stores = [s2 for s2 in opened for s2 in ast.walk(s2) if isinstance(s2, ast.Assign) and norm(s2.targets[0]) == norm(t_side)]
                    if stores:
                        rep.check(all(norm(s2.value) == norm(o_side) for s2 in stores), rid, f"{fi.key}:tracked-type",
                                  f"'{norm(t_side)}' remembers '{norm(o_side)}', the value it is compared with",
                                  f"the open unit's type is remembered as '{norm(stores[0].value)}' but the next field is compared as '{norm(o_side)}': "
                                  f"when these differ (an Enum/Flag bit-field opening a unit) the following bit-fields of the same storage type are "
                                  f"placed in a new unit here while the other implementations keep packing them into the first", fi.loc(stores[0]))
    rep.floor(rid, "unit-switch guards", found, 4)
    # writer half 1: BitBuffer.write flushes when the counter reaches 0 after the decrement
    fi = repo.func("bitbuffer.py", "BitBuffer.write")
    g = CFG(fi.node)
    dec = [n for n in g.nodes if n.kind == "stmt" and isinstance(n.ast, ast.AugAssign) and isinstance(n.ast.op, ast.Sub) and "remaining" in norm(n.ast.target)]
    fl = [n for n in g.nodes if n.kind == "if" and Formula(n.ast.test, _unit_interp).atoms == ["EXHAUSTED"] and
          Formula(n.ast.test, _unit_interp).always({"EXHAUSTED": True}, True) and
          any(isinstance(c, ast.Call) and call_name(c) == "flush" for s in n.ast.body for c in ast.walk(s))]
    ok = len(dec) == 1 and any(g.postdominates(x.id, dec[0].id) for x in fl)
    rep.check(ok, rid, f"{fi.key}:flush-when-full", "after the decrement an exhausted unit is flushed",
              "BitBuffer.write does not flush the unit when its remaining-bit counter reaches 0", fi.loc())
    # writer half 2: the structure writer's flush guard is true whenever pending and typechanged
    wfi, wg, loop, in_loop, bb, guards = writer_flush_analysis(repo)
    if len(guards) == 1:
        f = Formula(guards[0].ast.test, writer_interp(bb))
        rep.check(f.always({"PENDING": True, "TYPECHANGED": True}, True), rid, f"{wfi.key}:flush-guard:typechange",
                  "guard true whenever a pending unit has another storage type than the current bit-field",
                  f"flush guard '{short(guards[0].ast.test, 90)}' can be false when a unit of another storage type is pending", wfi.loc(guards[0].ast))
    else:
        rep.fail(rid, f"{wfi.key}:flush-guard:typechange", f"expected one flush guard in the field loop, found {len(guards)}", wfi.loc())




def _read_fold(repo: Repo):
    from .. import bbfold

    cache = repo.__dict__.setdefault("_bb_folds", {})
    if "r" not in cache:
        cache["r"] = bbfold.fold_reads(repo)
    return cache["r"]


def _write_fold(repo: Repo):
    from .. import bbfold

    cache = repo.__dict__.setdefault("_bb_folds", {})
    if "w" not in cache:
        cache["w"] = bbfold.fold_writes(repo)
    return cache["w"]


def straddle_rule(repo: Repo, rep: Report, rid: str) -> None:
    rep.rule(rid, "a bit-field that would straddle its unit is rejected: at definition time (calculator, path rule) and at read time (BitBuffer.read "
                  "folded: asking for more bits than the unit has left raises)")
    fi = repo.func("types/structure.py", "StructureMetaType._calculate_size_and_offsets")
    g = CFG(fi.node)
    dec = [n for n in g.nodes if n.kind == "stmt" and (
        (isinstance(n.ast, ast.AugAssign) and isinstance(n.ast.op, ast.Sub) and norm(n.ast.target) == "bits_remaining" and norm(n.ast.value) == "field.bits")
        or (isinstance(n.ast, ast.Assign) and norm(n.ast.targets[0]) == "bits_remaining" and norm(n.ast.value) == "bits_remaining - field.bits"))]
    chk = [n for n in g.nodes if n.kind == "if" and always_raises(n.ast.body) and isinstance(n.ast.test, ast.Compare)
           and norm(n.ast.test.left) == "bits_remaining" and isinstance(n.ast.test.ops[0], ast.Lt) and is_const(n.ast.test.comparators[0])
           and const_value(n.ast.test.comparators[0]) == 0]
    # the branch taken by bit-fields: 'if field.bits:' (true edge) or the guard-clause form 'if not field.bits: ...; continue' (false edge)
    bitarm = [(n, "T") for n in g.nodes if n.kind == "if" and norm(n.ast.test) == "field.bits"] + \
             [(n, "F") for n in g.nodes if n.kind == "if" and norm(n.ast.test) == "not field.bits"]
    ok = len(dec) == 1 and len(chk) >= 1 and len(bitarm) >= 1
    if ok:
        ok = g.postdominates(chk[0].id, dec[0].id) or g.must_pass(dec[0].id, g.exit.id, {chk[0].id})
        # every path through the bit-field branch passes the decrement
        arm, edge = bitarm[0]
        loops = [n for n in g.nodes if n.kind == "for"]
        ok = ok and loops and loops[0].id not in g.reachable(arm.id, first_edge=edge, avoid={dec[0].id})
    rep.check(bool(ok), rid, f"{fi.key}:straddle", "every bit-field decrements bits_remaining and a negative result raises",
              "the straddle check (bits_remaining -= field.bits; if bits_remaining < 0: raise) is not on every path of the bit-field branch", fi.loc())
    rd = repo.func("bitbuffer.py", "BitBuffer.read")
    rfold = _read_fold(repo)
    if rfold is not None:
        bad = rfold["straddle_bad"]
        rep.check(not bad, rid, f"{rd.key}:straddle", "a read of more bits than the unit has left raises (folded for every width sequence that leaves a remainder)",
                  f"BitBuffer.read can extract more bits than remain in the unit: (endian, size, widths read, bits asked, result) = {bad[0] if bad else ''}", rd.loc())
        return
    g = CFG(rd.node)
    bits = rd.node.args.args[2].arg
    guards = {n.id for n in g.nodes if n.kind == "if" and always_raises(n.ast.body) and isinstance(n.ast.test, ast.Compare)
              and ((norm(n.ast.test.left) == bits and isinstance(n.ast.test.ops[0], ast.Gt) and "remaining" in norm(n.ast.test.comparators[0]))
                   or ("remaining" in norm(n.ast.test.left) and isinstance(n.ast.test.ops[0], ast.Lt) and norm(n.ast.test.comparators[0]) == bits))}
    extracts = [n for n in g.nodes if n.kind == "stmt" and isinstance(n.ast, ast.Assign) and isinstance(n.ast.value, ast.BinOp)
                and isinstance(n.ast.value.op, ast.BitAnd) and "_buffer" in norm(n.ast.value)]
    rep.check(bool(guards) and bool(extracts) and all(g.must_pass(g.entry.id, e.id, guards) for e in extracts), rid, f"{rd.key}:straddle",
              "bits > remaining raises before any extraction", "BitBuffer.read can extract more bits than remain in the unit", rd.loc())


@shape_of("struct_rw", "layout", "compiled")
def enum_unwrap_rule(repo: Repo, rep: Report, rid: str) -> None:
    rep.rule(rid, "every walker replaces an Enum/Flag bit-field type by its underlying type before using it as storage type")
    sites = [
        ("types/structure.py", "StructureMetaType._calculate_size_and_offsets"),
        ("types/structure.py", "StructureMetaType._read"),
        ("types/structure.py", "StructureMetaType._write"),
        ("compiler.py", "_ReadSourceGenerator._generate_fields"),
        ("compiler.py", "_ReadSourceGenerator._generate_bits"),
    ]
    n = 0
    for rel, qn in sites:
        fi = repo.func(rel, qn)
        tests = []
        for x in walk_body(fi.node.body):
            if isinstance(x, (ast.If, ast.IfExp)):
                t = x.test
                for c in ast.walk(t):
                    if isinstance(c, ast.Call) and call_name(c) in ("isinstance", "issubclass") and len(c.args) == 2 and \
                            any(k in norm(c.args[1]) for k in ("EnumMetaType", "Enum", "Flag")):
                        tests.append(x)
        ok = False
        for x in tests:
            body = x.body if isinstance(x, ast.If) else [x.body]
            txt = " ".join(norm(b) for b in (body if isinstance(body, list) else [body]))
            if ".type" in txt:
                ok = True
        n += 1
        rep.check(ok, rid, f"{fi.key}:enum-unwrap", "Enum/Flag test followed by '.type' unwrap",
                  f"{qn} does not unwrap Enum/Flag bit-field types to their underlying storage type", fi.loc())
    # the writer hands .value of the enum member to the bit buffer, the reader wraps the bits with the enum type
    wr = repo.func("types/structure.py", "StructureMetaType._write")
    w_ok = any(isinstance(c, ast.Call) and call_name(c) == "write" and len(c.args) == 3 and norm(c.args[0]).endswith(".type") and norm(c.args[1]).endswith(".value")
               for c in walk_body(wr.node.body))
    n += 1
    rep.check(w_ok, rid, f"{wr.key}:enum-value", "enum bit-fields are written as (underlying type, member.value)",
              "the writer does not pass (field_type.type, value.value) for Enum/Flag bit-fields", wr.loc())
    rd = repo.func("types/structure.py", "StructureMetaType._read")
    r_ok = any(isinstance(c, ast.Call) and norm(c.func) == "field.type" and c.args and isinstance(c.args[0], ast.Call) and call_name(c.args[0]) == "read"
               and norm(c.args[0].args[0]).endswith(".type.type") for c in walk_body(rd.node.body))
    n += 1
    rep.check(r_ok, rid, f"{rd.key}:enum-wrap", "bits read through the underlying type are wrapped with the enum type",
              "the reader does not wrap bits read via field.type.type with field.type(...)", rd.loc())
    rep.floor(rid, "enum unwrap sites", n, 6)


def _mentions_signedness(repo: Repo, e: ast.AST, depth: int = 0) -> bool:
    for x in ast.walk(e):
        if isinstance(x, ast.Attribute) and x.attr in ("signed",):
            return True
        if isinstance(x, ast.Constant) and x.value == "signed":
            return True
        if isinstance(x, ast.Call) and depth < 2:
            nm = call_name(x)
            if nm and "signed" in nm.lower():
                return True
            for mod in repo.modules.values():
                f = mod.functions.get(nm or "")
                if f is not None and f.kind == "function" and any(_mentions_signedness(repo, s, depth + 1) for s in f.node.body):
                    return True
    return False


def signed_unit_rule(repo: Repo, rep: Report, rid: str) -> None:
    rep.rule(rid, "BitBuffer.write / flush folded over bit orders, unit sizes, signedness styles, width sequences and patterns: the unit handed to the "
                  "storage type's range-checked _write lies in that type's range (signed units are re-interpreted), and a field value that does not fit "
                  "is refused (structural fallback: the written value consults the type's signedness)")
    fi = repo.func("bitbuffer.py", "BitBuffer.flush")
    fold = _write_fold(repo)
    if fold is not None:
        bad = fold["range_bad"]
        rep.info["bitbuffer_write_fold_cases"] = fold["cases"]
        ov = fold.get("overflow_bad", [])
        rep.check(not ov, rid, f"{fi.key}:unit-overflow", "a field value that does not fit its field (too wide, or negative) is refused, in every position of the unit",
                  "a bit-field value that does not fit its field is written all the same - it spills into the neighbouring field, or is wrapped back into the "
                  f"storage type's range - and reads back as other numbers: (endian, size, signed, style, field values, unit handed on) = {ov[0] if ov else ''}", fi.loc())
        rep.check(not bad, rid, f"{fi.key}:unit-write",
                  f"write/flush folded over {fold['cases']} (bit order, unit size, signedness style, width sequence, pattern) cases: the value handed to the "
                  "storage type's _write always lies in that type's range",
                  "BitBuffer.flush hands the unsigned accumulated pattern to the storage type's range-checked _write without consulting its signedness: "
                  f"a signed storage unit with its top bit set cannot be dumped (e.g. int8 a:4; int8 b:4; on b'\\xff'); first case "
                  f"(endian, size, signed, style, widths, pattern, value) = {bad[0] if bad else ''}", fi.loc())
        return
    g = CFG(fi.node)
    writes = [(n, c) for n in g.nodes for c in node_calls(n, "_write")]
    raw = [(n, c) for n in g.nodes for c in node_calls(n, "to_bytes")]
    if not writes and raw:
        rep.ok(rid, f"{fi.key}:unit-write", "unit emitted as raw bytes (no signed range check involved)", fi.loc())
        return
    if not writes:
        raise AnalysisError("BitBuffer.flush: no _write call found")
    for n, c in writes:
        val = c.args[1] if len(c.args) > 1 else None
        key = f"{fi.key}:unit-write"
        if val is None:
            rep.fail(rid, key, "flush does not pass a value", fi.loc(c))
            continue
        ok = False
        why = f"'{norm(val)}' is the unsigned accumulated pattern"
        if _mentions_signedness(repo, val):
            ok, why = True, f"written value '{short(val, 50)}' consults signedness"
        elif isinstance(val, ast.Name):
            # a local adjusted under a guard that consults signedness
            for m in g.nodes:
                if m.kind == "if" and _mentions_signedness(repo, m.ast.test):
                    if any(isinstance(s, (ast.AugAssign, ast.Assign)) and norm(s.target if isinstance(s, ast.AugAssign) else s.targets[0]) == val.id
                           for s in m.ast.body) and g.must_pass(g.entry.id, n.id, {m.id}):
                        ok, why = True, f"'{val.id}' is re-interpreted under '{short(m.ast.test, 70)}' before it is written"
            # or assigned from an expression consulting signedness
            for s in walk_body(fi.node.body):
                if isinstance(s, ast.Assign) and norm(s.targets[0]) == val.id and _mentions_signedness(repo, s.value):
                    ok, why = True, f"'{val.id}' is computed by an expression consulting signedness"
        rep.check(ok, rid, key, why, f"BitBuffer.flush hands {why} to the storage type's range-checked _write without consulting its signedness: "
                  f"a signed storage unit with its top bit set cannot be dumped (e.g. int8 a:4; int8 b:4; on b'\\xff')", fi.loc(c))


def mask_rule(repo: Repo, rep: Report, rid: str) -> None:
    rep.rule(rid, "BitBuffer.read / write folded against the C bit order: every field comes out as its own bits (within [0, 2^bits)), each read "
                  "consumes exactly its width, the unit written is the C-order packing of the fields in the storage type's encoding (structural fallback: "
                  "mask by the field width on both endian arms, insertion shifted by the position in the unit)")
    fi = repo.func("bitbuffer.py", "BitBuffer.read")
    bits = fi.node.args.args[2].arg
    rfold, wfold = _read_fold(repo), _write_fold(repo)
    if rfold is not None and wfold is not None:
        rep.info["bitbuffer_read_fold_cases"] = rfold["cases"]
        n = 0
        for label, e in (("little", "<"), ("big", ">")):
            bad = [x for x in rfold["bad"] if x[0] == e]
            n += 1
            rep.check(not bad, rid, f"{fi.key}:mask:{label}", f"read folded over the {label}-endian cases: every field comes out as its C-order bits, within [0, 2^bits)",
                      f"{label}-endian arm does not extract the field's own bits: (endian, size, widths, unit, k-th read, got, want) = {bad[0] if bad else ''}: "
                      "a parsed value could fall outside [0, 2^bits) or take bits of a neighbour", fi.loc())
            bad = [x for x in rfold["consume_bad"] if x[0] == e]
            rep.check(not bad, rid, f"{fi.key}:consume:{label}", "each read consumes exactly 'bits' bits of the unit",
                      f"{label}-endian arm does not consume exactly '{bits}' bits: (endian, size, widths, k, remaining, expected) = {bad[0] if bad else ''}", fi.loc())
        rep.floor(rid, "endian arms", n, 2)
        wr = repo.func("bitbuffer.py", "BitBuffer.write")
        bad = wfold["bad"]
        rep.check(not bad, rid, f"{wr.key}:insert", f"write/flush folded over {wfold['cases']} cases: the unit written is the C-order packing of the fields",
                  f"the unit BitBuffer.write/flush emit is not the C-order packing of the fields in the storage type's encoding: (endian, size, signed, style, widths, pattern, got, want) = {bad[0] if bad else ''}", wr.loc())
        bad = wfold["state_bad"]
        rep.check(not bad, rid, f"{wr.key}:positions", "after the unit is written the buffer is empty again",
                  f"after a unit is written the buffer keeps state {bad[0] if bad else ''}: the next unit would be or-ed over stale bits", wr.loc())
        _endian_tests(repo, rep, rid)
        return
    rets = [s for s in walk_body(fi.node.body) if isinstance(s, ast.Return)]
    if len(rets) != 1 or not isinstance(rets[0].value, ast.Name):
        raise AnalysisError("BitBuffer.read: single 'return <name>' expected")
    v = rets[0].value.id
    g = CFG(fi.node)
    arms = [n for n in g.nodes if n.kind == "if" and "endian" in norm(n.ast.test)]
    arm = next((a for a in arms if any(isinstance(s, ast.Assign) and norm(s.targets[0]) == v for s in a.ast.body)), None)
    if arm is None:
        raise AnalysisError("BitBuffer.read: endian arms assigning the result not found")
    n = 0
    for label, body in (("little", arm.ast.body), ("big", arm.ast.orelse)):
        first = next((s for s in body if isinstance(s, ast.Assign) and norm(s.targets[0]) == v), None)
        n += 1
        ok = first is not None and isinstance(first.value, ast.BinOp) and isinstance(first.value.op, ast.BitAnd) and \
            any(bits in names_loaded(side) and any(isinstance(x, ast.BinOp) and isinstance(x.op, ast.LShift) for x in ast.walk(side))
                for side in (first.value.left, first.value.right))
        rep.check(ok, rid, f"{fi.key}:mask:{label}", f"{short(first, 80)}", f"{label}-endian arm does not mask the extracted value with a width-{bits} mask "
                  f"({short(first, 60)}): a parsed value could fall outside [0, 2^bits)", fi.loc(first) if first else fi.loc())
        # remaining counter decremented by bits in this arm
        dec = [s for s in body if isinstance(s, ast.AugAssign) and isinstance(s.op, ast.Sub) and "remaining" in norm(s.target) and norm(s.value) == bits]
        rep.check(len(dec) == 1, rid, f"{fi.key}:consume:{label}", "remaining -= bits", f"{label}-endian arm does not consume exactly '{bits}' bits", fi.loc())
    rep.floor(rid, "endian arms", n, 2)
    _endian_tests(repo, rep, rid)
    _mask_rule_writer_structural(repo, rep, rid)


def _endian_tests(repo: Repo, rep: Report, rid: str) -> None:
    # endian test form agreement inside BitBuffer (all comparisons are against "<")
    for qn in ("BitBuffer.read", "BitBuffer.write"):
        f = repo.func("bitbuffer.py", qn)
        for c in walk_body(f.node.body):
            if isinstance(c, ast.Compare) and "endian" in norm(c.left):
                rep.check(isinstance(c.ops[0], (ast.Eq, ast.NotEq)) and is_const(c.comparators[0]) and const_value(c.comparators[0]) == "<", rid,
                          f"{f.key}:{short(c, 40)}", "little-endian iff endian == '<'", f"'{short(c, 40)}': bit order must switch on exactly '<'", f.loc(c))


def _mask_rule_writer_structural(repo: Repo, rep: Report, rid: str) -> None:
    # writer: insertion position mirrors extraction
    wr = repo.func("bitbuffer.py", "BitBuffer.write")
    ors = [s for s in walk_body(wr.node.body) if isinstance(s, ast.AugAssign) and isinstance(s.op, ast.BitOr) and norm(s.target) == "self._buffer"]
    rep.check(len(ors) == 2 and all(isinstance(s.value, ast.BinOp) and isinstance(s.value.op, ast.LShift) and norm(s.value.left) == wr.node.args.args[2].arg for s in ors),
              rid, f"{wr.key}:insert", "data << position on both arms", "BitBuffer.write no longer inserts 'data << position' on both endian arms", wr.loc())
    if len(ors) == 2:
        shifts = sorted(norm(s.value.right) for s in ors)
        rep.check(any("_remaining - bits" in s.replace("self.", "") for s in shifts) and any("size * 8 - " in s for s in shifts), rid, f"{wr.key}:positions",
                  f"shift amounts {shifts}", f"insertion shift amounts {shifts} do not mirror the reader (LSB-first: size*8 - remaining; MSB-first: remaining - bits)", wr.loc())


def run(repo: Repo, rep: Report, tier: str) -> None:
    from .compiled import compiled_fold_rule, shape_rule

    compiled_fold_rule(repo, rep, "C06.R11", tier)
    unit_switch_rule(repo, rep, "C06.R1")
    straddle_rule(repo, rep, "C06.R2")
    flush_rule(repo, rep, "C06.R3")
    enum_unwrap_rule(repo, rep, "C06.R4")
    signed_unit_rule(repo, rep, "C06.R5")
    mask_rule(repo, rep, "C06.R6")
    from .c05 import call_time_rule

    call_time_rule(repo, rep, "C06.R7")
    from .c04 import layout_fold_rule

    layout_fold_rule(repo, rep, "C06.R8", 3 if tier == "thorough" else 2, part="struct")
    from .c04 import struct_rw_fold_rule

    struct_rw_fold_rule(repo, rep, "C06.R9", 3 if tier == "thorough" else 2)
    from .c08 import generated_globals_rule

    shape_rule(repo, rep, tier, generated_globals_rule, "C06.R10")
    from .memo import memo_rule

    memo_rule(repo, rep, "C06.R12")
    from .c02 import default_substitution_rule

    # a bit-field whose value is 0 is written as 0: only a missing value (None) is replaced by the type's default
    default_substitution_rule(repo, rep, "C06.R13")
