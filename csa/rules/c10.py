"""C10 - expressions evaluate with C precedence and associativity, repeatably."""

from __future__ import annotations

import ast
import re

from ..callgraph import CallGraph
from ..cfg import CFG
from ..model import Repo
from ..report import Report
from ..tables import class_attr, dict_items
from ..util import AnalysisError, call_name, chain, const_value, is_const, norm, short, walk_body
from .c08 import residue_rule

C_GROUPS = [  # highest precedence first (C operator precedence restricted to the supported operators)
    {"UNARY"},
    {"*", "/", "%"},
    {"+", "-"},
    {"<<", ">>"},
    {"&"},
    {"^"},
    {"|"},
]
BIN_OPS = {"|": ast.BitOr, "^": ast.BitXor, "&": ast.BitAnd, "<<": ast.LShift, ">>": ast.RShift, "+": ast.Add, "-": ast.Sub,
           "*": ast.Mult, "/": ast.FloorDiv, "%": ast.Mod}
IDENT_RE = re.compile(r"^[A-Za-z_][A-Za-z0-9_]*$")


def tokenizer_operator_sets(repo: Repo) -> tuple[set[str], set[str]]:
    """(single-character operator tokens, multi-character operator tokens) the tokenizer can emit."""
    op = repo.func("expression.py", "ExpressionTokenizer.operator")
    singles: set[str] = set()
    for n in walk_body(op.node.body):
        if isinstance(n, ast.Set):
            singles |= {const_value(e) for e in n.elts if is_const(e)}
        if isinstance(n, ast.Compare) and isinstance(n.ops[0], ast.In) and isinstance(n.comparators[0], (ast.Tuple, ast.List, ast.Constant)):
            v = const_value(n.comparators[0])
            singles |= set(v)
    if not singles:
        raise AnalysisError("ExpressionTokenizer.operator: operator set literal not found")
    tk = repo.func("expression.py", "ExpressionTokenizer.tokenize")
    multi: set[str] = set()
    for n in walk_body(tk.node.body):
        if isinstance(n, ast.Call) and call_name(n) == "append" and n.args and isinstance(n.args[0], ast.Constant) and isinstance(n.args[0].value, str):
            multi.add(n.args[0].value)
    return singles, multi


def lookup_order_shared(repo: Repo, rep: Report, rid: str) -> None:
    """The operand lookup order as a rule of another property: decided by the expression fold where that can interpret the evaluator."""
    from ..exprfold import fold_expression
    from .compiled import fallback_rule

    fold = fold_expression(repo)
    if fold is not None:
        ev = repo.func("expression.py", "Expression.evaluate")
        rep.rule(rid, "operand lookup order, folded: a name is looked up in the supplied context first - also when it is bound to 0 there - and in the constants "
                      "second (the expression fold's lookup cases)")
        bad = [b for b in fold["bad"] if b[1] or b[2]]
        rep.check(not bad, rid, f"{ev.key}:lookup-fold", "context before constants on every lookup case",
                  f"'{bad[0][0] if bad else ''}' with context {bad[0][1] if bad else ''} and constants {bad[0][2] if bad else ''} evaluates to {bad[0][3] if bad else ''}, expected {bad[0][4] if bad else ''}", ev.loc())
        return
    fallback_rule(repo, rep, False, "", lookup_order_rule, rid)


def expression_fold_rule(repo: Repo, rep: Report, rid: str) -> None:
    rep.rule(rid, "expression evaluator folded: Expression(cs, text).evaluate(context) is interpreted on a corpus - every ordered pair of binary operators in "
                  "'a op1 b op2 c' (numbers and names), unary operators in front of and behind every binary operator, parentheses around either half, "
                  "literal spellings and integer suffixes, context-before-constants lookups (a name bound to 0, names starting with '_'), sizeof, 14 "
                  "ill-formed texts - and must give the value of an independent C-precedence evaluator (or refuse where that refuses); one Expression "
                  "object evaluated with a sequence of contexts, failing ones in between, gives for each what a fresh object gives")
    from ..exprfold import fold_expression

    fi = repo.func("expression.py", "Expression.evaluate")
    fold = fold_expression(repo)
    if fold is None:
        rep.ok(rid, f"{fi.key}:fold", "not foldable with the evaluator's whitelist: the structural rules on the tables and the shunting-yard loop decide", fi.loc(), nontrivial=False)
        return
    bad = fold["bad"]
    b = bad[0] if bad else None
    rep.check(not bad, rid, f"{fi.key}:fold", f"{fold['cases']} texts and {fold['sequences']} evaluations in sequence agree with the reference",
              (f"'{b[0]}' with context {b[1]} and constants {b[2]} evaluates to {b[3]}, the reference gives {b[4]} [{len(bad)} discrepancies]") if b else "", fi.loc())


def run(repo: Repo, rep: Report, tier: str) -> None:
    from ..exprfold import fold_expression
    from .compiled import fallback_block

    decided = fold_expression(repo) is not None
    # R5 (effects: no state survives an evaluation) is not about the shape of the tables: it stays armed
    fallback_block(repo, rep, decided, "the expression fold (R16)", _table_rules, tier, skip=("C10.R5",))
    if decided:
        ev = repo.func("expression.py", "Expression.evaluate")
        rep.rule("C10.R5", "no state survives an evaluation: evaluate/evaluate_exp do not write to the Expression object (or reset before use)")
        cg = CallGraph(repo)
        # properties of the class are part of what an evaluation runs (self.tokens computed on first use): the call graph does not see attribute reads as calls
        props = [f.key for f in repo.cls("Expression").methods.values() if any(norm(d).split(".")[-1] in ("property", "cached_property") for d in f.node.decorator_list)]
        residue_rule(repo, rep, "C10.R5", cg, cg.closure([ev.key, *props]), [ev.key, *props])
    _rest(repo, rep, tier)


def _table_rules(repo: Repo, rep: Report, tier: str) -> None:
    R1, R2, R3, R4, R5, R6 = (f"C10.R{i}" for i in range(1, 7))
    rep.rule(R1, "precedence table vs C: order relations between operator groups, equal levels exactly within a group")
    rep.rule(R2, "left associativity: the shunting-yard pop condition is 'top >= current'; unary operators are pushed without popping")
    rep.rule(R3, "operator semantics table: each symbol maps to a lambda applying the same Python operator to (a, b) in that order")
    rep.rule(R4, "tokenizer / evaluator agreement: every operator key is producible, every producible operator has an evaluator arm, "
                 "internal marker symbols are not producible as identifiers")
    rep.rule(R5, "no state survives an evaluation: evaluate/evaluate_exp do not write to the Expression object (or reset before use)")
    rep.rule(R6, "operand lookup order: literal, then the supplied context, then the constants")

    mod = repo.module("expression.py")
    binary = dict((k, v) for k, _, v in dict_items(class_attr(repo, "Expression", "binary_operators")))
    unary = dict((k, v) for k, _, v in dict_items(class_attr(repo, "Expression", "unary_operators")))
    prec_node = class_attr(repo, "Expression", "precedence_levels")
    if isinstance(prec_node, ast.Dict) and all(k is not None for k in prec_node.keys):
        prec_nodes = dict_items(prec_node)
        prec = {k: const_value(v) for k, _, v in prec_nodes}
        ploc = {k: f"{mod.path}:{kn.lineno}" for k, kn, _ in prec_nodes}
    else:
        # a computed table: fold the expression over the (keys of the) operator tables declared before it
        from ..minieval import Evaluator, Refused

        try:
            val = Evaluator({}).ev(prec_node, {"binary_operators": dict.fromkeys(binary), "unary_operators": dict.fromkeys(unary)})
        except Refused as e:
            raise AnalysisError(f"Expression.precedence_levels is computed by an expression outside the evaluator's whitelist: {e}") from e
        if not (isinstance(val, dict) and all(isinstance(v_, int) for v_ in val.values())):
            raise AnalysisError("Expression.precedence_levels does not fold to a symbol -> level mapping")
        prec = dict(val)
        ploc = {k: f"{mod.path}:{prec_node.lineno}" for k in prec}

    # ---- R3 first (it tells which unary key is the minus marker)
    marker = None
    for sym, lam in binary.items():
        key = f"expression.py:Expression.binary_operators[{sym!r}]"
        loc = f"{mod.path}:{lam.lineno}"
        ok = (isinstance(lam, ast.Lambda) and len(lam.args.args) == 2 and isinstance(lam.body, ast.BinOp) and sym in BIN_OPS
              and isinstance(lam.body.op, BIN_OPS[sym]) and isinstance(lam.body.left, ast.Name) and isinstance(lam.body.right, ast.Name)
              and lam.body.left.id == lam.args.args[0].arg and lam.body.right.id == lam.args.args[1].arg)
        rep.check(ok, R3, key, f"{sym} -> {short(lam, 40)}", f"binary operator {sym!r} is implemented as '{short(lam, 60)}' "
                  f"(expected a {BIN_OPS.get(sym, type(None)).__name__} b with the operands in order)", loc)
    missing = set(BIN_OPS) - set(binary)
    rep.check(not missing, R3, "expression.py:Expression.binary_operators:<complete>", "all ten C binary operators present",
              f"binary operators missing from the table: {sorted(missing)}", mod.path)
    for sym, lam in unary.items():
        key = f"expression.py:Expression.unary_operators[{sym!r}]"
        loc = f"{mod.path}:{lam.lineno}"
        if isinstance(lam, ast.Lambda) and len(lam.args.args) == 1 and isinstance(lam.body, ast.UnaryOp) and isinstance(lam.body.operand, ast.Name) \
                and lam.body.operand.id == lam.args.args[0].arg:
            if isinstance(lam.body.op, ast.USub):
                marker = sym
                rep.ok(R3, key, "unary minus", loc)
                continue
            if isinstance(lam.body.op, ast.Invert) and sym == "~":
                rep.ok(R3, key, "bitwise not", loc)
                continue
        rep.fail(R3, key, f"unary operator {sym!r} is implemented as '{short(lam, 50)}'", loc)
    rep.check(marker is not None and "~" in unary, R3, "expression.py:Expression.unary_operators:<complete>", f"unary minus marker is {marker!r}",
              "unary minus or ~ missing from the unary operator table", mod.path)
    rep.floor(R3, "operator table entries", len(binary) + len(unary), 12)

    # ---- R1
    def level_of(sym: str):
        if sym == "UNARY":
            return None
        return prec.get(sym)

    groups = []
    for gset in C_GROUPS:
        if gset == {"UNARY"}:
            members = set(unary) | ({"sizeof"} if "sizeof" in prec else set())
        else:
            members = gset
        groups.append(members)
    for members in groups:
        for s in sorted(members):
            key = f"expression.py:Expression.precedence_levels[{s!r}]"
            if s not in prec:
                rep.fail(R1, key, f"operator {s!r} has no precedence level", mod.path)
                continue
            same = {prec[m] for m in members if m in prec}
            rep.check(len(same) == 1, R1, key, f"level {prec[s]} shared by its C group {sorted(members)}",
                      f"operators {sorted(members)} bind equally tightly in C but have levels { {m: prec.get(m) for m in sorted(members)} }", ploc[s])
    for hi, lo in zip(groups, groups[1:]):
        hv = [prec[m] for m in hi if m in prec]
        lv = [prec[m] for m in lo if m in prec]
        key = f"expression.py:Expression.precedence_levels:{sorted(hi)}>{sorted(lo)}"
        rep.check(bool(hv) and bool(lv) and min(hv) > max(lv), R1, key, "binds tighter",
                  f"in C {sorted(hi)} bind tighter than {sorted(lo)}, table has {hv} vs {lv}", ploc[sorted(lo)[0]] if sorted(lo)[0] in ploc else mod.path)
    extra = set(prec) - set().union(*groups)
    rep.check(not extra, R1, "expression.py:Expression.precedence_levels:<extra>", "no operator outside the C reference",
              f"precedence entries outside the reference: {sorted(extra)}", mod.path)
    rep.floor(R1, "precedence entries", len(prec), 13)

    # ---- R2
    pf = repo.func("expression.py", "Expression.precedence")
    rets = [n for n in walk_body(pf.node.body) if isinstance(n, ast.Return)]
    p1, p2 = pf.params[1], pf.params[2]

    def lvl(e: ast.AST) -> str | None:
        if isinstance(e, ast.Subscript) and isinstance(e.slice, ast.Name) and "precedence_levels" in norm(e.value):
            return e.slice.id
        return None

    def is_ge(e: ast.AST) -> bool:
        neg = False
        while isinstance(e, ast.UnaryOp) and isinstance(e.op, ast.Not):
            e, neg = e.operand, not neg
        if not (isinstance(e, ast.Compare) and len(e.ops) == 1):
            return False
        a, b, op = lvl(e.left), lvl(e.comparators[0]), type(e.ops[0])
        if (a, b) == (p2, p1):
            a, b = b, a
            op = {ast.Lt: ast.Gt, ast.Gt: ast.Lt, ast.LtE: ast.GtE, ast.GtE: ast.LtE}.get(op, op)
        if (a, b) != (p1, p2):
            return False
        if neg:
            op = {ast.Lt: ast.GtE, ast.GtE: ast.Lt, ast.Gt: ast.LtE, ast.LtE: ast.Gt}.get(op, op)
        return op is ast.GtE

    rep.check(len(rets) == 1 and is_ge(rets[0].value), R2, f"{pf.key}:return", f"returns level[{p1}] >= level[{p2}]",
              f"precedence() returns '{short(rets[0].value if rets else None, 70)}': equal levels must pop (>=) for left associativity", pf.loc())
    ev = repo.func("expression.py", "Expression.evaluate")
    g = CFG(ev.node)
    whiles = [n for n in g.nodes if n.kind == "while" and any(isinstance(c, ast.Call) and call_name(c) == "precedence" for c in ast.walk(n.ast.test))]
    okw = False
    detail = "pop loop calling precedence() not found"
    if len(whiles) == 1:
        c = next(c for c in ast.walk(whiles[0].ast.test) if isinstance(c, ast.Call) and call_name(c) == "precedence")
        a0, a1 = (norm(a) for a in c.args[:2])
        okw = a0.endswith("[-1]") and "stack" in a0 and a1 == current_token_expr(ev)
        detail = f"pop while precedence({a0}, {a1})"
        # the test must be a conjunction containing the call positively
        t = whiles[0].ast.test
        positive = isinstance(t, ast.BoolOp) and isinstance(t.op, ast.And) and any(v is c or (isinstance(v, ast.Call) and v is c) for v in t.values) or t is c
        okw = okw and positive
    rep.check(okw, R2, f"{ev.key}:pop-condition", detail, f"{detail}: the stack top must be compared against the incoming operator, in that order, un-negated",
              ev.loc(whiles[0].ast if whiles else None))
    # unary arm pushes without popping
    arms = [n for n in g.nodes if n.kind == "if" and "unary_operators" in norm(n.ast.test) and isinstance(n.ast.test, ast.Compare)]
    oku = bool(arms) and all(len(a.ast.body) == 1 and isinstance(a.ast.body[0], ast.Expr) and call_name(a.ast.body[0].value) == "append"
                             and "stack" in norm(a.ast.body[0].value.func) for a in arms[:1])
    rep.check(oku, R2, f"{ev.key}:unary-arm", "unary operators are pushed without popping", "the unary operator arm no longer just pushes the operator", ev.loc(arms[0].ast if arms else None))

    # ---- R4
    singles, multi = tokenizer_operator_sets(repo)
    producible = singles | {m for m in multi if not IDENT_RE.match(m) and not m[0].isdigit()}
    for sym in binary:
        rep.check(sym in producible, R4, f"expression.py:Expression.binary_operators[{sym!r}]:producible", "tokenizer can emit it",
                  f"binary operator {sym!r} can never be produced by the tokenizer", mod.path)
    for sym in sorted(producible - {"(", ")"}):
        rep.check(sym in binary or sym in unary, R4, f"expression.py:ExpressionTokenizer:{sym!r}:handled", "evaluator has an arm",
                  f"the tokenizer emits operator {sym!r} but the evaluator has no entry for it", mod.path)
    markers = [s for s in list(unary) + list(prec) if s not in producible and s != "sizeof"]
    for s in sorted(set(markers)):
        bad = bool(IDENT_RE.match(s)) or s[:1].isdigit()
        rep.check(not bad, R4, f"expression.py:Expression:marker {s!r}", "internal marker cannot be written by a user",
                  f"internal operator marker {s!r} is a legal identifier: an expression that mentions a field or constant named {s!r} "
                  f"has it treated as an operator", mod.path)
    # the rewrite writes exactly the marker
    rew = [n for f in (repo.func_opt("expression.py", "Expression._mark_unary_minus"), ev) if f is not None for n in walk_body(f.node.body)
           if isinstance(n, ast.Assign) and isinstance(n.targets[0], ast.Subscript) and isinstance(n.value, ast.Constant) and isinstance(n.value.value, str)]
    rep.check(bool(rew) and all(r.value.value == marker for r in rew), R4, "expression.py:Expression:unary-rewrite", f"unary '-' is rewritten to {marker!r}",
              f"the unary-minus rewrite stores {[r.value.value for r in rew]} but the unary table's minus key is {marker!r}", mod.path)
    rep.floor(R4, "operator keys", len(binary) + len(unary), 12)

    # ---- R5
    cg = CallGraph(repo)
    props = [f.key for f in repo.cls("Expression").methods.values() if any(norm(d).split(".")[-1] in ("property", "cached_property") for d in f.node.decorator_list)]
    clo = cg.closure([ev.key, *props])
    residue_rule(repo, rep, R5, cg, clo, [ev.key, *props])
    # rename the generic key so that evidence reads naturally
    lookup_order_rule(repo, rep, R6)


def _rest(repo: Repo, rep: Report, tier: str) -> None:
    unary_marking_rule(repo, rep, "C10.R7", 6 if tier == "thorough" else 4)
    from .c07 import parse_time_count_rule

    from .c13 import token_parser_shape

    token_parser_shape(repo, rep, parse_time_count_rule, "C10.R8")
    from ..exprfold import fold_expression
    from .compiled import fallback_rule

    # the fold evaluates a name bound to True and expects the int 1 back
    fallback_rule(repo, rep, fold_expression(repo) is not None, "the expression fold (R16)", operand_conversion_rule, "C10.R9")
    from .memo import memo_rule

    memo_rule(repo, rep, "C10.R10")
    from .c07 import context_rule

    context_rule(repo, rep, "C10.R11")
    from .c07 import array_size_text_fold_rule

    array_size_text_fold_rule(repo, rep, "C10.R12")
    from .c07 import count_text_rule

    count_text_rule(repo, rep, "C10.R13")
    from .c07 import nesting_rule

    from .c13 import token_parser_shape as _tps

    _tps(repo, rep, nesting_rule, "C10.R14")
    from .c13 import parser_fold_rule

    parser_fold_rule(repo, rep, "C10.R15")
    expression_fold_rule(repo, rep, "C10.R16")
    from .c16 import arithmetic_rule

    # a pointer derived by arithmetic keeps the context it was parsed with: the size expression of its target is evaluated over the same fields
    arithmetic_rule(repo, rep, "C10.R17")
def unary_marking_rule(repo: Repo, rep: Report, rid: str, max_len: int) -> None:
    rep.rule(rid, f"unary-minus marking, bounded-exhaustive: Expression._mark_unary_minus interpreted on every token list up to length {max_len} over "
                  "{-, ~, (, ), number, +, <<} marks a '-' as unary exactly when it starts the list or follows '(' or an operator (a '-' just marked "
                  "unary included: the rewrite is in place)")
    from ..folds import fold_mark_unary_minus

    fi = repo.func_opt("expression.py", "Expression._mark_unary_minus")
    fold = fold_mark_unary_minus(repo, max_len)
    if fold is None:
        rep.ok(rid, "expression.py:Expression._mark_unary_minus:fold", "not foldable with the evaluator's whitelist (or the marking moved): rule R4 decides alone", "",
               nontrivial=False)
        return
    bad = fold["bad"]
    rep.info["unary_marking_token_lists"] = fold["cases"]
    rep.check(not bad, rid, f"{fi.key}:fold", f"{fold['cases']} token lists agree with the specification",
              f"token list {bad[0][0] if bad else ''} is marked {bad[0][1] if bad else ''}, expected {bad[0][2] if bad else ''}: a '-' that should be unary stays "
              "binary (or the reverse), so e.g. '--1' or '3 * --2' no longer evaluates to its C value", fi.loc())


def operand_conversion_rule(repo: Repo, rep: Report, rid: str) -> None:
    rep.rule(rid, "operands are plain integers: every identifier value pushed on the operand queue (from the context or the constants) is converted "
                  "with int() first - the operators then never run on int subclasses such as Flag members, whose ~ is not the integer complement")
    ev = repo.func("expression.py", "Expression.evaluate")
    n = 0
    for c in walk_body(ev.node.body):
        if isinstance(c, ast.Call) and call_name(c) == "append" and c.args and any(
                isinstance(x, ast.Subscript) and any(k in norm(x.value) for k in ("context", "consts", "symbols", "names")) for x in ast.walk(c.args[0])):
            n += 1
            rep.check(isinstance(c.args[0], ast.Call) and norm(c.args[0].func) == "int", rid, f"{ev.key}:push {short(c.args[0], 40)}", "converted with int()",
                      f"'{short(c, 60)}' pushes the looked-up object itself: for a Flag member '~x' is then the flag complement within the known bits "
                      "(~RO == 6 for members 1, 2, 4), not the integer complement -2", ev.loc(c))
    rep.floor(rid, "identifier pushes", n, 2)
    init = repo.func("expression.py", "Expression.__init__")
    stores = [s_ for f_ in repo.cls("Expression").methods.values() for s_ in walk_body(f_.node.body) if isinstance(s_, ast.Assign)
              and isinstance(s_.targets[0], ast.Attribute) and s_.targets[0].attr in ("tokens", "_tokens") and norm(s_.targets[0].value) == f_.self_name]
    in_init = [s_ for s_ in stores if any(s_ is x for x in walk_body(init.node.body))]
    marked = all(isinstance(s_.value, ast.Call) and call_name(s_.value) == "_mark_unary_minus" for s_ in stores)
    rep.check(bool(in_init) and len(stores) == len(in_init) and marked, rid, f"{init.key}:tokens", "the token list is tokenised and marked in __init__, before the object can be shared",
              "the token list is stored on the Expression before its unary-minus marking is complete (or lazily, on first use): a second thread evaluating the "
              "shared Expression in that window works on unmarked tokens ('-2 * 3' raises 'not enough operands')", init.loc())


def current_token_expr(ev) -> str:
    """How Expression.evaluate refers to the token under the cursor (a local name, or the subscript itself after a local was inlined): the argument
    of the is_number() test that opens the per-token dispatch."""
    for c in walk_body(ev.node.body):
        if isinstance(c, ast.Call) and call_name(c) == "is_number" and len(c.args) == 1:
            return norm(c.args[0])
    raise AnalysisError("Expression.evaluate: the is_number(<token>) test of the token dispatch was not found")


def lookup_order_rule(repo: Repo, rep: Report, R6: str) -> None:
    """Identifiers resolve first in the supplied field context, then in the constants (shared by C10.R6 and C07.R8)."""
    rep.rule(R6, "operand lookup order: literal, then the supplied context, then the constants")
    ev = repo.func("expression.py", "Expression.evaluate")
    g = CFG(ev.node)
    chain_nodes = []
    loopw = [n for n in g.nodes if n.kind == "while" and ("< len(" in norm(n.ast.test))]
    if not loopw:
        raise AnalysisError("Expression.evaluate: main token loop not found")
    first_if = next((s for s in loopw[0].ast.body if isinstance(s, ast.If)), None)
    cur = first_if
    while isinstance(cur, ast.If):
        chain_nodes.append(cur)
        cur = cur.orelse[0] if len(cur.orelse) == 1 and isinstance(cur.orelse[0], ast.If) else None
    tests = [norm(c.test) for c in chain_nodes]

    def idx(pred) -> int:
        for i, t in enumerate(tests):
            if pred(t):
                return i
        return -1

    i_num = idx(lambda t: "is_number" in t)
    # a single merged mapping: ChainMap(<context>, <consts>) searches its first mapping first
    merged = [s for s in walk_body(ev.node.body) if isinstance(s, ast.Assign) and isinstance(s.value, ast.Call) and call_name(s.value) == "ChainMap"]
    if merged:
        m = merged[0]
        a = [norm(x) for x in m.value.args]
        ok = len(a) >= 2 and "context" in a[0] and "consts" not in a[0] and "consts" in a[1]
        i_map = idx(lambda t: t.endswith("in " + norm(m.targets[0])))
        rep.check(ok and 0 <= i_num < i_map, R6, f"{ev.key}:operand-chain", f"ChainMap({', '.join(a)}): context first, constants second",
                  f"identifiers are looked up in ChainMap({', '.join(a)}): the first mapping wins, so constants shadow the fields parsed before "
                  f"the expression (x[count] with '#define count 4' ignores the field 'count')", ev.loc(m))
        return
    i_ctx = idx(lambda t: t.endswith("in context"))
    i_const = idx(lambda t: "consts" in t)
    rep.check(0 <= i_num < i_ctx < i_const, R6, f"{ev.key}:operand-chain", f"literal (#{i_num}) -> context (#{i_ctx}) -> consts (#{i_const})",
              f"operand lookup order is literal #{i_num}, context #{i_ctx}, consts #{i_const}: the field context must be consulted before the constants",
              ev.loc(first_if))
    tok = current_token_expr(ev)
    for i, src in ((i_ctx, f"context[{tok}]"), (i_const, f"self.cstruct.consts[{tok}]")):
        if i >= 0:
            body = chain_nodes[i].body
            pushed = [norm(c.args[0]) for s in body for c in ast.walk(s) if isinstance(c, ast.Call) and call_name(c) == "append" and c.args]
            rep.check(any(src in p for p in pushed), R6, f"{ev.key}:arm {tests[i]}", f"pushes {pushed}",
                      f"arm '{tests[i]}' pushes {pushed}, not the value looked up in the same mapping ({src})", ev.loc(chain_nodes[i]))
    ctxdef = [s for s in walk_body(ev.node.body) if isinstance(s, ast.Assign) and norm(s.targets[0]) == "context"]
    rep.check(all(norm(s.value) in ("context or {}", "{} if context is None else context", "context if context is not None else {}") for s in ctxdef), R6,
              f"{ev.key}:context-default", "a missing context is an empty mapping", f"context is rebound to {[norm(s.value) for s in ctxdef]}", ev.loc())
