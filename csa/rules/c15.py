"""C15 - concurrent parsing with shared types is equivalent to sequential parsing.

Decided clause: nothing reachable from a parse or a dump writes to an object that another thread can
reach (a type object, the cstruct instance, an Expression / Field attached to a type, module state).
If that set of writes is empty, threads parsing independent streams share only objects nobody
writes, so *every* interleaving yields the sequential result.
"""

from __future__ import annotations

import ast

from ..callgraph import KIND_PER_CALL, CallGraph, entry_points
from ..effects import ALLOWED, FORBIDDEN, EffectAnalysis, bind_args
from ..model import Repo
from ..report import Report
from ..util import AnalysisError, chain, norm, root_name, short, walk_body
from .. import templates as T


def shared_write_obligations(repo: Repo, rep: Report, rid: str, roots_sets=("PARSE", "DUMP")):
    """Common engine for C15.R1 / C14.R5 / C08.R3. Returns (cg, ea, closure, offending effects)."""
    tfuncs = T.reader_template_functions(repo)
    cg = CallGraph(repo, extra_functions=tfuncs)
    ea = EffectAnalysis(repo, cg)
    ep = entry_points(repo)
    roots = [k for s in roots_sets for k in ep[s]] + [f.key for f in tfuncs]
    clo = cg.closure(roots)
    return cg, ea, ep, roots, clo


MUTATORS_IN_PLACE = ("append", "extend", "insert", "pop", "remove", "clear", "sort", "reverse", "add", "discard", "update", "setdefault", "popitem", "__setitem__")


def param_mutations(fn: ast.FunctionDef, params: list[str]) -> list[tuple[ast.AST, str]]:
    """In-place mutations of a parameter object: mutator method calls, item / slice stores and deletes (re-binding the name is not a mutation)."""
    out = []
    # only an unconditional re-binding at the top of the function makes the name a different object on every path
    rebound = {t.id for st in fn.body if isinstance(st, ast.Assign) for t in st.targets if isinstance(t, ast.Name)}
    for x in ast.walk(fn):
        if isinstance(x, ast.Call) and isinstance(x.func, ast.Attribute) and x.func.attr in MUTATORS_IN_PLACE and isinstance(x.func.value, ast.Name) \
                and x.func.value.id in params and x.func.value.id not in rebound:
            out.append((x, x.func.value.id))
        elif isinstance(x, (ast.Assign, ast.AugAssign, ast.Delete)):
            tg = x.targets if isinstance(x, (ast.Assign, ast.Delete)) else [x.target]
            for t in tg:
                if isinstance(t, ast.Subscript) and isinstance(t.value, ast.Name) and t.value.id in params and t.value.id not in rebound:
                    out.append((x, t.value.id))
    return out


def read_only_value_rule(repo: Repo, rep: Report, rid: str) -> None:
    rep.rule(rid, "dumping is read-only on the value: no _write / _write_array / _write_0 implementation mutates the object it is given in place (values, "
                  "and in particular default values, are shared between instances and threads); descriptors (classes with __get__) keep no state on "
                  "themselves - one descriptor object serves every type and every thread")
    fx = param_mutations(ast.parse("def _write_0(cls, stream, array):\n    array.append(cls.__default__())\n    try:\n        return 1\n    finally:\n        array.pop()\n").body[0], ["array"])
    if len(fx) != 2:
        raise AnalysisError("parameter-mutation matcher no longer recognises its positive fixture")
    n = 0
    for fi in repo.all_functions():
        if fi.name in ("_write", "_write_array", "_write_0") and len(fi.params) >= 3:
            n += 1
            bad = param_mutations(fi.node, fi.params[2:])
            rep.check(not bad, rid, f"{fi.key}:read-only value", "the value is only read",
                      f"{fi.qualname} mutates its argument '{bad[0][1] if bad else ''}' in place ('{short(bad[0][0], 50) if bad else ''}'): the caller's list - possibly "
                      "the default value shared by every instance of the structure type - changes while it is being dumped, so a concurrent dump of another "
                      "instance sees the extra / missing element", fi.loc(bad[0][0]) if bad else fi.loc())
    rep.floor(rid, "write slot implementations", n, 20)
    m = 0
    for ci in repo.classes.values():
        if "__get__" not in ci.methods:
            continue
        m += 1
        for name in ("__get__", "__call__", "__set_name__"):
            f = ci.methods.get(name)
            if f is None or name == "__set_name__":
                continue
            me = f.self_name
            stores = [x for x in walk_body(f.node.body) if isinstance(x, (ast.Assign, ast.AugAssign)) and any(
                isinstance(t, ast.Attribute) and norm(t.value) == me for t in (x.targets if isinstance(x, ast.Assign) else [x.target]))]
            rep.check(not stores, rid, f"{f.key}:stateless descriptor", "binds by returning a new object",
                      f"descriptor {ci.name}.{name} stores on itself ('{short(stores[0], 50) if stores else ''}'): the one descriptor object is shared by all types of all "
                      "cstruct instances, so two threads that look up and call the attribute interleaved get each other's owner / instance", f.loc(stores[0]) if stores else f.loc())
    rep.floor(rid, "descriptor classes", m, 1)


def run(repo: Repo, rep: Report, tier: str) -> None:
    R1, R2 = "C15.R1", "C15.R2"
    rep.rule(R1, "no write to a shared object (type object, cstruct, Expression, Field, module state) from anything reachable "
                 "from a parse or dump entry point; parameter mutations are checked at every call site")
    rep.rule(R2, "object-kind table re-validation: per-call classes are only constructed into locals inside functions; "
                 "Expression objects do flow into array types (so they are shared)")
    cg, ea, ep, roots, clo = shared_write_obligations(repo, rep, R1)
    rep.info["reach_sizes"] = {"PARSE_roots": len(ep["PARSE"]), "DUMP_roots": len(ep["DUMP"]), "closure": len(clo)}
    rep.info["call_sites"] = len(cg.sites)
    rep.info["unresolved_by_type"] = len(cg.unresolved)
    rep.floor(R1, "functions in the PARSE+DUMP closure", len(clo), 90)

    n_eff = 0
    by_class: dict[str, int] = {}
    for k in sorted(clo):
        fi = cg.funcs[k]
        for e in ea.effects(fi):
            n_eff += 1
            by_class[e.root_class] = by_class.get(e.root_class, 0) + 1
            if e.root_class in ALLOWED:
                rep.ok(R1, e.construct, f"root '{e.root}' is {e.root_class}", fi.loc(e.node))
            elif e.root_class == "param":
                rep.ok(R1, e.construct, f"writes through parameter '{e.param}' (checked at call sites)", fi.loc(e.node))
            else:
                path = " -> ".join(x.split(":", 1)[1] for x in cg.path(roots, k)[-4:])
                rep.fail(R1, e.construct,
                         f"{e.what} on '{e.target}': root '{e.root}' is {e.root_class} (shared between threads); reached via {path}",
                         fi.loc(e.node))
    rep.info["stores_by_root_class"] = by_class
    rep.floor(R1, "write effects examined", n_eff, 60)

    # parameter mutations: the actual argument at every call site must itself be allowed
    summ = ea.mutated_params(clo)
    n_sites = 0
    for site in cg.sites:
        if site.caller.key not in clo:
            continue
        binds = cg.local_bindings(site.caller)
        for callee in site.callees:
            mp = summ.get(callee.key) or set()
            if not mp:
                continue
            for pname, arg in bind_args(site.call, callee):
                if pname not in mp:
                    continue
                n_sites += 1
                r = root_name(arg)
                if r is None:
                    c, p = ea.classify_value(site.caller, arg, binds, 0, frozenset())
                else:
                    c, p = ea.classify_root(site.caller, r, binds)
                key = f"{site.caller.key}:call {callee.qualname}({pname}={short(arg, 40)})"
                if c in FORBIDDEN:
                    rep.fail(R1, key, f"argument '{short(arg, 40)}' ({c}) is mutated by {callee.qualname} through parameter '{pname}'",
                             site.caller.loc(site.call))
                else:
                    rep.ok(R1, key, f"argument root is {c}", site.caller.loc(site.call))
    rep.info["param_mutation_call_sites"] = n_sites

    # ---- R2: kind table re-validation
    n = 0
    for cls in KIND_PER_CALL:
        if cls not in repo.classes:
            continue
        for fi in repo.all_functions():
            for node in walk_body(fi.node.body):
                if isinstance(node, (ast.Assign, ast.AnnAssign)) and isinstance(node.value, ast.Call):
                    c = chain(node.value.func)
                    if c and c[-1] == cls:
                        targets = node.targets if isinstance(node, ast.Assign) else [node.target]
                        for t in targets:
                            n += 1
                            key = f"{fi.key}:{short(node, 70)}"
                            if isinstance(t, ast.Name):
                                rep.ok(R2, key, f"{cls} constructed into a local", fi.loc(node))
                            else:
                                binds = cg.local_bindings(fi)
                                rc, _ = ea.classify_root(fi, root_name(t) or "", binds)
                                rep.check(rc in ALLOWED, R2, key, f"{cls} stored on {rc} object",
                                          f"per-call class {cls} is stored on a {rc} object: the kind table no longer holds", fi.loc(node))
        # module / class level construction
        for mod in repo.modules.values():
            for st in mod.tree.body:
                tops = [st] if not isinstance(st, (ast.FunctionDef, ast.ClassDef)) else (
                    [s for s in st.body if not isinstance(s, (ast.FunctionDef, ast.AsyncFunctionDef))] if isinstance(st, ast.ClassDef) else [])
                for t0 in tops:
                    for node in ast.walk(t0):
                        if isinstance(node, ast.Call) and chain(node.func) and chain(node.func)[-1] == cls:
                            rep.fail(R2, f"{mod.rel}:<module>:{short(node, 60)}", f"per-call class {cls} constructed at module/class level",
                                     f"{mod.path}:{node.lineno}")
    # Expression flows into _make_array (that is what makes it shared)
    flows = 0
    for rel in ("parser.py",):
        mod = repo.module(rel)
        # helpers that hand out an Expression object (bound from Expression(...) and returned)
        producers = {"Expression"}
        for fi in mod.functions.values():
            made = {t.id for node in walk_body(fi.node.body) if isinstance(node, ast.Assign) and isinstance(node.value, ast.Call)
                    and chain(node.value.func) and chain(node.value.func)[-1] == "Expression" for t in node.targets if isinstance(t, ast.Name)}
            if any(isinstance(r, ast.Return) and isinstance(r.value, ast.Name) and r.value.id in made for r in walk_body(fi.node.body)):
                producers.add(fi.name)
        for fi in mod.functions.values():
            names = set()
            for node in walk_body(fi.node.body):
                vals = [node.value] if isinstance(node, ast.Assign) else []
                if vals and isinstance(vals[0], ast.IfExp):
                    vals = [vals[0].body, vals[0].orelse]
                if any(isinstance(v, ast.Call) and chain(v.func) and chain(v.func)[-1] in producers for v in vals):
                    names |= {t.id for t in node.targets if isinstance(t, ast.Name)}
            for node in walk_body(fi.node.body):
                if isinstance(node, ast.Call) and chain(node.func) and chain(node.func)[-1] == "_make_array":
                    if any(isinstance(a, ast.Name) and a.id in names for a in node.args):
                        flows += 1
                        rep.ok(R2, f"{fi.key}:{short(node, 60)}", "Expression object stored on an array type: Expression is shared", fi.loc(node))
    rep.floor(R2, "Expression -> _make_array flows", flows, 1)
    rep.floor(R2, "per-call construction sites", n, 3)
    from .c08 import generated_globals_rule

    generated_globals_rule(repo, rep, "C15.R3")
    from .memo import memo_rule

    memo_rule(repo, rep, "C15.R4")
    read_only_value_rule(repo, rep, "C15.R5")
    from .c11 import union_life_rule

    # two union values parsed one after the other (or by two threads) share no member object: the second parse leaves the first value as it was
    union_life_rule(repo, rep, "C15.R6")



