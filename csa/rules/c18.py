"""C18 - incrementally built or self-referential structures equal the one-shot definition."""

from __future__ import annotations

import ast

from ..cfg import CFG
from ..model import Repo
from ..report import Report
from ..util import AnalysisError, call_name, chain, const_value, is_const, norm, short, walk_body
from .c02 import node_calls

LIST_MUTATORS = {"append", "extend", "insert", "pop", "remove", "clear", "sort", "reverse", "__setitem__", "__delitem__"}
EXPECTED_DERIVED = {"fields", "lookup", "__fields__", "size", "alignment", "dynamic", "__init__", "__eq__", "__hash__", "__bool__"}


def commit_rule(repo: Repo, rep: Report, rid: str) -> None:
    rep.rule(rid, "dirty -> commit: every mutation of a __fields__ list outside _update_fields is followed on all normal paths by commit() on the "
                  "same class, or is the add_field path guarded by __updating__ whose only setter commits in a finally block")
    n = 0
    for fi in repo.all_functions():
        if fi.name == "_update_fields":
            continue
        g = None
        for x in walk_body(fi.node.body):
            tgt = None
            if isinstance(x, ast.Call) and isinstance(x.func, ast.Attribute) and x.func.attr in LIST_MUTATORS:
                c = chain(x.func.value)
                if c and c[-1] == "__fields__":
                    tgt = ".".join(c[:-1])
            elif isinstance(x, (ast.Assign, ast.AugAssign)):
                for t in (x.targets if isinstance(x, ast.Assign) else [x.target]):
                    c = chain(t.value if isinstance(t, ast.Subscript) else t)
                    if c and c[-1] == "__fields__" and len(c) > 1:
                        tgt = ".".join(c[:-1])
            if tgt is None:
                continue
            n += 1
            if g is None:
                g = CFG(fi.node)
            node = next(m for m in g.nodes if m.expr() is not None and any(y is x for y in ast.walk(m.expr())) or m.ast is x)
            commits = {m.id for m in g.nodes if m.kind == "stmt" and any(norm(c.func.value) == tgt for c in node_calls(m, "commit"))}
            key = f"{fi.key}:{short(x, 60)}"
            if commits and g.must_pass(node.id, g.exit.id, commits):
                rep.ok(rid, key, f"followed by {tgt}.commit() on every normal path", fi.loc(x))
                continue
            # guarded form:  if not cls.__updating__: cls.commit()
            guarded = [m for m in g.nodes if m.kind == "if" and norm(m.ast.test) == f"not {tgt}.__updating__" and
                       any(isinstance(c, ast.Call) and call_name(c) == "commit" for s in m.ast.body for c in ast.walk(s))]
            # guard-clause form:  if cls.__updating__: return  ...  cls.commit()
            early = [m for m in g.nodes if m.kind == "if" and norm(m.ast.test) == f"{tgt}.__updating__" and m.ast.body and isinstance(m.ast.body[-1], ast.Return)
                     and not m.ast.orelse]
            if guarded and g.must_pass(node.id, g.exit.id, {guarded[0].id}):
                rep.ok(rid, key, f"commit deferred only while {tgt}.__updating__ (set by start_update, which commits in finally)", fi.loc(x))
            elif early and commits and g.must_pass(node.id, g.exit.id, {early[0].id}) and g.exit.id not in g.reachable(early[0].id, first_edge="F", avoid=commits, skip_exc=True):
                rep.ok(rid, key, f"returns early only while {tgt}.__updating__, commits otherwise", fi.loc(x))
            else:
                rep.fail(rid, key, f"{fi.qualname} changes {tgt}.__fields__ and can return without {tgt}.commit(): size, offsets, generated methods and "
                                   f"the compiled reader would describe the old field list", fi.loc(x))
    rep.floor(rid, "mutations of __fields__", n, 2)
    # __updating__ protocol
    setters = []
    for fi in repo.all_functions():
        for s in walk_body(fi.node.body):
            if isinstance(s, ast.Assign) and any(isinstance(t, ast.Attribute) and t.attr == "__updating__" for t in s.targets) and is_const(s.value) and const_value(s.value) is True:
                setters.append(fi)
    rep.check([f.qualname for f in setters] == ["StructureMetaType.start_update"], rid, "types/structure.py:__updating__:setters",
              "only start_update defers commits", f"__updating__ is set by {[f.qualname for f in setters]}", repo.module("types/structure.py").path)
    su = repo.func("types/structure.py", "StructureMetaType.start_update")
    trys = [t for t in walk_body(su.node.body) if isinstance(t, ast.Try)]
    ok = len(trys) == 1 and any(isinstance(c, ast.Call) and call_name(c) == "commit" for s in trys[0].finalbody for c in ast.walk(s)) and \
        any(isinstance(s, ast.Assign) and "__updating__" in norm(s.targets[0]) and is_const(s.value) and const_value(s.value) is False for s in trys[0].finalbody) and \
        any(isinstance(y, ast.Yield) for s in trys[0].body for y in ast.walk(s))
    rep.check(ok, rid, f"{su.key}:finally", "yield inside try; finally commits and clears the flag",
              "start_update no longer commits and clears __updating__ (to the constant False) unconditionally in a finally block: after some history of update "
              "blocks (overlapping blocks on one class, a block left through an exception) the flag stays set and fields added later are never committed", su.loc())
    af = repo.func("types/structure.py", "StructureMetaType.add_field")
    mk = [c for c in walk_body(af.node.body) if isinstance(c, ast.Call) and call_name(c) == "Field"]
    rep.check(len(mk) == 1 and [norm(a) for a in mk[0].args] == af.params[1:3] and {k.arg: norm(k.value) for k in mk[0].keywords} == {"bits": "bits", "offset": "offset"},
              rid, f"{af.key}:field", "Field(name, type_, bits=bits, offset=offset)", "add_field does not pass all its arguments to Field", af.loc())


def update_fields_fold(repo: Repo):
    from ..folds import fold_update_fields

    cache = repo.__dict__.setdefault("_uf_fold", {})
    if "v" not in cache:
        cache["v"] = fold_update_fields(repo)
    return cache["v"]


def fold_commit(repo: Repo):
    """StructureMetaType.commit interpreted on a model class: _update_fields is called once with (cls.__fields__, cls.__align__) and every key of the
    class dict it returns is installed on the class with its value.  None when outside the evaluator's whitelist."""
    from ..folds import module_env
    from ..minieval import Evaluator, Host, Raised, Refused, Sym, UserFunc

    cm = repo.func_opt("types/structure.py", "StructureMetaType.commit")
    if cm is None:
        return None
    out: dict = {"bad": []}
    try:
        for state in ({"__updating__": False, "size": 4}, {"__updating__": True, "size": None}):
            calls: list = []
            installed: dict = {}
            fields, align = [Sym("field:a")], "<the class's align flag>"
            classdict = {"fields": {"a": 1}, "lookup": {"a": 1}, "__fields__": fields, "size": 0, "alignment": None, "dynamic": False, "__init__": "<init>", "_read": "<reader>",
                         "__compiled__": False, "__bool__": "<bool>"}
            cls = Sym("cls", {"__fields__": fields, "__align__": align, **state}, {"_update_fields": Host(lambda *a, **k: (calls.append((a, k)), dict(classdict))[1])})
            env = module_env(repo, "types/structure.py", {"setattr": Host(lambda o, k, v: installed.__setitem__(k, v) if o is cls else None), "dict": dict, "list": list})
            try:
                Evaluator(env, steps=4000).call_user(UserFunc(cm.node, env), [cls], {})
            except Raised as e:
                out["bad"].append(f"commit raised {e}")
                continue
            for k_, v_ in cls.attrs.items():
                if k_ in classdict and k_ not in installed and v_ == classdict[k_] and k_ not in ("__fields__",):
                    installed[k_] = v_  # installed by plain attribute assignment
            if len(calls) != 1 or list(calls[0][0][:2]) != [fields, align] and calls[0][1].get("align") != align:
                out["bad"].append(f"_update_fields called {len(calls)} times with {calls[:1]} (expected once, with cls.__fields__ and cls.__align__)")
            missing = [k_ for k_, v_ in classdict.items() if k_ not in installed or installed[k_] != v_]
            if missing:
                out["bad"].append(f"keys of the class dict not installed on the class: {missing} (class state {state})")
        return out
    except Refused:
        return None
    except (TypeError, KeyError, IndexError, ValueError, AttributeError):
        return None


def _commit_checks(repo: Repo, rep: Report, rid: str) -> None:
    cm = repo.func("types/structure.py", "StructureMetaType.commit")
    fc = fold_commit(repo)
    if fc is not None:
        rep.check(not fc["bad"], rid, f"{cm.key}:install", "folded: recomputed once from (cls.__fields__, cls.__align__), every key of the class dict installed",
                  f"commit: {fc['bad'][0] if fc['bad'] else ''}", cm.loc())
        return
    loops = [f for f in walk_body(cm.node.body) if isinstance(f, ast.For)]
    ok = len(loops) == 1 and "classdict.items()" in norm(loops[0].iter) and len(loops[0].body) == 1 and \
        isinstance(loops[0].body[0], ast.Expr) and call_name(loops[0].body[0].value) == "setattr" and not any(isinstance(x, ast.If) for x in ast.walk(loops[0]))
    rep.check(ok, rid, f"{cm.key}:install", "every key of the class dict is installed with setattr", "commit filters or skips keys of the class dict", cm.loc())
    call = [c for c in walk_body(cm.node.body) if isinstance(c, ast.Call) and call_name(c) == "_update_fields"]
    rep.check(len(call) == 1 and [norm(a) for a in call[0].args] == ["cls.__fields__", "cls.__align__"], rid, f"{cm.key}:inputs",
              "recomputed from cls.__fields__ with the class's alignment mode", "commit does not recompute from (cls.__fields__, cls.__align__)", cm.loc())


def refresh_rule(repo: Repo, rep: Report, rid: str) -> None:
    rep.rule(rid, "commit refreshes every derived attribute: every key of the class dict built by _update_fields is assigned on every path (both arms "
                  "of the recompile try assign _read and __compiled__) and commit installs every key on the class")
    fi = repo.func("types/structure.py", "StructureMetaType._update_fields")
    uf = update_fields_fold(repo)
    if uf is not None:
        bad = [b_ for b_ in uf["bad"] if "recompilation" not in b_[1] and "offset calculation" not in b_[1]]
        rep.info["update_fields_fold_cases"] = uf["cases"]
        rep.check(not bad, rid, f"{fi.key}:fold", f"_update_fields folded over {uf['cases']} (kind of class, compiled?, field list) cases: the class dict holds every "
                  "derived attribute, computed from the new field list (folded / raw name tables, generated methods, size, alignment, dynamic, reader and "
                  "compiled flag on both outcomes of the recompilation)",
                  f"_update_fields for '{bad[0][0] if bad else ''}': {bad[0][1] if bad else ''} {bad[0][2] if bad else ''}", fi.loc())
        _commit_checks(repo, rep, rid)
        return
    g = CFG(fi.node)
    assigns: dict[str, list] = {}
    for n in g.nodes:
        if n.kind == "stmt" and isinstance(n.ast, ast.Assign):
            t = n.ast.targets[0]
            if isinstance(t, ast.Subscript) and norm(t.value) == "classdict" and is_const(t.slice) and not isinstance(n.ast.value, ast.Call) or \
                    (isinstance(t, ast.Subscript) and norm(t.value) == "classdict" and is_const(t.slice)):
                k = const_value(t.slice)
                if k == "fields" or not (isinstance(n.ast.value, ast.Call) and call_name(n.ast.value) == "property"):
                    assigns.setdefault(k, []).append(n)
    rets = [n for n in g.nodes if n.kind == "stmt" and isinstance(n.ast, ast.Return)]
    if len(rets) != 1 or norm(rets[0].ast.value) != "classdict":
        rep.fail(rid, f"{fi.key}:return", "_update_fields no longer returns the class dict", fi.loc())
        return
    D = set(assigns)
    rep.info["derived_attributes"] = sorted(D)
    missing = EXPECTED_DERIVED - D
    rep.check(not missing, rid, f"{fi.key}:derived-set", f"derived attributes {sorted(D)}", f"derived attributes no longer refreshed: {sorted(missing)}", fi.loc())
    for k in sorted(D):
        nodes = {n.id for n in assigns[k]}
        if k in ("_read", "__compiled__"):
            # assigned in both arms of the try under `if cls.__compiled__`
            gate = [n for n in g.nodes if n.kind == "if" and norm(n.ast.test) == "cls.__compiled__"]
            trys = [n for n in g.nodes if n.kind == "try"]
            ok = bool(gate) and bool(trys) and len(nodes) >= 2
            if ok:
                t = trys[0].ast
                in_body = any(a.ast in t.body for a in assigns[k])
                in_handler = any(a.ast in h.body for h in t.handlers for a in assigns[k])
                ok = in_body and in_handler
            rep.check(ok, rid, f"{fi.key}:classdict[{k!r}]", "assigned on the success path and on the fallback path of the recompilation",
                      f"classdict[{k!r}] is not assigned on both arms of the recompile try: a stale reader / flag from the previous field list would survive",
                      fi.loc(assigns[k][0].ast))
        else:
            rep.check(g.must_pass(g.entry.id, rets[0].id, nodes), rid, f"{fi.key}:classdict[{k!r}]", "assigned on every path to the return",
                      f"classdict[{k!r}] is not assigned on every path: the attribute would keep its value from the previous field list", fi.loc(assigns[k][0].ast))
    rep.floor(rid, "derived attributes", len(D), 12)
    # values: methods regenerated from the *new* field names; size/alignment from the calculator (C04.R2)
    src = {k: norm(v[0].ast.value) for k, v in assigns.items()}
    roles = update_fields_roles(fi)
    rep.check(roles["ok"] and src.get("__fields__") == roles["fields"], rid, f"{fi.key}:lookups",
              "classdict['fields'] is the folded name table, classdict['lookup'] the raw one, both filled from the new field list; __fields__ is the list itself",
              f"lookup tables wired as {dict((k, src.get(k)) for k in ('fields', 'lookup', '__fields__'))}: {roles['why']}", fi.loc())
    recompile = [c for c in walk_body(fi.node.body) if isinstance(c, ast.Call) and call_name(c) == "compile_read"]
    rep.check(len(recompile) == 1 and norm(recompile[0].args[0]) == roles["fields"], rid, f"{fi.key}:recompile", "the reader is recompiled from the new field list",
              "recompilation does not use the new field list", fi.loc())
    cm = repo.func("types/structure.py", "StructureMetaType.commit")
    loops = [f for f in walk_body(cm.node.body) if isinstance(f, ast.For)]
    ok = len(loops) == 1 and "classdict.items()" in norm(loops[0].iter) and len(loops[0].body) == 1 and \
        isinstance(loops[0].body[0], ast.Expr) and call_name(loops[0].body[0].value) == "setattr" and not any(isinstance(x, ast.If) for x in ast.walk(loops[0]))
    rep.check(ok, rid, f"{cm.key}:install", "every key of the class dict is installed with setattr", "commit filters or skips keys of the class dict", cm.loc())
    call = [c for c in walk_body(cm.node.body) if isinstance(c, ast.Call) and call_name(c) == "_update_fields"]
    rep.check(len(call) == 1 and [norm(a) for a in call[0].args] == ["cls.__fields__", "cls.__align__"], rid, f"{cm.key}:inputs",
              "recomputed from cls.__fields__ with the class's alignment mode", "commit does not recompute from (cls.__fields__, cls.__align__)", cm.loc())


def offsets_before_compile_rule(repo: Repo, rep: Report, rid: str) -> None:
    rep.rule(rid, "field offsets are computed before the reader is (re)generated: in _update_fields the size/offset calculation (which assigns "
                  "Field.offset) dominates the recompilation")
    fi = repo.func("types/structure.py", "StructureMetaType._update_fields")
    uf = update_fields_fold(repo)
    if uf is not None:
        bad = [b_ for b_ in uf["bad"] if "recompilation" in b_[1] or "offset calculation" in b_[1]]
        rep.check(not bad, rid, f"{fi.key}:offsets-before-compile", "folded: one offset calculation over the new field list, and the recompilation sees its offsets "
                  "(with align=cls.__align__)",
                  f"_update_fields for '{bad[0][0] if bad else ''}': {bad[0][1] if bad else ''}; expected {bad[0][2] if bad else ''}: the reader would be generated from "
                  "stale / missing Field.offset values (only visible in aligned mode with fields behind a gap)", fi.loc())
        co = repo.func("types/structure.py", "StructureMetaType._calculate_size_and_offsets")
        sets = [s2 for s2 in walk_body(co.node.body) if isinstance(s2, ast.Assign) and norm(s2.targets[0]) == "field.offset"]
        rep.check(len(sets) >= 2, rid, f"{co.key}:assigns-offsets", "the calculator assigns every field's offset", "the calculator no longer assigns field offsets", co.loc())
        return
    g = CFG(fi.node)
    calc = {n.id for n in g.nodes if n.kind == "stmt" and node_calls(n, "_calculate_size_and_offsets")}
    comp = [n for n in g.nodes if n.kind == "stmt" and node_calls(n, "compile_read")]
    if not calc or not comp:
        raise AnalysisError("_update_fields: offset calculation / recompilation call not found")
    rep.check(all(g.must_pass(g.entry.id, c.id, calc) for c in comp), rid, f"{fi.key}:offsets-before-compile", "the calculation precedes compile_read on every path",
              "the reader is recompiled before the offsets of the new field list are calculated: it is generated from stale / missing Field.offset values "
              "(only visible in aligned mode with fields behind a gap)", fi.loc(comp[0].ast))
    co = repo.func("types/structure.py", "StructureMetaType._calculate_size_and_offsets")
    sets = [s2 for s2 in walk_body(co.node.body) if isinstance(s2, ast.Assign) and norm(s2.targets[0]) == "field.offset"]
    rep.check(len(sets) >= 2, rid, f"{co.key}:assigns-offsets", "the calculator assigns every field's offset", "the calculator no longer assigns field offsets", co.loc())


def commit_path_rule(repo: Repo, rep: Report, rid: str) -> None:
    rep.rule(rid, "commit() has no path that skips the recomputation or the installation (no 'nothing changed' shortcut)")
    cm = repo.func("types/structure.py", "StructureMetaType.commit")
    fc = fold_commit(repo)
    if fc is not None:
        rep.check(not fc["bad"], rid, f"{cm.key}:no-shortcut", "folded on a class in either update state: always recomputes and installs every key",
                  f"commit() can return without recomputing / installing the derived attributes: {fc['bad'][0] if fc['bad'] else ''}", cm.loc())
        return
    g = CFG(cm.node)
    upd = {n.id for n in g.nodes if n.kind == "stmt" and node_calls(n, "_update_fields")}
    inst = {n.id for n in g.nodes if n.kind == "for"}
    ok = bool(upd) and bool(inst) and g.must_pass(g.entry.id, g.exit.id, upd) and g.must_pass(g.entry.id, g.exit.id, inst)
    rep.check(ok, rid, f"{cm.key}:no-shortcut", "every normal path recomputes and installs", "commit() can return without recomputing / installing the derived attributes "
              "(an early return): size, offsets, generated methods and the reader would describe the previous field list", cm.loc())


def align_flag_rule(repo: Repo, rep: Report, rid: str) -> None:
    rep.rule(rid, "every structure the parser creates is laid out in the requested mode: each factory(...) call in TokenParser._struct passes align=self.align")
    fi = repo.func("parser.py", "TokenParser._struct")
    fac = [c for c in walk_body(fi.node.body) if isinstance(c, ast.Call) and norm(c.func) == "factory"]
    for c in fac:
        kw = {k.arg: norm(k.value) for k in c.keywords}
        rep.check(kw.get("align") == "self.align", rid, f"{fi.key}:{short(c, 70)}", "align=self.align",
                  f"'{short(c, 70)}' does not pass align=self.align: that structure is laid out packed although aligned mode was requested", fi.loc(c))
    rep.floor(rid, "factory calls", len(fac), 2)


def selfref_rule(repo: Repo, rep: Report, rid: str) -> None:
    rep.rule(rid, "self reference: the pre-registered class is created through the same factory, compiled under the same condition as the one-shot "
                  "path, registered before its body is parsed and later extended in place")
    fi = repo.func("parser.py", "TokenParser._struct")
    g = CFG(fi.node)
    fac = [n for n in g.nodes if n.kind == "stmt" and isinstance(n.ast, ast.Assign) and isinstance(n.ast.value, ast.Call) and norm(n.ast.value.func) == "factory"]
    rep.check(len(fac) == 2, rid, f"{fi.key}:factory", "pre-registration and one-shot path use the same factory", f"{len(fac)} factory call sites (expected 2)", fi.loc())
    conds = []
    for n in g.nodes:
        if n.kind == "if" and any(isinstance(c, ast.Call) and call_name(c) == "compile" for s in n.ast.body if isinstance(s, (ast.Assign, ast.Expr)) for c in ast.walk(s)):
            conds.append(norm(n.ast.test))
    rep.check(len(conds) == 2 and conds[0] == conds[1], rid, f"{fi.key}:compile-condition", f"both paths compile under '{conds[0] if conds else ''}'",
              f"the pre-registered and the one-shot structure are compiled under different conditions: {conds}", fi.loc())
    if len(fac) == 2:
        kws = [{k.arg: norm(k.value) for k in f.ast.value.keywords} for f in fac]
        rep.check(all(k.get("align") == "self.align" for k in kws), rid, f"{fi.key}:align", "both paths pass align=self.align",
                  f"alignment mode differs between the two construction paths: {kws}", fi.loc())
    reg = [n for n in g.nodes if n.kind == "stmt" and node_calls(n, "add_type")]
    body_loop = [n for n in g.nodes if n.kind == "while" and "tokens" in norm(n.ast.test)]
    pre = [r for r in reg if body_loop and g.must_pass(g.entry.id, body_loop[0].id, {r.id}) is False and r.lineno < body_loop[0].lineno]
    rep.check(bool(body_loop) and any(r.lineno < body_loop[0].lineno for r in reg), rid, f"{fi.key}:pre-register", "the name is registered before the body is parsed",
              "the structure is no longer registered before its body is parsed: a member referring to the structure itself could not be resolved", fi.loc())
    ext = [n for n in g.nodes if n.kind == "stmt" and any(norm(c.func.value).endswith("__fields__") for c in node_calls(n, "extend"))]
    rep.check(len(ext) == 1, rid, f"{fi.key}:extend", "the pre-registered class is extended in place", "the pre-registered class is no longer extended in place", fi.loc())


def update_fields_roles(fi) -> dict:
    """Roles of _update_fields' locals, found by dataflow: the dict stored as classdict['fields'] must be filled, in the loop over the new field
    list, with field._name -> field and with the members of anonymous structures; the dict stored as classdict['lookup'] with field._name -> field
    for every field.  Names are whatever the code uses."""
    fields = fi.params[1]
    src: dict[str, ast.AST] = {}
    for s_ in walk_body(fi.node.body):
        if isinstance(s_, ast.Assign) and isinstance(s_.targets[0], ast.Subscript) and norm(s_.targets[0].value) == "classdict" and is_const(s_.targets[0].slice):
            src.setdefault(const_value(s_.targets[0].slice), s_.value)
    out = {"fields": fields, "folded": None, "raw": None, "ok": False, "why": ""}
    fo, ra = src.get("fields"), src.get("lookup")
    if not (isinstance(fo, ast.Name) and isinstance(ra, ast.Name)):
        out["why"] = "classdict['fields'] / classdict['lookup'] are not local tables"
        return out
    out["folded"], out["raw"] = fo.id, ra.id
    loops = [f for f in walk_body(fi.node.body) if isinstance(f, ast.For) and norm(f.iter) == fields and isinstance(f.target, ast.Name)]
    if len(loops) != 1:
        out["why"] = f"expected one loop over '{fields}'"
        return out
    loop, fv = loops[0], loops[0].target.id

    def stores(table: str, stmts) -> list[ast.Assign]:
        return [x for x in stmts if isinstance(x, ast.Assign) and isinstance(x.targets[0], ast.Subscript) and norm(x.targets[0].value) == table
                and norm(x.targets[0].slice) == f"{fv}._name" and norm(x.value) == fv]

    inner = list(walk_body(loop.body))
    folded_store = stores(fo.id, inner)
    folded_update = [c for c in inner if isinstance(c, ast.Call) and norm(c.func) == f"{fo.id}.update" and c.args and norm(c.args[0]) == f"{fv}.type.fields"]
    raw_store = stores(ra.id, loop.body)  # unconditional: directly in the loop body
    if not folded_store or not folded_update:
        out["why"] = f"'{fo.id}' is not filled with both field._name -> field and the members of anonymous structures"
    elif not raw_store:
        out["why"] = f"'{ra.id}' does not record every field under its _name"
    elif fo.id == ra.id:
        out["why"] = "folded and raw table are the same object"
    else:
        out["ok"] = True
    return out


def derived_in_new_rule(repo: Repo, rep: Report, rid: str) -> None:
    rep.rule(rid, "every attribute derived from the field list is computed by _update_fields (which commit() re-runs): the class constructor "
                  "StructureMetaType.__new__ stores nothing into the class dict that it computes from 'fields' itself")
    fi = repo.func("types/structure.py", "StructureMetaType.__new__")
    fields_names = {t.id for st in walk_body(fi.node.body) for t in ast.walk(st) if isinstance(t, ast.Name) and isinstance(t.ctx, ast.Store)
                    and any(isinstance(c, ast.Constant) and c.value == "fields" for c in ast.walk(st))}
    fields_names |= {"fields"}
    bad = []
    for st in walk_body(fi.node.body):
        if isinstance(st, ast.Assign) and any(isinstance(t, ast.Subscript) and norm(t.value) == "classdict" for t in st.targets):
            if any(isinstance(x, ast.Name) and x.id in fields_names for x in ast.walk(st.value)):
                bad.append(st)
    calls = [c for c in walk_body(fi.node.body) if isinstance(c, ast.Call) and call_name(c) == "_update_fields"]
    rep.check(not bad and len(calls) == 1, rid, f"{fi.key}:derived", "__new__ only delegates to _update_fields",
              f"'{short(bad[0], 70) if bad else ''}' computes a class attribute from the field list in __new__: commit() does not re-run __new__, so the attribute "
              "keeps the value of the first field list after add_field (a structure that started with one char field keeps taking the bytes shortcut)",
              fi.loc(bad[0]) if bad else fi.loc())


def field_source_rule(repo: Repo, rep: Report, rid: str) -> None:
    rep.rule(rid, "one field list everywhere: every reader generation (Compiler.compile and the recompilation in _update_fields) is fed the ordered "
                  "field list (__fields__ / the 'fields' parameter it was computed from), never a name-keyed view (lookup / fields), in which repeated "
                  "names such as '_' collapse")
    from ..util import resolve_local

    n = 0
    for fi in repo.all_functions():
        if fi.module.rel not in ("compiler.py", "types/structure.py"):
            continue
        for c in ast.walk(fi.node):
            if isinstance(c, ast.Call) and call_name(c) in ("compile_read", "_ReadSourceGenerator") and c.args:
                a0 = c.args[1] if call_name(c) == "_ReadSourceGenerator" and len(c.args) > 1 else c.args[0]
                src = resolve_local(fi.node, a0) if isinstance(a0, ast.Name) else a0
                t = norm(src) if src is not None else ""
                n += 1
                keyed = any(k_ in t for k_ in (".lookup", ".fields.", ".fields)", "lookup.values", "fields.values")) or t.endswith(".fields")
                ok = ("__fields__" in t or (isinstance(src, ast.Name) and src.id in fi.params)) and not keyed
                rep.check(ok, rid, f"{fi.key}:{short(c, 50)}", "generated from the ordered field list",
                          f"{fi.qualname} generates a reader from '{t[:60]}', not from the ordered field list: fields that share a name (repeated '_' padding) "
                          "are missing from it, while a recompilation after add_field sees them all", fi.loc(c))
    rep.floor(rid, "reader generation call sites", n, 2)


def add_field_fold_rule(repo: Repo, rep: Report, rid: str) -> None:
    rep.rule(rid, "add_field accepts what a one-piece definition accepts: StructureMetaType.add_field interpreted on a structure that already has a '_' "
                  "member (and on a fresh one), inside and outside an update block: the field is appended to __fields__ and committed unless an "
                  "update block is open - it never refuses a name itself (duplicate detection is the commit's, which exempts '_')")
    from ..minieval import Evaluator, Host, Raised, Refused, Sym, UserFunc

    fi = repo.func("types/structure.py", "StructureMetaType.add_field")
    bad = []
    cases = 0
    try:
        for existing in ([], ["_"], ["a", "_"]):
            for updating in (False, True):
                for name in ("_", "b"):
                    log = []
                    fields = [Sym(f"f:{n_}", {"name": n_, "_name": n_}) for n_ in existing]
                    cls = Sym("S", {"__fields__": list(fields), "fields": {f.attrs["name"]: f for f in fields}, "lookup": {f.attrs["name"]: f for f in fields},
                                    "__updating__": updating, "__align__": False}, {"commit": Host(lambda log=log: log.append("commit"))})

                    def field(n_, t_, bits=None, offset=None):
                        return Sym(f"f:{n_}", {"name": n_, "_name": n_, "type": t_, "bits": bits, "offset": offset})

                    env = {"Field": Host(field)}
                    cases += 1
                    try:
                        Evaluator(env, steps=2000).call_user(UserFunc(fi.node), [cls, name, Sym("uint8")], {})
                    except Raised as e:
                        bad.append((existing, updating, name, f"raised {e}"))
                        continue
                    names = [f.attrs["name"] for f in cls.attrs["__fields__"]]
                    if names != existing + [name] or (log == ["commit"]) == updating:
                        bad.append((existing, updating, name, f"fields {names}, commits {log}"))
    except Refused:
        rep.ok(rid, f"{fi.key}:fold", "not foldable with the evaluator's whitelist", fi.loc(), nontrivial=False)
        return
    rep.check(not bad, rid, f"{fi.key}:fold", f"{cases} cases: appended, committed outside an update block",
              (f"add_field({bad[0][2]!r}, ...) on a structure with fields {bad[0][0]} ({'inside' if bad[0][1] else 'outside'} an update block): {bad[0][3]}: a member "
               "sequence that a one-piece definition accepts cannot be built step by step") if bad else "", fi.loc())



def accessor_fold_rule(repo: Repo, rep: Report, rid: str) -> None:
    rep.rule(rid, "accessors of anonymous members, folded: the properties _update_fields installs for the members of anonymous structures are called on a "
                  "model instance with two anonymous structures - each getter reads, and each setter writes, its own member of its own anonymous "
                  "structure and nothing else (closures over loop variables are interpreted with Python's late binding)")
    fi = repo.func("types/structure.py", "StructureMetaType._update_fields")
    uf = update_fields_fold(repo)
    if uf is None:
        rep.ok(rid, f"{fi.key}:accessors", "not foldable with the evaluator's whitelist: the late-binding rule decides alone", fi.loc(), nontrivial=False)
        return
    bad = [b_ for b_ in uf["bad"] if "accessor" in b_[1] or b_[1].startswith("assigning")]
    rep.check(not bad, rid, f"{fi.key}:accessors", f"folded over {uf['cases']} cases", f"_update_fields for '{bad[0][0] if bad else ''}': {bad[0][1] if bad else ''}"
              f"{(', expected ' + bad[0][2]) if bad and bad[0][2] else ''}", fi.loc())


def late_binding_rule(repo: Repo, rep: Report, rid: str, modules: tuple[str, ...] = ("types/structure.py", "types/base.py", "types/enum.py", "cstruct.py", "parser.py")) -> None:
    rep.rule(rid, "no closure over a loop variable outlives its iteration: a nested function / lambda defined inside a loop that reads, as a free "
                  "variable, a name bound by that loop (target or assignment in the loop body) is not stored, returned or handed to a call - "
                  "Python looks the name up when the closure runs, so every stored closure would see the value of the last iteration")
    n = 0
    for fi in repo.all_functions():
        if fi.module.rel not in modules:
            continue
        for loop in walk_body(fi.node.body):
            if not isinstance(loop, (ast.For, ast.While)):
                continue
            bound = {x.id for st in loop.body for x in ast.walk(st) if isinstance(x, ast.Name) and isinstance(x.ctx, ast.Store)}
            if isinstance(loop, ast.For):
                bound |= {x.id for x in ast.walk(loop.target) if isinstance(x, ast.Name)}
            for st in loop.body:
                for inner in ast.walk(st):
                    if not isinstance(inner, (ast.FunctionDef, ast.Lambda)):
                        continue
                    n += 1
                    params = {a.arg for a in ast.walk(inner.args) if isinstance(a, ast.arg)}
                    body = inner.body if isinstance(inner.body, list) else [inner.body]
                    own = {x.id for b in body for x in ast.walk(b) if isinstance(x, ast.Name) and isinstance(x.ctx, ast.Store)}
                    free = {x.id for b in body for x in ast.walk(b) if isinstance(x, ast.Name) and isinstance(x.ctx, ast.Load)} - params - own
                    # names bound in the closure's own nested-def chain inside the loop (the def statement itself binds its name in the loop: that is the closure)
                    late = sorted((free & bound) - ({inner.name} if isinstance(inner, ast.FunctionDef) else set()))
                    # a lambda that is consumed where it stands (key= of sorted / max / min, argument of map / filter / any / all) does not outlive the iteration
                    immediate = False
                    if isinstance(inner, ast.Lambda):
                        for c in ast.walk(st):
                            if isinstance(c, ast.Call) and call_name(c) in ("sorted", "max", "min", "map", "filter", "any", "all", "sum", "next") and \
                                    any(inner is a_ or any(inner is y for y in ast.walk(a_)) for a_ in [*c.args, *[k.value for k in c.keywords]]):
                                immediate = True
                    key = f"{fi.key}:closure {inner.name if isinstance(inner, ast.FunctionDef) else 'lambda'} in loop"
                    rep.check(not late or immediate, rid, key, "reads no name bound by the loop (or is consumed within the iteration)",
                              f"the closure reads {late} - bound anew in every iteration of the loop at line {loop.lineno} - when it is called, not when it is made: all the "
                              "closures stored by the loop act on the last iteration's value (e.g. the setters of the members of every anonymous structure but "
                              "the last write into the last one: the assignment is lost)", fi.loc(inner))
    rep.info["closures_in_loops"] = n
    # witness: the rule fires on the textbook case
    w = ast.parse("def f(xs):\n    out = []\n    for x in xs:\n        g = attrgetter(x)\n        def _set(o, v, n=x):\n            setattr(g(o), n, v)\n        out.append(_set)\n    return out\n").body[0]
    loop = w.body[1]
    inner = loop.body[1]
    bound = {x.id for st in loop.body for x in ast.walk(st) if isinstance(x, ast.Name) and isinstance(x.ctx, ast.Store)} | {"x"}
    params = {a.arg for a in ast.walk(inner.args) if isinstance(a, ast.arg)}
    free = {x.id for b in inner.body for x in ast.walk(b) if isinstance(x, ast.Name) and isinstance(x.ctx, ast.Load)} - params
    if (free & bound) - {"_set"} != {"g"}:
        raise AnalysisError(f"{rid}: the late-binding matcher no longer recognises its witness")


def stale_state_rule(repo: Repo, rep: Report, rid: str) -> None:
    rep.rule(rid, "recomputation is history-free: _update_fields / _calculate_size_and_offsets / commit compute the class dict from the field list and the "
                  "alignment mode only - they never read an attribute of the class that _update_fields itself derives (size, alignment, dynamic, fields, "
                  "lookup, generated methods); the compiled flag, carried over by design, and commit's read of __fields__ are the exceptions")
    uf_fn = repo.func("types/structure.py", "StructureMetaType._update_fields")
    derived = set(EXPECTED_DERIVED) | {"size", "alignment", "dynamic", "fields", "lookup"}
    for x in walk_body(uf_fn.node.body):
        for t_ in (x.targets if isinstance(x, ast.Assign) else []):
            for e_ in (t_.elts if isinstance(t_, ast.Tuple) else [t_]):
                if isinstance(e_, ast.Subscript) and norm(e_.value) == "classdict" and is_const(e_.slice):
                    derived.add(const_value(e_.slice))
        if isinstance(x, ast.Call) and call_name(x) == "update" and norm(x.func.value) == "classdict":
            derived |= {k_.arg for k_ in x.keywords if k_.arg}
    n = 0
    for q in ("StructureMetaType._update_fields", "StructureMetaType._calculate_size_and_offsets", "UnionMetaType._calculate_size_and_offsets", "StructureMetaType.commit"):
        fi = repo.func_opt("types/structure.py", q)
        if fi is None:
            continue
        n += 1
        allowed = {"__compiled__", "_read"} | ({"__fields__"} if q.endswith(".commit") else set())
        reads = [x for x in ast.walk(fi.node) if isinstance(x, ast.Attribute) and isinstance(x.ctx, ast.Load) and isinstance(x.value, ast.Name)
                 and x.value.id == fi.self_name and x.attr in derived - allowed]
        # getattr(cls, "size", ...) spelled dynamically
        reads += [c for c in ast.walk(fi.node) if isinstance(c, ast.Call) and call_name(c) == "getattr" and len(c.args) >= 2 and norm(c.args[0]) == fi.self_name
                  and is_const(c.args[1]) and const_value(c.args[1]) in derived - allowed]
        rep.check(not reads, rid, f"{fi.key}:no-previous-state", "reads nothing the previous commit derived",
                  f"{q} reads '{norm(reads[0])[:50] if reads else ''}' - a value the previous commit derived: the layout of an incrementally built structure "
                  "depends on where the commits fell (e.g. a size that can never shrink below an intermediate state), unlike the one-piece definition",
                  fi.loc(reads[0]) if reads else fi.loc())
    rep.floor(rid, "recomputation functions", n, 3)


FIELD_ATTRS = ("name", "type", "bits", "offset")


def field_copy_rule(repo: Repo, rep: Report, rid: str) -> None:
    rep.rule(rid, "a Field is never copied partially: a Field(...) built from the attributes of another field (X.name / X._name, X.type) passes X.bits and "
                  "X.offset as well; the one-piece factories hand their field list to the class unchanged (explicit offsets given by the caller are "
                  "part of the definition on every path - add_field keeps them)")
    n = 0
    for fi in repo.all_functions():
        for c in ast.walk(fi.node):
            if not (isinstance(c, ast.Call) and call_name(c) == "Field"):
                continue
            n += 1
            argv = [*c.args, *[k.value for k in c.keywords]]
            srcs: dict[str, set[str]] = {}
            for a in argv:
                for x in ast.walk(a):
                    if isinstance(x, ast.Attribute) and x.attr in ("name", "_name", "type", "bits", "offset") and isinstance(x.ctx, ast.Load):
                        srcs.setdefault(norm(x.value), set()).add("name" if x.attr == "_name" else x.attr)
            for obj, got in srcs.items():
                if {"name", "type"} <= got:
                    missing = [a for a in FIELD_ATTRS if a not in got]
                    rep.check(not missing, rid, f"{fi.key}:copy of {obj}", "all four attributes are carried over",
                              f"'{short(c, 60)}' copies the field '{obj}' without its {missing}: a field placed at an explicit offset (or a bit-field) is laid out "
                              "differently in the copy - the one-piece definition and the structure built with add_field disagree", fi.loc(c))
    rep.floor(rid, "Field constructions", n, 3)
    for q in ("cstruct._make_struct", "cstruct._make_union"):
        fi = repo.func_opt("cstruct.py", q)
        if fi is None:
            continue
        rebinds = [x for x in walk_body(fi.node.body) if isinstance(x, (ast.Assign, ast.AugAssign, ast.AnnAssign))
                   and any(isinstance(t, ast.Name) and t.id == "fields" for t in (x.targets if isinstance(x, ast.Assign) else [x.target]))]
        bad = [x for x in rebinds if not (isinstance(x, ast.Assign) and norm(x.value) in ("list(fields)", "fields.copy()", "fields[:]", "[*fields]", "fields or []", "list(fields or [])"))]
        rep.check(not bad, rid, f"{fi.key}:fields-as-given", "the field list reaches the class as the caller gave it (or as a shallow copy)",
                  f"{q} rebuilds its field list ('{short(bad[0], 60) if bad else ''}'): whatever the rebuilt fields drop is lost for one-piece definitions only", fi.loc(bad[0]) if bad else fi.loc())


def run(repo: Repo, rep: Report, tier: str) -> None:
    commit_rule(repo, rep, "C18.R1")
    refresh_rule(repo, rep, "C18.R2")
    from .c13 import parser_fold_rule, token_parser_shape

    parser_fold_rule(repo, rep, "C18.R19")
    token_parser_shape(repo, rep, selfref_rule, "C18.R3")
    offsets_before_compile_rule(repo, rep, "C18.R4")
    commit_path_rule(repo, rep, "C18.R5")
    token_parser_shape(repo, rep, align_flag_rule, "C18.R6")
    from .memo import memo_rule

    memo_rule(repo, rep, "C18.R7")
    rid = "C18.R8"
    rep.rule(rid, "nothing derived from the field list survives an update outside the class dict _update_fields rebuilds: no operation reachable from "
                  "reading, dumping, rebuilding or calling a structure / union stores state on the type (a cached write order or call shortcut would "
                  "outlive add_field / commit)")
    from ..callgraph import CallGraph
    from .c08 import residue_rule

    cg = CallGraph(repo)
    roots = [f.key for f in repo.all_functions() if f.cls is not None and f.cls.name in ("StructureMetaType", "UnionMetaType", "Union", "UnionProxy", "Structure")
             and f.name in ("_read", "_read_fields", "_write", "_rebuild", "_update", "_proxify", "__setattr__", "__call__", "_read_0")]
    residue_rule(repo, rep, rid, cg, cg.closure(roots), roots)
    from .c08 import call_shortcut_rule

    call_shortcut_rule(repo, rep, "C18.R9")
    derived_in_new_rule(repo, rep, "C18.R10")
    field_source_rule(repo, rep, "C18.R11")
    add_field_fold_rule(repo, rep, "C18.R12")
    from .share import share_rules

    share_rules(repo, rep, tier, "c03", {"C03.R1": "C18.R13"}, "the two sites that generate a reader (one-shot compile, recompilation on commit) must fail the same way: fall back, never raise")
    from .c04 import layout_fold_rule

    layout_fold_rule(repo, rep, "C18.R14", 3 if tier == "thorough" else 2)
    stale_state_rule(repo, rep, "C18.R15")
    field_copy_rule(repo, rep, "C18.R16")
    accessor_fold_rule(repo, rep, "C18.R17")
    late_binding_rule(repo, rep, "C18.R18")
