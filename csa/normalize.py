"""Normalisation of behaviour-preserving restructurings before the rules look at the code.

Two classic refactorings hide the shape a structural rule looks for without changing behaviour:
  * *extract helper*   - a block moves into a new private function / nested function,
  * *introduce local*  - a sub-expression or a condition gets a name.
Both are undone here, on the AST, for names that do **not** exist in the inventory of the pinned tree
(``baseline_names.json``: every function qualname and every local name per function).  Existing helpers and
locals are left alone, so the rules see the pinned tree exactly as written, and a refactored tree in (nearly)
the shape of the pinned one.  A change that hides a real violation inside a new helper is exposed the same way.

Only semantics-preserving rewrites are applied (for the purpose of analysis):
  * a helper is inlined only when it is non-recursive, has no decorators other than static/classmethod, no
    nested scopes, no global/nonlocal, and every ``return`` is in tail position of its if/else tree;
  * a local is propagated only when it is bound exactly once to a side-effect-free expression whose operands
    are not re-bound (and whose attribute chains are not stored to) anywhere else in the function.
"""

from __future__ import annotations

import ast
import copy
import json
import os

from .util import norm

BASELINE_PATH = os.path.join(os.path.dirname(os.path.abspath(__file__)), "baseline_names.json")
PURE_FUNCS = {"len", "isinstance", "issubclass", "max", "min", "getattr", "hasattr", "tuple", "bool", "int", "str", "abs", "any", "all", "sorted", "sum"}
PURE_METHODS = {"keys", "values", "items", "get", "startswith", "endswith", "strip", "bit_length"}
MAX_HELPER_STMTS = 40


# ---------------------------------------------------------------------------------------------------------------
# inventory

def local_order(fn: ast.FunctionDef) -> list[str]:
    """Locals of a function in order of first binding: parameters in signature order, then stores by source position."""
    order: list[str] = []
    a = fn.args
    for x in [*a.posonlyargs, *a.args, *([a.vararg] if a.vararg else []), *a.kwonlyargs, *([a.kwarg] if a.kwarg else [])]:
        if x.arg not in order:
            order.append(x.arg)
    stores = [n for n in _walk_no_nested(fn) if isinstance(n, ast.Name) and isinstance(n.ctx, (ast.Store, ast.Del))]
    nested = [n for n in _walk_no_nested_defs(fn)]
    items = [(n.lineno, n.col_offset, n.id) for n in stores] + [(d.lineno, d.col_offset, d.name) for d in nested]
    items += [(h.lineno, h.col_offset, h.name) for h in _walk_no_nested(fn) if isinstance(h, ast.ExceptHandler) and h.name]
    for lam in ast.walk(fn):
        if isinstance(lam, ast.Lambda):
            items += [(x.lineno, x.col_offset, x.arg) for x in [*lam.args.posonlyargs, *lam.args.args, *lam.args.kwonlyargs]]
    for _l, _c, name in sorted(items):
        if name not in order:
            order.append(name)
    return order


def _walk_no_nested_defs(fn: ast.AST):
    stack = list(ast.iter_child_nodes(fn))
    while stack:
        n = stack.pop()
        if isinstance(n, (ast.FunctionDef, ast.AsyncFunctionDef)):
            yield n
            continue
        if isinstance(n, (ast.ClassDef, ast.Lambda)):
            continue
        stack.extend(ast.iter_child_nodes(n))


def _abstract_names(f: ast.AST, tag: str) -> None:
    """Rename, in place, the locals of ``f`` (a clone) to positional placeholders; nested functions first, each with its own numbering,
    so that renaming a parameter of an inner function does not change the shape of the outer one."""
    for k, inner in enumerate(sorted(_walk_no_nested_defs(f), key=lambda d: (d.lineno, d.col_offset))):
        _abstract_names(inner, f"{tag}n{k}")
    declared_outer = {x for n in _walk_no_nested(f) if isinstance(n, (ast.Nonlocal, ast.Global)) for x in n.names}
    order = [n for n in local_order(f) if n not in declared_outer and not n.startswith("\u00a7")]
    idx = {n: i for i, n in enumerate(order)}
    for n in ast.walk(f):
        if isinstance(n, ast.arg):
            n.annotation = None
            if n.arg in idx:
                n.arg = f"\u00a7{tag}_{idx[n.arg]}"
        elif isinstance(n, ast.Name) and n.id in idx:
            n.id = f"\u00a7{tag}_{idx[n.id]}"
        elif isinstance(n, (ast.FunctionDef, ast.AsyncFunctionDef)):
            if n is not f and n.name in idx:
                n.name = f"\u00a7{tag}_{idx[n.name]}"
            n.returns = None
            n.body = _strip_doc(n.body) or [ast.Pass()]
        elif isinstance(n, ast.AnnAssign):
            n.annotation = ast.Constant(0)
        elif isinstance(n, ast.ExceptHandler) and n.name in idx:
            n.name = f"\u00a7{tag}_{idx[n.name]}"
        elif isinstance(n, (ast.Nonlocal, ast.Global)):
            n.names = [f"\u00a7{tag}_{idx[x]}" if x in idx else x for x in n.names]


def shape_hash(fn: ast.FunctionDef) -> str:
    """Structure of a function with its local names abstracted (positional placeholders by first binding), docstrings and annotations ignored."""
    import hashlib

    clone = copy.deepcopy(fn)
    clone.name = "f"
    clone.decorator_list = []
    _abstract_names(clone, "L")
    for n in ast.walk(clone):
        if isinstance(n, ast.Constant) and isinstance(n.value, str):
            n.value = ""  # message / template texts do not matter for matching locals
    return hashlib.sha256(ast.dump(clone, annotate_fields=False, include_attributes=False).encode()).hexdigest()[:20]


def inventory(tree: ast.Module) -> dict[str, dict]:
    """qualname -> {locals: sorted names, order: names by first binding, shape: name-abstracted structure hash}."""
    out: dict[str, dict] = {}

    def visit(body, prefix):
        for st in body:
            if isinstance(st, (ast.FunctionDef, ast.AsyncFunctionDef)):
                q = prefix + st.name
                names = {a.arg for a in ast.walk(st.args) if isinstance(a, ast.arg)}
                for n in _walk_no_nested(st):
                    if isinstance(n, ast.Name) and isinstance(n.ctx, (ast.Store, ast.Del)):
                        names.add(n.id)
                out[q] = {"locals": sorted(names), "order": local_order(st), "shape": shape_hash(st)}
                visit(st.body, q + ".<locals>.")
            elif isinstance(st, ast.ClassDef):
                visit(st.body, prefix + st.name + ".")
            elif isinstance(st, (ast.If, ast.Try, ast.With, ast.For, ast.While)):
                for sub in (getattr(st, "body", []), getattr(st, "orelse", []), getattr(st, "finalbody", [])):
                    visit(sub, prefix)
                for h in getattr(st, "handlers", []):
                    visit(h.body, prefix)

    visit(tree.body, "")
    out["<module>"] = {"names": sorted(_module_names(tree))}
    return out


def _module_names(tree: ast.Module) -> set[str]:
    names: set[str] = set()
    for st in tree.body:
        for t in (st.targets if isinstance(st, ast.Assign) else [st.target] if isinstance(st, (ast.AnnAssign, ast.AugAssign)) else []):
            for x in ast.walk(t):
                if isinstance(x, ast.Name):
                    names.add(x.id)
    return names


def _simple_constant(v: ast.AST | None) -> bool:
    if isinstance(v, ast.Constant) and (isinstance(v.value, (int, bytes, str, float)) or v.value is None):
        return True
    return isinstance(v, ast.UnaryOp) and isinstance(v.op, ast.USub) and isinstance(v.operand, ast.Constant) and isinstance(v.operand.value, (int, float))


def inline_new_constants(tree: ast.Module, rel: str, baseline: dict) -> int:
    """A module-level name that the pinned tree does not have, bound once to a literal (``READ_ALL = -1``, ``NULL_BYTE = b"\\x00"``), is read as that
    literal by every rule: a magic number given a name is the same program."""
    known = set((baseline.get(rel, {}).get("<module>") or {}).get("names", []))
    if rel not in baseline or "<module>" not in baseline[rel]:
        return 0
    cands: dict[str, ast.AST] = {}
    values: dict[str, object] = {}
    stores: dict[str, int] = {}
    for x in ast.walk(tree):
        if isinstance(x, ast.Name) and isinstance(x.ctx, (ast.Store, ast.Del)):
            stores[x.id] = stores.get(x.id, 0) + 1
        if isinstance(x, ast.Global):
            for n_ in x.names:
                stores[n_] = stores.get(n_, 0) + 2
        if isinstance(x, ast.arg):
            stores[x.arg] = stores.get(x.arg, 0) + 1
    for st in tree.body:
        tgt = val = None
        if isinstance(st, ast.Assign) and len(st.targets) == 1 and isinstance(st.targets[0], ast.Name):
            tgt, val = st.targets[0].id, st.value
        elif isinstance(st, ast.AnnAssign) and isinstance(st.target, ast.Name):
            tgt, val = st.target.id, st.value
        if tgt and tgt not in known and stores.get(tgt, 0) == 1 and val is not None:
            if _simple_constant(val):
                cands[tgt] = val
                values[tgt] = ast.literal_eval(val)
            else:
                # a constant expression over literals and the constants found so far (WCHAR_NULL = b"\\x00" * WCHAR_SIZE)
                try:
                    from .minieval import Evaluator

                    v_ = Evaluator({}, steps=500).ev(val, dict(values))
                except Exception:  # noqa: BLE001 - not a constant expression
                    continue
                if (isinstance(v_, (int, bytes, str, float)) and not isinstance(v_, bool)) or v_ is None:
                    cands[tgt] = ast.Constant(v_)
                    values[tgt] = v_
    if not cands:
        return 0

    class Tr(ast.NodeTransformer):
        def visit_Name(self, node: ast.Name):
            if isinstance(node.ctx, ast.Load) and node.id in cands:
                return ast.copy_location(copy.deepcopy(cands[node.id]), node)
            return node

    for st in tree.body:
        if isinstance(st, (ast.FunctionDef, ast.AsyncFunctionDef, ast.ClassDef)):
            Tr().visit(st)
    ast.fix_missing_locations(tree)
    return len(cands)


def _walk_no_nested(fn: ast.AST):
    stack = list(ast.iter_child_nodes(fn))
    while stack:
        n = stack.pop()
        if isinstance(n, (ast.FunctionDef, ast.AsyncFunctionDef, ast.ClassDef, ast.Lambda)):
            continue
        yield n
        stack.extend(ast.iter_child_nodes(n))


_baseline_cache: dict | None = None


def load_baseline() -> dict:
    global _baseline_cache
    if _baseline_cache is None:
        if os.path.exists(BASELINE_PATH):
            with open(BASELINE_PATH, encoding="utf-8") as fh:
                _baseline_cache = json.load(fh)
        else:
            _baseline_cache = {}
    return _baseline_cache


# ---------------------------------------------------------------------------------------------------------------
# helper inlining

def _returns_in_tail_position(body: list[ast.stmt]) -> bool:
    """Every Return of the body is the last statement of a branch of the if/else tree that ends the body."""
    def no_returns(stmts) -> bool:
        return not any(isinstance(x, ast.Return) for s in stmts for x in ast.walk(s) if not isinstance(x, (ast.FunctionDef, ast.Lambda)))

    if not body:
        return True
    *init, last = body
    if not no_returns(init):
        return False
    if isinstance(last, ast.Return):
        return True
    if isinstance(last, ast.If):
        return _returns_in_tail_position(last.body) and _returns_in_tail_position(last.orelse)
    return no_returns([last])


def _leaves(body: list[ast.stmt]) -> bool:
    if not body:
        return False
    last = body[-1]
    if isinstance(last, (ast.Return, ast.Raise)):
        return True
    if isinstance(last, ast.If):
        return bool(last.orelse) and _leaves(last.body) and _leaves(last.orelse)
    return False


def to_if_else(body: list[ast.stmt]) -> list[ast.stmt]:
    """``if c: ...; return X`` followed by more statements  ==  ``if c: ...; return X  else: <the rest>`` (early returns become if/else trees)."""
    out: list[ast.stmt] = []
    for i, st in enumerate(body):
        if isinstance(st, ast.If):
            st = copy.copy(st)
            st.body = to_if_else(st.body)
            st.orelse = to_if_else(st.orelse)
            rest = body[i + 1:]
            if rest and not st.orelse and _leaves(st.body):
                st.orelse = to_if_else(rest)
                out.append(st)
                return out
        out.append(st)
    return out


def _inlinable(fn: ast.FunctionDef) -> bool:
    decs = [norm(d) for d in fn.decorator_list]
    if any(d not in ("staticmethod", "classmethod") for d in decs):
        return False
    if fn.args.vararg or fn.args.kwarg or fn.args.kwonlyargs:
        return False
    n_stmts = 0
    for x in ast.walk(fn):
        if x is not fn and isinstance(x, (ast.FunctionDef, ast.AsyncFunctionDef, ast.ClassDef, ast.Lambda, ast.Global, ast.Nonlocal, ast.Await)):
            return False
        if isinstance(x, ast.Call) and isinstance(x.func, ast.Name) and x.func.id == fn.name:
            return False
        if isinstance(x, ast.Call) and isinstance(x.func, ast.Attribute) and x.func.attr == fn.name:
            return False
        if isinstance(x, ast.stmt):
            n_stmts += 1
    if n_stmts > MAX_HELPER_STMTS:
        return False
    is_gen = any(isinstance(x, (ast.Yield, ast.YieldFrom)) for x in ast.walk(fn))
    if is_gen:
        return not any(isinstance(x, ast.Return) and x.value is not None for x in ast.walk(fn))
    return _returns_in_tail_position(to_if_else(_strip_doc(fn.body)))


def _strip_doc(body):
    if body and isinstance(body[0], ast.Expr) and isinstance(body[0].value, ast.Constant) and isinstance(body[0].value.value, str):
        return body[1:]
    return body


class _Subst(ast.NodeTransformer):
    def __init__(self, mapping: dict[str, ast.AST], rename: dict[str, str]):
        self.mapping, self.rename = mapping, rename

    def visit_Name(self, node: ast.Name):
        if isinstance(node.ctx, ast.Load) and node.id in self.mapping:
            return ast.copy_location(copy.deepcopy(self.mapping[node.id]), node)
        if node.id in self.rename:
            return ast.copy_location(ast.Name(id=self.rename[node.id], ctx=node.ctx), node)
        return node


def _replace_returns(body: list[ast.stmt], make) -> list[ast.stmt]:
    out = []
    for st in body:
        if isinstance(st, ast.Return):
            out.extend(make(st))
        elif isinstance(st, ast.If):
            new = copy.copy(st)
            new.body = _replace_returns(st.body, make) or [ast.copy_location(ast.Pass(), st)]
            new.orelse = _replace_returns(st.orelse, make)
            out.append(new)
        else:
            out.append(st)
    return out


def _instantiate(helper: ast.FunctionDef, call: ast.Call, k: int, bound_self: bool, at: ast.AST):
    """-> (prologue statements, body statements with returns untouched) for one call site, or None."""
    params = [a.arg for a in [*helper.args.posonlyargs, *helper.args.args]]
    args = list(call.args)
    if bound_self:
        # self.h(a, b) / cls.h(a, b): first parameter is the receiver
        if not isinstance(call.func, ast.Attribute):
            return None
        args = [call.func.value] + args
    if any(isinstance(a, ast.Starred) for a in args):
        return None
    bind: dict[str, ast.AST] = dict(zip(params, args))
    for kw in call.keywords:
        if kw.arg is None or kw.arg not in params:
            return None
        bind[kw.arg] = kw.value
    defaults = helper.args.defaults
    for p, d in zip(params[len(params) - len(defaults):], defaults):
        bind.setdefault(p, d)
    if set(bind) != set(params):
        return None
    body = to_if_else(copy.deepcopy(_strip_doc(helper.body)))
    assigned = {n.id for s in body for n in ast.walk(s) if isinstance(n, ast.Name) and isinstance(n.ctx, (ast.Store, ast.Del))}
    mapping: dict[str, ast.AST] = {}
    rename: dict[str, str] = {}
    prologue: list[ast.stmt] = []
    for p, a in bind.items():
        simple = isinstance(a, (ast.Name, ast.Constant)) or (isinstance(a, ast.Attribute) and norm(a).count("(") == 0)
        if simple and p not in assigned:
            mapping[p] = a
        else:
            newn = f"{p}__inl{k}"
            rename[p] = newn
            prologue.append(ast.copy_location(ast.Assign(targets=[ast.Name(id=newn, ctx=ast.Store())], value=copy.deepcopy(a), lineno=at.lineno), at))
    for loc in assigned:
        if loc not in rename and loc not in params:
            rename[loc] = f"{loc}__inl{k}"
    sub = _Subst(mapping, rename)
    body = [sub.visit(s) for s in body]
    for s in prologue + body:
        for x in ast.walk(s):
            if not hasattr(x, "lineno"):
                ast.copy_location(x, at)
        ast.fix_missing_locations(s)
    return prologue, body


def inline_new_helpers(tree: ast.Module, rel: str, baseline: dict) -> int:
    """Inline calls to functions that do not exist in the baseline inventory of this module. Returns the number of call sites inlined."""
    known = set(baseline.get(rel, {}))
    count = 0
    for _round in range(3):
        inv_now = {}
        helpers: dict[str, tuple[ast.FunctionDef, str]] = {}
        ambiguous: set[str] = set()
        known_bare = {q_.split(".")[-1] for q_ in known}

        def collect(body, prefix, kind):
            for st in body:
                if isinstance(st, (ast.FunctionDef, ast.AsyncFunctionDef)):
                    q = prefix + st.name
                    # a helper is looked up by its bare name at the call sites: a special method, or a name that the pinned tree (or another new
                    # definition) also uses elsewhere, is never treated as one
                    if q not in known and _inlinable(st) and not (st.name.startswith("__") and st.name.endswith("__")) and st.name not in known_bare:
                        if st.name in helpers or st.name in ambiguous:
                            ambiguous.add(st.name)
                            helpers.pop(st.name, None)
                        else:
                            helpers[st.name] = (st, kind)
                    collect(st.body, q + ".<locals>.", "nested")
                elif isinstance(st, ast.ClassDef):
                    collect(st.body, prefix + st.name + ".", "method")
                elif isinstance(st, (ast.If, ast.Try)):
                    collect(st.body, prefix, kind)

        collect(tree.body, "", "function")
        if not helpers:
            break
        changed = 0
        counter = [count]

        def rewrite_body(body: list[ast.stmt]) -> list[ast.stmt]:
            nonlocal changed
            out: list[ast.stmt] = []
            for st in body:
                # recurse into compound statements first
                for fld in ("body", "orelse", "finalbody"):
                    sub = getattr(st, fld, None)
                    if isinstance(sub, list) and sub and isinstance(sub[0], ast.stmt) and not isinstance(st, (ast.FunctionDef, ast.AsyncFunctionDef, ast.ClassDef)):
                        setattr(st, fld, rewrite_body(sub))
                for h in getattr(st, "handlers", []) or []:
                    h.body = rewrite_body(h.body)
                if isinstance(st, (ast.FunctionDef, ast.AsyncFunctionDef)):
                    st.body = rewrite_body(st.body)
                    out.append(st)
                    continue
                if isinstance(st, ast.ClassDef):
                    st.body = rewrite_body(st.body)
                    out.append(st)
                    continue
                site = _find_site(st, helpers)
                if site is None:
                    out.append(st)
                    continue
                call, ctx = site
                helper, kind = helpers[_callee_name(call)]
                bound = kind == "method" and isinstance(call.func, ast.Attribute) and not any(norm(d) == "staticmethod" for d in helper.decorator_list) \
                    and not (isinstance(call.func.value, ast.Name) and call.func.value.id[:1].isupper() and "classmethod" not in [norm(d) for d in helper.decorator_list])
                counter[0] += 1
                inst = _instantiate(helper, call, counter[0], bound, st)
                if inst is None:
                    out.append(st)
                    continue
                prologue, hbody = inst
                changed += 1
                if ctx == "yieldfrom":
                    # a generator helper: its (tail-position) returns end the helper, not the caller
                    out.extend(prologue + (_replace_returns(hbody, lambda r: []) or [ast.copy_location(ast.Pass(), st)]))
                elif ctx == "expr":
                    out.extend(prologue + _replace_returns(hbody, lambda r: [ast.copy_location(ast.Expr(value=r.value), r)] if r.value is not None else []))
                elif ctx == "assign":
                    tgt = st.targets
                    out.extend(prologue + _replace_returns(hbody, lambda r: [ast.copy_location(ast.Assign(targets=copy.deepcopy(tgt), value=r.value or ast.Constant(None), lineno=r.lineno), r)]))
                elif ctx == "return":
                    out.extend(prologue + hbody)
                else:  # nested inside a larger expression: bind the result to a temporary first
                    tmp = f"__inl_result{counter[0]}"
                    out.extend(prologue + _replace_returns(hbody, lambda r: [ast.copy_location(ast.Assign(targets=[ast.Name(id=tmp, ctx=ast.Store())], value=r.value or ast.Constant(None), lineno=r.lineno), r)]))
                    _ReplaceCall(call, tmp).visit(st)
                    out.append(st)
            return out

        tree.body = rewrite_body(tree.body)
        count = counter[0]
        if not changed:
            break
        # helper definitions that are no longer referenced anywhere are dropped (they would otherwise look like orphan functions)
        referenced = {n.id for n in ast.walk(tree) if isinstance(n, ast.Name)} | {n.attr for n in ast.walk(tree) if isinstance(n, ast.Attribute)}
        _drop_defs(tree, {id(helpers[name][0]) for name in helpers if name not in referenced})
    _cleanup(tree)
    ast.fix_missing_locations(tree)
    return count


def _drop_defs(tree: ast.AST, names: set[int]) -> None:
    """Remove the given function definitions (by node identity: never another definition that happens to share the name)."""
    if not names:
        return
    for n in ast.walk(tree):
        for fld in ("body", "orelse", "finalbody"):
            lst = getattr(n, fld, None)
            if isinstance(lst, list) and lst and isinstance(lst[0], ast.stmt):
                new = [x for x in lst if not (isinstance(x, (ast.FunctionDef, ast.AsyncFunctionDef)) and id(x) in names)]
                if len(new) != len(lst):
                    setattr(n, fld, new or [ast.Pass(lineno=getattr(lst[0], "lineno", 1), col_offset=0)])


def _cleanup(tree: ast.AST) -> None:
    """Remove artefacts of inlining: ``x = x`` and else-branches that only contain ``pass`` / no-op assignments."""
    def is_noop(st: ast.stmt) -> bool:
        if isinstance(st, ast.Pass):
            return True
        return isinstance(st, ast.Assign) and len(st.targets) == 1 and isinstance(st.targets[0], ast.Name) and isinstance(st.value, ast.Name) \
            and st.targets[0].id == st.value.id

    for n in ast.walk(tree):
        for fld in ("body", "orelse", "finalbody"):
            lst = getattr(n, fld, None)
            if isinstance(lst, list) and lst and isinstance(lst[0], ast.stmt):
                if fld == "orelse" and all(is_noop(x) for x in lst):
                    setattr(n, fld, [])
                    continue
                new = [x for x in lst if not is_noop(x)]
                if not new:
                    new = [ast.Pass(lineno=getattr(lst[0], "lineno", 1), col_offset=0)]
                if len(new) != len(lst):
                    setattr(n, fld, new)


class _ReplaceCall(ast.NodeTransformer):
    def __init__(self, call: ast.Call, name: str):
        self.call, self.name = call, name

    def visit_Call(self, node: ast.Call):
        if node is self.call:
            return ast.copy_location(ast.Name(id=self.name, ctx=ast.Load()), node)
        return self.generic_visit(node)


def _callee_name(call: ast.Call) -> str | None:
    if isinstance(call.func, ast.Name):
        return call.func.id
    if isinstance(call.func, ast.Attribute) and isinstance(call.func.value, ast.Name):
        return call.func.attr
    return None


def _find_site(st: ast.stmt, helpers) -> tuple[ast.Call, str] | None:
    def is_helper_call(e) -> bool:
        return isinstance(e, ast.Call) and _callee_name(e) in helpers

    if isinstance(st, ast.Expr):
        v = st.value
        if is_helper_call(v):
            return v, "expr"
        if isinstance(v, ast.YieldFrom) and is_helper_call(v.value):
            return v.value, "yieldfrom"
    if isinstance(st, ast.Assign) and is_helper_call(st.value):
        return st.value, "assign"
    if isinstance(st, ast.Return) and is_helper_call(st.value):
        return st.value, "return"
    if isinstance(st, (ast.Expr, ast.Assign, ast.AugAssign, ast.Return, ast.If, ast.While)):
        root = st.test if isinstance(st, (ast.If, ast.While)) else st
        for x in ast.walk(root):
            if is_helper_call(x) and not isinstance(st, ast.While):
                helper, _k = helpers[_callee_name(x)]
                if not any(isinstance(y, (ast.Yield, ast.YieldFrom)) for y in ast.walk(helper)):
                    return x, "nested"
    return None


# ---------------------------------------------------------------------------------------------------------------
# propagation of newly introduced locals

def _root_name(e: ast.AST) -> str | None:
    while isinstance(e, (ast.Attribute, ast.Subscript, ast.Call, ast.Starred)):
        e = e.func if isinstance(e, ast.Call) else e.value
    return e.id if isinstance(e, ast.Name) else None


def _is_pure(e: ast.AST) -> bool:
    for x in ast.walk(e):
        if isinstance(x, (ast.Yield, ast.YieldFrom, ast.Await, ast.NamedExpr, ast.Lambda, ast.ListComp, ast.DictComp, ast.SetComp, ast.GeneratorExp,
                          ast.Dict, ast.List, ast.Set, ast.JoinedStr)):
            return False  # fresh mutable objects / scopes: identity matters
        if isinstance(x, ast.Call):
            if isinstance(x.func, ast.Name) and x.func.id in PURE_FUNCS:
                continue
            if isinstance(x.func, ast.Attribute) and x.func.attr in PURE_METHODS:
                continue
            return False
    return True


def _single_use_in_next_stmt(fn: ast.AST, st: ast.stmt, x: str) -> bool:
    """An argument temporary created by helper inlining may be folded back into its only use when that use is in the statement that follows
    directly (and not inside a comprehension / lambda of it): this restores the call expression the helper call was written with."""
    loads = [n for n in ast.walk(fn) if isinstance(n, ast.Name) and n.id == x and isinstance(n.ctx, ast.Load)]
    if len(loads) != 1:
        return False
    for n in ast.walk(fn):
        for fld in ("body", "orelse", "finalbody"):
            lst = getattr(n, fld, None)
            if isinstance(lst, list) and any(y is st for y in lst):
                i = next(k for k, y in enumerate(lst) if y is st)
                if i + 1 >= len(lst):
                    return False
                nxt = lst[i + 1]
                if isinstance(nxt, (ast.For, ast.While, ast.If, ast.With, ast.Try, ast.FunctionDef, ast.ClassDef)):
                    head = {"For": ["iter"], "While": [], "If": ["test"], "With": ["items"]}.get(type(nxt).__name__, [])
                    parts = [getattr(nxt, h) for h in head]
                    parts = [q for part in parts for q in (part if isinstance(part, list) else [part])]
                else:
                    parts = [nxt]
                for part in parts:
                    inside_scope = {id(z) for sc in ast.walk(part) if isinstance(sc, (ast.Lambda, ast.ListComp, ast.SetComp, ast.DictComp, ast.GeneratorExp))
                                    for z in ast.walk(sc)}
                    if any(z is loads[0] and id(z) not in inside_scope for z in ast.walk(part)):
                        return True
                return False
    return False


def propagate_new_locals(fn: ast.FunctionDef, known_locals: set[str]) -> int:
    """Substitute single-definition pure locals that the baseline does not know. Returns the number of locals propagated.

    A local ``x = e`` is substituted at its uses when e is side-effect free and nothing on any path from the definition to a use
    re-binds an operand of e or stores to an attribute / subscript chain that e reads.
    """
    from .cfg import CFG

    done = 0
    for _ in range(12):
        stores: dict[str, list[ast.AST]] = {}
        for n in _walk_no_nested(fn):
            if isinstance(n, ast.Name) and isinstance(n.ctx, (ast.Store, ast.Del)):
                stores.setdefault(n.id, []).append(n)
        params = {a.arg for a in ast.walk(fn.args) if isinstance(a, ast.arg)}
        nested_uses = {n.id for x in ast.walk(fn) if x is not fn and isinstance(x, (ast.FunctionDef, ast.AsyncFunctionDef, ast.Lambda)) for n in ast.walk(x) if isinstance(n, ast.Name)}
        cands = []
        for st in _stmts(fn):
            if not (isinstance(st, ast.Assign) and len(st.targets) == 1 and isinstance(st.targets[0], ast.Name)):
                continue
            x = st.targets[0].id
            if x in known_locals or x in params or x in nested_uses or len(stores.get(x, [])) != 1:
                continue
            if x in {n.id for n in ast.walk(st.value) if isinstance(n, ast.Name)}:
                continue
            if not _is_pure(st.value) and not ("__inl" in x and _single_use_in_next_stmt(fn, st, x)):
                continue
            cands.append((st, x, st.value))
        if not cands:
            break
        try:
            g = CFG(fn)
        except Exception:  # noqa: BLE001
            break
        picked = None
        for st, x, e in cands:
            dn = g.node_of(st)
            if dn is None:
                continue
            operand_names = {n.id for n in ast.walk(e) if isinstance(n, ast.Name)}
            chains = {norm(a) for a in ast.walk(e) if isinstance(a, (ast.Attribute, ast.Subscript))}
            reads_heap = any(isinstance(a, (ast.Attribute, ast.Subscript, ast.Call)) for a in ast.walk(e))
            uses = [n for n in g.nodes if n.id != dn.id and n.expr() is not None and any(isinstance(y, ast.Name) and y.id == x and isinstance(y.ctx, ast.Load) for y in ast.walk(n.expr()))]
            if not uses:
                continue
            after = g.reachable(dn.id, avoid={dn.id})
            ok = all(g.dominates(dn.id, u.id) for u in uses)
            if ok:
                for u in uses:
                    can_reach_u = {m.id for m in g.nodes if m.id in after and (m.id == u.id or u.id in g.reachable(m.id, avoid={dn.id}))}
                    for m in can_reach_u:
                        if m == u.id:
                            continue
                        node = g.nodes[m]
                        ex = node.ast if node.kind == "stmt" else (node.ast.target if node.kind == "for" else node.expr())
                        if ex is None:
                            continue
                        for y in ast.walk(ex):
                            if isinstance(y, ast.Name) and isinstance(y.ctx, (ast.Store, ast.Del)) and y.id in operand_names:
                                ok = False
                            if isinstance(y, (ast.Attribute, ast.Subscript)) and isinstance(y.ctx, (ast.Store, ast.Del)) and norm(y) in chains:
                                ok = False
                            if reads_heap:
                                # e reads object state: a store through, or a call that is handed, one of the objects e starts from may change what e yields
                                if isinstance(y, (ast.Attribute, ast.Subscript)) and isinstance(y.ctx, (ast.Store, ast.Del)) and _root_name(y) in operand_names:
                                    ok = False
                                if isinstance(y, ast.Call) and not _is_pure(y):
                                    touched = {_root_name(a_) for a_ in [*y.args, *[k_.value for k_ in y.keywords]]}
                                    if isinstance(y.func, ast.Attribute):
                                        touched.add(_root_name(y.func.value))
                                    if touched & operand_names:
                                        ok = False
                    if not ok:
                        break
            if ok:
                picked = (st, x, e)
                break
        if picked is None:
            break
        st, x, e = picked

        class Sub(ast.NodeTransformer):
            def visit_Name(self, node):
                if node.id == x and isinstance(node.ctx, ast.Load):
                    return ast.copy_location(copy.deepcopy(e), node)
                return node

            def visit_FunctionDef(self, node):
                return node if node is not fn else self.generic_visit(node)

            def visit_Lambda(self, node):
                return node

        Sub().visit(fn)
        _replace_stmt(fn, st, ast.copy_location(ast.Pass(), st))
        done += 1
    if done:
        ast.fix_missing_locations(fn)
    return done


def _stmts(fn):
    for n in _walk_no_nested(fn):
        if isinstance(n, ast.stmt):
            yield n


def _replace_stmt(root: ast.AST, old: ast.stmt, new: ast.stmt) -> None:
    for n in ast.walk(root):
        for fld in ("body", "orelse", "finalbody"):
            lst = getattr(n, fld, None)
            if isinstance(lst, list):
                for i, s in enumerate(lst):
                    if s is old:
                        lst[i] = new
                        return
        for h in getattr(n, "handlers", []) or []:
            for i, s in enumerate(h.body):
                if s is old:
                    h.body[i] = new
                    return


# ---------------------------------------------------------------------------------------------------------------

def align_renamed_locals(fn: ast.FunctionDef, base: dict) -> int:
    """When a function is the baseline function up to a renaming of its locals / parameters, rename them back to the baseline names."""
    order = local_order(fn)
    b_order = base.get("order", [])
    if order == b_order or len(order) != len(b_order):
        return 0
    if shape_hash(fn) != base.get("shape"):
        return 0
    mapping = {o: n for o, n in zip(order, b_order) if o != n}
    if not mapping or len(set(mapping.values())) != len(mapping):
        return 0
    # two-phase rename to survive swaps
    tmp = {o: f"__ren{i}__" for i, o in enumerate(mapping)}
    for phase in (tmp, {tmp[o]: n for o, n in mapping.items()}):
        for n in ast.walk(fn):
            if isinstance(n, ast.Name) and n.id in phase:
                n.id = phase[n.id]
            elif isinstance(n, ast.arg) and n.arg in phase:
                n.arg = phase[n.arg]
            elif isinstance(n, (ast.FunctionDef, ast.AsyncFunctionDef)) and n is not fn and n.name in phase:
                n.name = phase[n.name]
            elif isinstance(n, (ast.Global, ast.Nonlocal)):
                n.names = [phase.get(x, x) for x in n.names]
            elif isinstance(n, ast.ExceptHandler) and n.name in phase:
                n.name = phase[n.name]
    return len(mapping)


def untype_locals(tree: ast.AST) -> int:
    """``x: T = v`` on a plain local or an attribute inside a function is ``x = v`` for every rule (annotations never change behaviour)."""
    count = 0
    for fn in ast.walk(tree):
        if not isinstance(fn, (ast.FunctionDef, ast.AsyncFunctionDef)):
            continue
        for n in ast.walk(fn):
            for fld in ("body", "orelse", "finalbody"):
                lst = getattr(n, fld, None)
                if not (isinstance(lst, list) and lst and isinstance(lst[0], ast.stmt)):
                    continue
                for i, st in enumerate(lst):
                    if isinstance(st, ast.AnnAssign) and isinstance(st.target, (ast.Name, ast.Attribute)) and st.value is not None:
                        lst[i] = ast.copy_location(ast.Assign(targets=[st.target], value=st.value, type_comment=None), st)
                        count += 1
    return count


def keyword_dicts(tree: ast.AST) -> int:
    """``d.update(a=1, b=2)`` and ``dict(a=1, b=2)`` are ``d.update({"a": 1, "b": 2})`` / ``{"a": 1, "b": 2}`` for every rule."""
    count = 0

    class Tr(ast.NodeTransformer):
        def visit_Call(self, node: ast.Call):
            nonlocal count
            self.generic_visit(node)
            if node.keywords and not node.args and all(k.arg is not None for k in node.keywords):
                d = ast.Dict(keys=[ast.Constant(k.arg) for k in node.keywords], values=[k.value for k in node.keywords])
                if isinstance(node.func, ast.Attribute) and node.func.attr == "update":
                    count += 1
                    return ast.copy_location(ast.Call(func=node.func, args=[ast.copy_location(d, node)], keywords=[]), node)
                if isinstance(node.func, ast.Name) and node.func.id == "dict":
                    count += 1
                    return ast.copy_location(d, node)
            return node

    Tr().visit(tree)
    ast.fix_missing_locations(tree)
    return count


def split_parallel_assignments(tree: ast.AST) -> int:
    """``a, b, c = x, y, z`` (plain names on the left, as many expressions on the right, no later expression reading an earlier target) is
    ``a = x; b = y; c = z`` for every rule: Python evaluates the right-hand sides left to right either way, and binding a name has no effect."""
    count = 0
    for n in ast.walk(tree):
        for fld in ("body", "orelse", "finalbody"):
            lst = getattr(n, fld, None)
            if not isinstance(lst, list):
                continue
            out: list = []
            for st in lst:
                if isinstance(st, ast.Assign) and len(st.targets) == 1 and isinstance(st.targets[0], (ast.Tuple, ast.List)) and isinstance(st.value, (ast.Tuple, ast.List)) \
                        and len(st.targets[0].elts) == len(st.value.elts) and all(isinstance(t, ast.Name) for t in st.targets[0].elts) \
                        and not any(isinstance(v, ast.Starred) for v in st.value.elts):
                    names = [t.id for t in st.targets[0].elts]
                    loaded = [{x.id for x in ast.walk(v) if isinstance(x, ast.Name)} for v in st.value.elts]
                    if len(set(names)) == len(names) and not any(names[i] in loaded[j] for i in range(len(names)) for j in range(len(names)) if i != j):
                        for t, v in zip(st.targets[0].elts, st.value.elts):
                            out.append(ast.copy_location(ast.Assign(targets=[t], value=v), st))
                        count += 1
                        continue
                out.append(st)
            if count:
                setattr(n, fld, out)
    if count:
        ast.fix_missing_locations(tree)
    return count


def normalize_module(rel: str, tree: ast.Module) -> dict:
    untype_locals(tree)
    keyword_dicts(tree)
    baseline = load_baseline()
    if not baseline or rel not in baseline:
        split_parallel_assignments(tree)
        return {"inlined": 0, "propagated": 0}
    inline_new_constants(tree, rel, baseline)
    stats = {"inlined": inline_new_helpers(tree, rel, baseline), "propagated": 0}
    known_funcs = baseline[rel]

    def visit(body, prefix):
        for st in body:
            if isinstance(st, (ast.FunctionDef, ast.AsyncFunctionDef)):
                q = prefix + st.name
                if q in known_funcs:
                    stats["renamed"] = stats.get("renamed", 0) + align_renamed_locals(st, known_funcs[q])
                    stats["propagated"] += propagate_new_locals(st, set(known_funcs[q]["locals"]))
                visit(st.body, q + ".<locals>.")
            elif isinstance(st, ast.ClassDef):
                visit(st.body, prefix + st.name + ".")
            elif isinstance(st, (ast.If, ast.Try)):
                visit(st.body, prefix)

    visit(tree.body, "")
    if stats["inlined"] or stats["propagated"]:
        _cleanup(tree)
    if split_parallel_assignments(tree):
        # the split may expose new single-definition locals (results handed back by an inlined helper)
        visit(tree.body, "")
    return stats


def write_baseline(pkg_dir: str) -> None:
    out = {}
    for dirpath, dirnames, filenames in os.walk(pkg_dir):
        dirnames[:] = sorted(d for d in dirnames if d != "__pycache__")
        for fn in sorted(filenames):
            if fn.endswith(".py"):
                p = os.path.join(dirpath, fn)
                rel = os.path.relpath(p, pkg_dir)
                tree = ast.parse(open(p, encoding="utf-8").read())
                untype_locals(tree)
                out[rel] = inventory(tree)
    with open(BASELINE_PATH, "w", encoding="utf-8") as fh:
        json.dump(out, fh, indent=0, sort_keys=True)
        fh.write("\n")


if __name__ == "__main__":
    import sys

    write_baseline(sys.argv[1] if len(sys.argv) > 1 else "/repo/dissect/cstruct")
    print("baseline written:", BASELINE_PATH)
