"""Fold of the union value life cycle (types/structure.py): the repository's own UnionMetaType._read / _read_fields / _write and
Union.__setattr__ / _rebuild / _update / _proxify and UnionProxy.__setattr__ are interpreted *together* on model unions, and property C11 is
checked on the outcome:

* parsing consumes exactly the union's size and every member equals the reference parse of its type from the union's bytes (at its offset);
* after an assignment - to a member, or through a structure nested one or two levels deep - every member equals the reference parse of the new
  buffer, where the new buffer is the old one with the bytes of the assigned member replaced by its encoding, and the dump is that buffer.

Member types are models with reference codecs (little-endian integers, a char array, structures of integers); streams are a read/write byte
buffer model.  Structure-typed members are read and written by reference hosts here - the structure reader / writer themselves are folded in
structfold.py.
"""

from __future__ import annotations

import ast
from typing import Any

from .foldpool import disk_cached
from .minieval import Evaluator, Exhausted, Host, Raised, Refused, Sym, UserFunc
from .model import Repo


class Buf:
    """io.BytesIO model."""

    def __init__(self, data: bytes = b""):
        self.data = bytearray(data)
        self.pos = 0
        self.sym = Sym("buffer", {}, {"read": Host(self.read), "write": Host(self.write), "seek": Host(self.seek), "tell": Host(lambda: self.pos),
                                      "getvalue": Host(lambda: bytes(self.data)), "getbuffer": Host(lambda: memoryview(bytes(self.data)))})
        self.sym.buf = self

    def read(self, n=-1):
        if n is None or n < 0:
            n = max(0, len(self.data) - self.pos)
        chunk = bytes(self.data[self.pos:self.pos + n])
        self.pos += len(chunk)
        return chunk

    def write(self, b):
        b = bytes(b)
        if self.pos > len(self.data):
            self.data += b"\x00" * (self.pos - len(self.data))
        self.data[self.pos:self.pos + len(b)] = b
        self.pos += len(b)
        return len(b)

    def seek(self, pos, whence=0):
        self.pos = pos if whence == 0 else (self.pos + pos if whence == 1 else len(self.data) + pos)
        return self.pos


def _buf(sym: Any) -> Buf:
    b = getattr(sym, "buf", None)
    if b is None:
        raise Refused("a type was handed something that is not a stream")
    return b


class Types:
    """Model member types with reference codecs."""

    def __init__(self) -> None:
        self.struct_cls, self.struct_meta, self.union_cls = Sym("class:Structure"), Sym("class:StructureMetaType"), Sym("class:Union")
        self.pointer_cls, self.enum_cls = Sym("class:Pointer"), Sym("class:Enum")
        self.t: dict[str, Sym] = {}
        for name, size in (("u8", 1), ("u16", 2), ("u32", 4)):
            self.t[name] = self._int(name, size)
        self.t["c4"] = self._chars("c4", 4)
        self.t["p"] = self._struct("p", [("x", "u8"), ("y", "u8")])
        self.t["q"] = self._struct("q", [("k", "u8"), ("in", "p"), ("t", "u8")])
        self.t["anon"] = self._struct("__anonymous_0__", [("lo", "u8"), ("hi", "u8"), ("top", "u16")])

    def _int(self, name: str, size: int) -> Sym:
        def read(stream, context=None):
            raw = _buf(stream).read(size)
            if len(raw) != size:
                raise Raised("EOFError('short read')")
            return int.from_bytes(raw, "little")

        def write(stream, value):
            if isinstance(value, bool) or not isinstance(value, int) or not 0 <= value < 1 << (8 * size):
                raise Raised("OverflowError('int too big')")
            return _buf(stream).write(value.to_bytes(size, "little"))

        return Sym(f"type:{name}", {"size": size, "alignment": size, "__name__": name, "kind": "int"}, {"_read": Host(read), "_write": Host(write), "__default__": Host(lambda: 0)})

    def _chars(self, name: str, n: int) -> Sym:
        def read(stream, context=None):
            raw = _buf(stream).read(n)
            if len(raw) != n:
                raise Raised("EOFError('short read')")
            return raw

        def write(stream, value):
            return _buf(stream).write(bytes(value))

        return Sym(f"type:{name}", {"size": n, "alignment": 1, "__name__": name, "kind": "chars"}, {"_read": Host(read), "_write": Host(write), "__default__": Host(lambda: b"\x00" * n)})

    def _struct(self, name: str, members: list[tuple[str, str]]) -> Sym:
        t = Sym(f"type:{name}", {"__name__": name, "kind": "struct", "alignment": 1})
        fields, off = [], 0
        for m, tn in members:
            mt = self.t[tn]
            fields.append(Sym(f"field:{name}.{m}", {"name": m, "_name": m, "type": mt, "offset": off, "bits": None, "alignment": mt.attrs["alignment"]}))
            off += mt.attrs["size"]
        t.attrs.update({"size": off, "__fields__": fields, "fields": {f.attrs["_name"]: f for f in fields}, "lookup": {f.attrs["_name"]: f for f in fields},
                        "dynamic": False, "__align__": False})

        def read(stream, context=None, t=t):
            return self.parse_struct(t, _buf(stream))

        def write(stream, value, t=t):
            b = _buf(stream)
            n = 0
            for f in t.attrs["__fields__"]:
                v = self.attr_of(value, f.attrs["_name"])
                n += self.call(f.attrs["type"], "_write", stream, v)
            return n

        t.methods.update({"_read": Host(read), "_write": Host(write), "__default__": Host(lambda t=t: self.parse_struct(t, Buf(b"\x00" * t.attrs["size"])))})
        return t

    @staticmethod
    def call(t: Sym, slot: str, *a):
        return t.methods[slot].fn(*a)

    def parse_struct(self, t: Sym, b: Buf) -> Sym:
        v = Sym(f"value:{t.attrs['__name__']}", {"__class__": t})
        v.strict = False
        v.attrs["__dict__"] = v.attrs
        for f in t.attrs["__fields__"]:
            v.attrs[f.attrs["_name"]] = self.call(f.attrs["type"], "_read", b.sym)
        return v

    @staticmethod
    def attr_of(value: Any, name: str) -> Any:
        """Attribute of a structure value, through proxies (UnionProxy.__getattr__ forwards to its target)."""
        seen = 0
        while isinstance(value, Sym) and "__target__" in value.attrs and name not in ("__target__", "__union__", "__attr__") and seen < 5:
            value = value.attrs["__target__"]
            seen += 1
        if isinstance(value, Sym) and name in value.attrs:
            return value.attrs[name]
        raise Raised(f"AttributeError({name!r})")


def plain(v: Any) -> Any:
    """Canonical form of a member value (proxies unwrapped, structure values as nested tuples)."""
    seen = 0
    while isinstance(v, Sym) and "__target__" in v.attrs and seen < 5:
        v = v.attrs["__target__"]
        seen += 1
    if isinstance(v, Sym) and isinstance(v.attrs.get("__class__"), Sym) and "__fields__" in v.attrs["__class__"].attrs:
        return tuple((f.attrs["_name"], plain(v.attrs.get(f.attrs["_name"], "<missing>"))) for f in v.attrs["__class__"].attrs["__fields__"])
    return v


class Harness:
    def __init__(self, repo: Repo):
        self.repo = repo
        need = {"read": ("UnionMetaType._read",), "read_fields": ("UnionMetaType._read_fields",), "write": ("UnionMetaType._write",), "setattr": ("Union.__setattr__",),
                "rebuild": ("Union._rebuild",), "update": ("Union._update",), "proxify": ("Union._proxify",), "proxy_init": ("UnionProxy.__init__",),
                "proxy_set": ("UnionProxy.__setattr__",)}
        self.fn = {}
        for k, (q,) in need.items():
            fi = repo.func_opt("types/structure.py", q)
            if fi is None:
                raise Refused(f"{q} not found")
            self.fn[k] = fi
        self.ty = Types()

    def union_type(self, members: list[tuple[str | None, str, int | None]], align_size: int | None = None) -> Sym:
        """members: (name or None for the anonymous structure, type name, explicit offset or None)"""
        ty = self.ty
        fields = []
        for name, tn, off in members:
            t = ty.t[tn]
            fields.append(Sym(f"field:U.{name or t.attrs['__name__']}", {"name": name, "_name": name or t.attrs["__name__"], "type": t, "offset": off, "bits": None,
                                                                       "alignment": t.attrs["alignment"]}))
        folded: dict[str, Sym] = {}
        for f in fields:
            if f.attrs["name"] is None:
                folded.update(f.attrs["type"].attrs["fields"])
            else:
                folded[f.attrs["_name"]] = f
        size = align_size or max(f.attrs["type"].attrs["size"] for f in fields)
        cls = Sym("type:U", {"__name__": "U", "kind": "union", "size": size, "dynamic": False, "alignment": max(f.attrs["alignment"] for f in fields), "__fields__": fields,
                             "fields": folded, "lookup": {f.attrs["_name"]: f for f in fields}, "__align__": False})
        cls.attrs["cs"] = Sym("cs", {"endian": "<"}, {"resolve": Host(lambda t: t)})
        for slot, key in (("_read_fields", "read_fields"), ("_read", "read"), ("_write", "write")):
            cls.methods[slot] = UserFunc(self.fn[key].node)
        return cls

    def env(self, cls: Sym) -> dict[str, Any]:
        ty = self.ty
        made: list[Sym] = []
        shared_defaults: dict[str, Any] = {}

        def new_instance(c, *a, **kw):
            if c is not cls:
                raise Refused("type.__call__ on another class")
            if a:
                raise Refused("positional construction")
            inst = Sym("U-instance", {"__class__": cls})
            inst.strict = False
            inst.attrs["__dict__"] = inst.attrs
            # the generated __init__: every raw member gets the given value or the type's default; members of the anonymous structure are reached
            # through it (the accessor properties)
            for f in cls.attrs["__fields__"]:
                n = f.attrs["_name"]
                if n in kw and kw[n] is not None:
                    inst.attrs[n] = kw[n]
                else:
                    # as in the library, the default object of a member is made once per class (it sits in the generated __init__'s constants)
                    if n not in shared_defaults:
                        shared_defaults[n] = Types.call(f.attrs["type"], "__default__")
                    inst.attrs[n] = shared_defaults[n]
            for slot, key in (("_rebuild", "rebuild"), ("_update", "update"), ("_proxify", "proxify")):
                inst.methods[slot] = UserFunc(self.fn[key].node, env)
            made.append(inst)
            return inst

        def issub(t, k):
            ks = k if isinstance(k, tuple) else (k,)
            out = False
            for k_ in ks:
                if k_ is ty.struct_cls:
                    out = out or (isinstance(t, Sym) and t.attrs.get("kind") in ("struct", "union"))
                elif k_ is ty.union_cls:
                    out = out or (isinstance(t, Sym) and t.attrs.get("kind") == "union")
                elif k_ in (ty.pointer_cls, ty.enum_cls):
                    pass
                elif k_ is int:
                    out = out or (isinstance(t, Sym) and t.attrs.get("kind") == "int")
                else:
                    raise Refused("issubclass against an unknown class")
            return out

        def isinst(o, k):
            ks = k if isinstance(k, tuple) else (k,)
            out = False
            for k_ in ks:
                if k_ is ty.struct_meta:
                    out = out or (isinstance(o, Sym) and o.attrs.get("kind") in ("struct", "union"))
                elif k_ is proxy_host:
                    out = out or (isinstance(o, Sym) and "__target__" in o.attrs)
                elif k_ is cls:
                    out = out or (isinstance(o, Sym) and o.attrs.get("__class__") is cls)
                elif k_ is ty.struct_cls:
                    out = out or (isinstance(o, Sym) and isinstance(o.attrs.get("__class__"), Sym) and o.attrs["__class__"].attrs.get("kind") in ("struct", "union")
                                  and "__target__" not in o.attrs)
                elif k_ is ty.union_cls:
                    out = out or (isinstance(o, Sym) and isinstance(o.attrs.get("__class__"), Sym) and o.attrs["__class__"].attrs.get("kind") == "union")
                elif isinstance(k_, type):
                    out = out or (isinstance(o, k_) and not isinstance(o, Sym))
                else:
                    raise Refused("isinstance against an unknown class")
            return out

        def getattr_(o, n, *d):
            if isinstance(o, Sym):
                if "__target__" in o.attrs and n not in o.attrs:
                    return getattr_(o.attrs["__target__"], n, *d)
                if n in o.attrs:
                    return o.attrs[n]
                # members of the anonymous structure, seen on the union through the accessor properties
                c = o.attrs.get("__class__")
                if c is cls:
                    for f in cls.attrs["__fields__"]:
                        if f.attrs["name"] is None and n in f.attrs["type"].attrs["fields"]:
                            return getattr_(o.attrs[f.attrs["_name"]], n)
                if n in o.methods:
                    return ("symmethod", o, n)
            if d:
                return d[0]
            raise Raised(f"AttributeError({n!r})")

        def setattr_(o, n, v):
            self.assign(env, o, n, v)

        def make_proxy(union, attr, target):
            p = Sym("proxy", {})
            p.strict = False
            Evaluator(env, steps=2000).call_user(UserFunc(self.fn["proxy_init"].node, env), [p, union, attr, target], {})
            return p

        proxy_host = Host(make_proxy)

        def length(o):
            if isinstance(o, Sym) and "size" in o.attrs:
                if o.attrs["size"] is None:
                    raise TypeError("dynamic size")
                return o.attrs["size"]
            return len(o)

        type_sym = Sym("type", {}, {"__call__": Host(new_instance)})
        type_sym.call = Host(lambda o: o.attrs.get("__class__", Sym("class:object")) if isinstance(o, Sym) else type(o))
        env: dict[str, Any] = {
            "io": Sym("io", {"SEEK_CUR": 1, "SEEK_SET": 0, "SEEK_END": 2}, {"BytesIO": Host(lambda data=b"": Buf(bytes(data)).sym)}),
            "type": type_sym, "object": Sym("object", {}, {"__setattr__": Host(lambda o, n, v: o.attrs.__setitem__(n, v))}),
            "issubclass": Host(issub), "isinstance": Host(isinst), "getattr": Host(getattr_), "setattr": Host(setattr_), "len": Host(length), "sorted": sorted, "any": any,
            "Structure": ty.struct_cls, "StructureMetaType": ty.struct_meta, "Union": ty.union_cls, "UnionProxy": proxy_host, "Pointer": ty.pointer_cls, "Enum": ty.enum_cls,
            "bytes": bytes, "int": int, "max": max, "min": min, "next": next, "zip": zip, "chain": Host(lambda *its: [x for it in its for x in it]),
        }
        for q, f in self.repo.module("types/structure.py").functions.items():
            if "." not in q and q not in env:
                env[q] = UserFunc(f.node, env)
        for q, f in self.repo.module("types/base.py").functions.items():
            if "." not in q and q not in env:
                env[q] = UserFunc(f.node, env)
        return env

    def assign(self, env: dict[str, Any], o: Any, name: str, value: Any) -> None:
        """``o.name = value`` with the dispatch Python performs: a proxy and a union instance run the repository's __setattr__, a plain structure value stores."""
        if isinstance(o, Sym) and "__target__" in o.attrs:
            Evaluator(env, steps=20000).call_user(UserFunc(self.fn["proxy_set"].node, env), [o, name, value], {})
            return
        if isinstance(o, Sym) and o.label == "U-instance":
            cls = o.attrs["__class__"]

            def plain_store(a, v):
                # object.__setattr__ semantics incl. the accessor properties of the anonymous structure's members
                for f in cls.attrs["__fields__"]:
                    if f.attrs["name"] is None and a in f.attrs["type"].attrs["fields"] and a not in cls.attrs["lookup"]:
                        self.assign(env, o.attrs[f.attrs["_name"]], a, v)
                        return
                o.attrs[a] = v

            e2 = dict(env)
            e2["super"] = Host(lambda *a: Sym("super", {}, {"__setattr__": Host(plain_store)}))
            Evaluator(e2, steps=20000).call_user(UserFunc(self.fn["setattr"].node, e2), [o, name, value], {})
            return
        if isinstance(o, Sym):
            o.attrs[name] = value
            return
        raise Refused("assignment on a non-symbolic object")

    # ------------------------------------------------------------------------------------------------------------------
    def reference_members(self, cls: Sym, data: bytes) -> dict[str, Any]:
        out = {}
        for f in cls.attrs["__fields__"]:
            b = Buf(data)
            b.pos = f.attrs["offset"] or 0
            out[f.attrs["_name"]] = plain(Types.call(f.attrs["type"], "_read", b.sym))
        return out

    def observed_members(self, env: dict[str, Any], inst: Sym) -> dict[str, Any]:
        return {f.attrs["_name"]: plain(inst.attrs.get(f.attrs["_name"], "<missing>")) for f in inst.attrs["__class__"].attrs["__fields__"]}

    def dump(self, env: dict[str, Any], cls: Sym, inst: Sym) -> bytes:
        b = Buf()
        try:
            Evaluator(env, steps=20000).call_user(cls.methods["_write"], [cls, b.sym, inst], {})
        except Raised as e:
            return f"<dumping raised {e}>".encode()
        return bytes(b.data)


SHAPES: dict[str, list[tuple[str | None, str, int | None]]] = {
    "u32 / u16 / char[4] / struct p": [("a", "u32", None), ("b", "u16", None), ("c", "c4", None), ("s", "p", None)],
    "struct q (nested p) / u32": [("q", "q", None), ("a", "u32", None)],
    "anonymous struct / u32 / u8": [(None, "anon", None), ("a", "u32", None), ("z", "u8", None)],
    "u16 at offset 2 / u32 / struct p at offset 1": [("h", "u16", 2), ("a", "u32", 0), ("s", "p", 1)],
}
# (target path, value): target path is a member name, or member.attr, or member.attr.attr through nested structures
STEPS: dict[str, list[tuple[str, Any]]] = {
    "u32 / u16 / char[4] / struct p": [("b", 0x1234), ("s.x", 9), ("c", b"wxyz"), ("a", 0), ("s.y", 0), ("b", 0)],
    "struct q (nested p) / u32": [("q.in.x", 0x55), ("a", 0x01020304), ("q.t", 7), ("q.in.y", 0)],
    "anonymous struct / u32 / u8": [("lo", 0x11), ("z", 0x22), ("top", 0xBEEF), ("a", 5), ("hi", 0)],
    "u16 at offset 2 / u32 / struct p at offset 1": [("h", 0xAABB), ("s.x", 1), ("a", 0xFFFFFFFF), ("s.y", 0)],
}


def _encode(h: Harness, cls: Sym, path: str, value: Any, old: bytes) -> bytes:
    """Reference: the old buffer with the bytes of the assigned leaf replaced."""
    parts = path.split(".")
    lookup = cls.attrs["lookup"]
    if parts[0] in lookup:
        f = lookup[parts[0]]
        off, t = f.attrs["offset"] or 0, f.attrs["type"]
    else:
        anon = next(f for f in cls.attrs["__fields__"] if f.attrs["name"] is None)
        off, t = anon.attrs["offset"] or 0, anon.attrs["type"]
        parts = [anon.attrs["_name"], *parts]
    for p_ in parts[1:]:
        f = t.attrs["lookup"][p_]
        off, t = off + f.attrs["offset"], f.attrs["type"]
    b = Buf(old)
    b.pos = off
    Types.call(t, "_write", b.sym, value)
    return bytes(b.data)


def _show(b: bytes) -> str:
    return b.decode() if b.startswith(b"<dumping raised") else b.hex()


@disk_cached('unionlife', ('types/structure.py', 'types/base.py'))
def fold_union_life(repo: Repo) -> dict | None:
    try:
        h = Harness(repo)
    except Refused:
        return None
    out: dict = {"cases": 0, "bad": []}
    try:
        for shape, members in SHAPES.items():
            # two values of one union type are independent: parsing a second one leaves the first as it was
            cls = h.union_type(members)
            env = h.env(cls)
            size = cls.attrs["size"]
            img_a, img_b = bytes([0x10, 0x32, 0x54, 0x76])[:size], bytes([0xA1, 0xB2, 0xC3, 0xD4])[:size]
            try:
                first = Evaluator(env, steps=40000).call_user(cls.methods["_read"], [cls, Buf(img_a).sym], {})
                Evaluator(env, steps=40000).call_user(cls.methods["_read"], [cls, Buf(img_b).sym], {})
                out["cases"] += 1
                got, want = h.observed_members(env, first), h.reference_members(cls, img_a)
                if got != want:
                    diff = {k: (got.get(k), want[k]) for k in want if got.get(k) != want[k]}
                    out["bad"].append((f"union {{ {shape} }}: a value parsed from {img_a.hex()}, then another value of the same type parsed from {img_b.hex()}",
                                       f"the first value's members changed (got, reference): {diff}", "two values never share member objects"))
            except Raised:
                pass  # reported by the per-image cases below
            for image in (bytes([0x10, 0x32, 0x54, 0x76]), bytes(4)):
                cls = h.union_type(members)
                env = h.env(cls)
                size = cls.attrs["size"]
                for start in (0, 3):
                    stream = Buf(b"\xee" * start + image[:size] + b"\xdd\xdd")
                    stream.pos = start
                    case = f"union {{ {shape} }} parsed from {image[:size].hex()} at stream position {start}"
                    try:
                        inst = Evaluator(env, steps=40000).call_user(cls.methods["_read"], [cls, stream.sym], {})
                    except Raised as e:
                        out["bad"].append((case, f"parsing raised {e}", ""))
                        continue
                    out["cases"] += 1
                    if stream.pos != start + size:
                        out["bad"].append((case, f"the stream is left at {stream.pos}", f"{start + size} (start + size of the union)"))
                    got, want = h.observed_members(env, inst), h.reference_members(cls, image[:size])
                    if got != want:
                        diff = {k: (got.get(k), want[k]) for k in want if got.get(k) != want[k]}
                        out["bad"].append((case, f"members (got, reference): {diff}", "every member is the parse of its type from the union's bytes"))
                        continue
                    if h.dump(env, cls, inst) != image[:size]:
                        out["bad"].append((case, f"dumps as {_show(h.dump(env, cls, inst))}", image[:size].hex()))
                        continue
                    if start:
                        continue
                    cur = image[:size]
                    for path, value in STEPS[shape]:
                        step = f"{case}, then {path} = {value!r}"
                        parts = path.split(".")
                        try:
                            target = inst
                            for p_ in parts[:-1]:
                                target = env["getattr"].fn(target, p_)
                            h.assign(env, target, parts[-1], value)
                        except Raised as e:
                            out["bad"].append((step, f"raised {e}", "the assignment is stored"))
                            break
                        cur = _encode(h, cls, path, value, cur)
                        out["cases"] += 1
                        got, want = h.observed_members(env, inst), h.reference_members(cls, cur)
                        if got != want:
                            diff = {k: (got.get(k), want[k]) for k in want if got.get(k) != want[k]}
                            out["bad"].append((step, f"members (got, reference): {diff}", f"all members are views of the buffer {cur.hex()}"))
                            break
                        d = h.dump(env, cls, inst)
                        if d != cur:
                            out["bad"].append((step, f"dumps as {_show(d)}", f"{cur.hex()} (the new bytes of that member, the old bytes elsewhere)"))
                            break
                    if len(out["bad"]) > 20:
                        return out
        return out
    except (Refused, Exhausted):
        return None
    except (TypeError, KeyError, IndexError, ValueError, AttributeError):
        return None
