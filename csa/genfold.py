"""Fold of the source-generating compiled reader, in two stages, against the reference layout.

Stage 1  ``compiler.compile(structure)`` is interpreted (whitelist evaluator, nothing of the repository is imported or executed) on a symbolic
         structure whose fields are taken from a table of field kinds.  ``compile`` / ``exec`` / ``classmethod`` are the checker's own stand-ins:
         ``exec`` keeps the source text and the globals the generator hands over.  A generator that gives up (TypeError for an unsupported type,
         caught by the repository's own ``except``) leaves the structure uncompiled - the interpreted reader then serves it and there is nothing
         to compare.
Stage 2  the generated text is parsed and interpreted the same way over an in-memory stream model and model types (struct unpacking, type
         construction, ``T(bytes)`` parsing, pointer construction, the repository's BitBuffer interpreted from its source).

Checked per case (field-kind sequence x packed / aligned x byte order x stream start): every field value is the reference value of the bytes at
its reference position (typed: made with the field's own type; array elements with the element type), nested / dynamic types are read at the
reference position with the in-progress result as context, bit-field units are fetched where the reference opens them, recorded sizes are the
consumed sizes, the stream ends at the reference end, the result object gets ``_sizes`` / ``_values``, and a truncated image raises EOFError.

Because only the *outcome* of the generator is looked at, the fold is indifferent to how compiler.py is organised (closures or methods, helper
functions, names), and decides alone where it applies; the structural rules on the generator's shape remain as the fallback when a rewrite uses a
construct outside the evaluator's whitelist.
"""

from __future__ import annotations

import ast
import itertools
import struct
import textwrap
from typing import Any

from .bbfold import BitBufferModel
from .codecfold import Stream, _struct_host
from .folds import _ref_struct_layout
from .minieval import ClassObj, Evaluator, Exhausted, GenList, Host, Raised, Refused, Sym, UserFunc
from .model import Repo

# ---------------------------------------------------------------------------------------------------------------- the type table
# class tags as the library's hierarchy has them (types/*.py; python's enum.Enum is 'PyEnum')
_TAGS = {
    "Packed": {"BaseType", "Packed"}, "Int": {"BaseType", "Int", "int"}, "Char": {"BaseType", "Char", "bytes"}, "Wchar": {"BaseType", "Wchar", "str"},
    "CharArray": {"BaseType", "BaseArray", "CharArray", "bytes"}, "WcharArray": {"BaseType", "BaseArray", "WcharArray", "str"},
    "Array": {"BaseType", "BaseArray", "Array", "list"}, "Pointer": {"BaseType", "Pointer", "int"}, "Structure": {"BaseType", "Structure"},
    "Enum": {"BaseType", "Enum", "PyEnum", "IntEnum", "int"}, "Flag": {"BaseType", "Flag", "PyEnum", "IntFlag", "int"}, "Void": {"BaseType", "Void"}, "Custom": {"BaseType"},
}
_LIB_CLASSES = ["Array", "BaseType", "Char", "CharArray", "Enum", "Flag", "Int", "Packed", "Pointer", "Structure", "Union", "Void", "Wchar", "WcharArray", "BaseArray",
                "LEB128", "EnumMetaType", "MetaType", "StructureMetaType", "ArrayMetaType"]


def kinds() -> dict[str, dict]:
    k: dict[str, dict] = {
        "u8": {"fam": "Packed", "size": 1, "align": 1, "packchar": "B"}, "u16": {"fam": "Packed", "size": 2, "align": 2, "packchar": "H"},
        "u32": {"fam": "Packed", "size": 4, "align": 4, "packchar": "I"}, "u64": {"fam": "Packed", "size": 8, "align": 8, "packchar": "Q"},
        "i16": {"fam": "Packed", "size": 2, "align": 2, "packchar": "h"}, "f32": {"fam": "Packed", "size": 4, "align": 4, "packchar": "f"},
        "i24": {"fam": "Int", "size": 3, "align": 4, "signed": True},
        "ch": {"fam": "Char", "size": 1, "align": 1}, "wc": {"fam": "Wchar", "size": 2, "align": 2},
        "c5": {"fam": "CharArray", "size": 5, "align": 1, "elem": "ch", "n": 5}, "w3": {"fam": "WcharArray", "size": 6, "align": 2, "elem": "wc", "n": 3},
        "e16": {"fam": "Enum", "size": 2, "align": 2, "enum_of": "u16"}, "fl8": {"fam": "Flag", "size": 1, "align": 1, "enum_of": "u8"},
        "e24": {"fam": "Enum", "size": 3, "align": 4, "enum_of": "i24"},
        "p32": {"fam": "Pointer", "size": 4, "align": 4, "elem": "u8"},
        "p32b": {"fam": "Pointer", "size": 4, "align": 4, "elem": "u32"},  # same layout and generated text as p32, another target type
        "e16b": {"fam": "Enum", "size": 2, "align": 2, "enum_of": "u16"},  # a second enum over the same storage type
        "u16[3]": {"fam": "Array", "size": 6, "align": 2, "elem": "u16", "n": 3}, "i24[2]": {"fam": "Array", "size": 6, "align": 4, "elem": "i24", "n": 2},
        "e16[2]": {"fam": "Array", "size": 4, "align": 2, "elem": "e16", "n": 2}, "e24[2]": {"fam": "Array", "size": 6, "align": 4, "elem": "e24", "n": 2},
        "p32[2]": {"fam": "Array", "size": 8, "align": 4, "elem": "p32", "n": 2}, "f32[2]": {"fam": "Array", "size": 8, "align": 4, "elem": "f32", "n": 2},
        "ch[1]": {"fam": "CharArray", "size": 1, "align": 1, "elem": "ch", "n": 1},
        # served by the type's own _read (model: logged, bytes returned as they are)
        "st": {"fam": "Structure", "size": 4, "align": 4, "host": True}, "st[2]": {"fam": "Array", "size": 8, "align": 4, "elem": "st", "n": 2, "host": True},
        "u8[2][2]": {"fam": "Array", "size": 4, "align": 1, "elem": "u8[2]", "n": 2, "host": True},
        "dyn": {"fam": "Array", "size": None, "align": 1, "elem": "u8", "n": None, "host": True},
        "dyn4": {"fam": "Array", "size": None, "align": 4, "elem": "u32", "n": None, "host": True},
        "dync": {"fam": "CharArray", "size": None, "align": 1, "elem": "ch", "n": None, "host": True},
        "u8[2]": {"fam": "Array", "size": 2, "align": 1, "elem": "u8", "n": 2},
        "c200": {"fam": "CharArray", "size": 200, "align": 1, "elem": "ch", "n": 200},  # a large block
        "cust16": {"fam": "Custom", "size": 2, "align": 2, "host": True},   # a user-defined fixed-size type: not supported by the generator
        "ecust": {"fam": "Enum", "size": 2, "align": 2, "enum_of": "cust16"},   # an enum over it: not supported either
        "cust16[2]": {"fam": "Array", "size": 4, "align": 2, "elem": "cust16", "n": 2, "host": True},  # an array of it: not supported either
        "u8[0]": {"fam": "Array", "size": 0, "align": 1, "elem": "u8", "n": 0}, "u16[0]": {"fam": "Array", "size": 0, "align": 2, "elem": "u16", "n": 0},  # flexible array members
        "void": {"fam": "Void", "size": 0, "align": 1, "optional": True},  # occupies nothing: the generated reader may leave it to the default
    }
    for name, base, bits in [("u8:3", "u8", 3), ("u8:5", "u8", 5), ("u16:4", "u16", 4), ("u16:12", "u16", 12), ("u32:12", "u32", 12), ("e16:4", "e16", 4),
                             ("ch:4", "ch", 4), ("u16:0", "u16", 0), ("i24:4", "i24", 4), ("i24:20", "i24", 20)]:
        k[name] = {**k[base], "bits": bits, "base": base}
        if base == "ch":
            k[name]["storage"] = "ch"
    k["u32@8"] = {**k["u32"], "offset": 8, "base": "u32"}
    k["u8@1"] = {**k["u8"], "offset": 1, "base": "u8"}
    return k


FIELD_KINDS = ["u8", "u16", "u32", "u64", "i16", "f32", "i24", "ch", "wc", "c5", "w3", "e16", "fl8", "e24", "p32", "p32b", "e16b", "u16[3]", "i24[2]", "e16[2]", "e24[2]", "p32[2]",
               "f32[2]", "ch[1]", "void", "cust16", "ecust", "cust16[2]", "u8[0]", "u16[0]", "st", "st[2]", "u8[2][2]", "dyn", "dyn4", "dync", "u8:3", "u8:5", "u16:4", "u16:12", "u32:12", "e16:4", "ch:4", "u16:0", "i24:4", "i24:20", "u32@8", "u8@1"]
LONGER = [("u8", "u32", "u16"), ("u8:3", "u8:5", "u8:3"), ("u16:4", "u16:12", "u16:4"), ("u8", "dyn", "u32", "u8"), ("u8:3", "u16:4", "u8:3", "u32"),
          ("c5", "u64", "u8", "e16:4", "u16:4"), ("u8", "i24", "u8", "u64"), ("u8:3", "dyn4", "u8:3", "u32"), ("u8", "dyn", "u8:3", "u8:5", "u16"),
          ("u32@8", "u8", "u16:4"), ("u16", "u8@1", "u32"), ("u8", "dyn", "u32", "u8", "u64"), ("u8", "u16[3]", "u8", "p32"), ("ch:4", "u8:3", "u8"),
          ("u8", "st", "u8", "u32"), ("u8", "e24[2]", "u8", "i24[2]"), ("u8:3", "u8:5", "u8:3", "u8:5", "u16"), ("wc", "u8", "w3", "u32"),
          ("u8", "u8", "u8", "u32", "u8", "u64", "u16"), ("dyn", "i24:4", "i24:4", "u8"), ("dyn", "i24:4", "i24:20", "i24:4", "u8"), ("dyn", "u8:3", "u8:5", "u8:3", "u16"),
          ("dyn4", "u16:4", "u16:12", "u16:4", "u32"), ("c200",), ("u8", "c200", "u32"),
          ("dyn", "u32", "u8", "u16", "u32"), ("dyn", "u8", "u16", "u8", "u32"), ("dyn", "u8", "u32", "u8", "u64"), ("u8", "dyn", "u16", "u8", "u32", "u8"), ("u16", "u32", "u16"),
          ("u8", "u16", "u32", "u8"), ("u16:4", "st", "u16:4", "u8"), ("u32", "u8@1", "u8"), ("u8", "ecust", "u8"), ("ecust", "u16"), ("u8", "cust16[2]", "u8"), ("i24", "u8[0]"), ("i24", "ch", "u16[0]"), ("c5", "u8[0]", "u8")]


def base_of(name: str) -> str:
    return name.split(":")[0].split("@")[0]


def decode(kname: str, raw: bytes, endian: str, table: dict[str, dict]) -> Any:
    """Reference value of the bytes of one field, tagged with the type that must have made it."""
    k = table[kname]
    fam = k["fam"]
    order = "little" if endian == "<" else "big"
    if k.get("host"):
        return (kname, bytes(raw))
    if fam == "Packed":
        return (kname, struct.unpack(endian + k["packchar"], raw)[0])
    if fam == "Int":
        return (kname, int.from_bytes(raw, order, signed=bool(k.get("signed"))))
    if fam in ("Char", "CharArray", "Void"):
        return (kname, bytes(raw))
    if fam in ("Wchar", "WcharArray"):
        return (kname, raw.decode("utf-16-le" if endian == "<" else "utf-16-be"))
    if fam in ("Enum", "Flag"):
        return (kname, decode(k["enum_of"], raw, endian, table)[1])
    if fam == "Pointer":
        return ("ptr", kname, int.from_bytes(raw, order), True, True)
    if fam == "Array":
        es = table[k["elem"]]["size"]
        return (kname, [decode(k["elem"], raw[i * es:(i + 1) * es], endian, table) for i in range(k["n"])])
    raise AssertionError(kname)


class Harness:
    """Module environment of compiler.py for the evaluator plus the stand-ins it needs."""

    def __init__(self, repo: Repo):
        self.repo = repo
        self.table = kinds()
        self.bb = BitBufferModel(repo)
        self.classes = {n: Sym(f"class:{n}") for n in _LIB_CLASSES}
        self.classes["PyEnum"] = Sym("class:PyEnum")
        # what a fallback may install: classmethod(Structure._read.__func__) - the plain function, re-bound to the structure it is installed on
        self.classes["Structure"].attrs["_read"] = Sym("Structure._read (bound to the Structure base class)", {"__func__": Sym("Structure._read.__func__")})
        self.captured: list[tuple[str, dict]] = []
        self.cs_objects: dict[str, Sym] = {}
        self.mod = repo.module("compiler.py")
        self.entry = repo.func("compiler.py", "compile")

    # ------------------------------------------------------------------ stand-ins for builtins
    def _tags(self, t: Any) -> set[str]:
        if isinstance(t, Sym) and "tags" in t.attrs.get("__model__", {}):
            return t.attrs["__model__"]["tags"]
        raise TypeError("issubclass() arg 1 must be a class")

    def _issubclass(self, t: Any, k: Any) -> bool:
        tags = self._tags(t)
        ks = k if isinstance(k, tuple) else (k,)
        for c in ks:
            if isinstance(c, tuple):
                if self._issubclass(t, c):
                    return True
                continue
            if isinstance(c, Sym) and c.label.startswith("class:"):
                if c.label[6:] in tags:
                    return True
            elif isinstance(c, type):
                if c.__name__ in tags:
                    return True
            elif isinstance(c, Sym) and "__model__" in c.attrs:
                if c is t:
                    return True
            else:
                raise TypeError("issubclass() arg 2 must be a class or tuple of classes")
        return False

    def _isinstance(self, o: Any, k: Any) -> bool:
        ks = k if isinstance(k, tuple) else (k,)
        for c in ks:
            if isinstance(c, Sym) and c.label.startswith("class:"):
                meta = o.attrs.get("__model__", {}).get("meta") if isinstance(o, Sym) else None
                if meta is not None and (c.label[6:] == meta or c.label[6:] == "MetaType"):
                    return True
            elif isinstance(c, type):
                if isinstance(o, c) and not isinstance(o, (Sym, GenList)):
                    return True
                if c is type and isinstance(o, Sym) and "__model__" in o.attrs:
                    return True
            else:
                raise Refused("isinstance against an unknown class")
        return False

    @staticmethod
    def _len(o: Any) -> int:
        if isinstance(o, Sym):
            m = o.attrs.get("__model__")
            if m is None or "size" not in m:
                raise Refused(f"len of {o}")
            if m["size"] is None:
                raise TypeError("Dynamic size")
            return m["size"]
        return len(o)

    @staticmethod
    def _getattr(o: Any, name: str, *default: Any) -> Any:
        if not isinstance(o, Sym):
            raise Refused("getattr on a non-symbolic object")
        if name in o.attrs:
            return o.attrs[name]
        if name in o.methods:
            return ("symmethod", o, name)
        if default:
            return default[0]
        raise AttributeError(name)

    def _compile(self, source: Any, filename: Any = "", mode: Any = "exec", *a: Any, **kw: Any) -> Any:
        if not isinstance(source, str):
            raise TypeError("compile() arg 1 must be a string")
        try:
            ast.parse(source)
        except SyntaxError as e:
            raise ValueError(f"SyntaxError: {e}") from e
        return ("code", source)

    def _exec(self, code: Any, globs: dict | None = None, locs: dict | None = None) -> None:
        source = code[1] if isinstance(code, tuple) and code and code[0] == "code" else code
        if not isinstance(source, str):
            raise Refused("exec of something that is not source text")
        try:
            tree = ast.parse(source)
        except SyntaxError as e:
            raise ValueError(f"SyntaxError: {e}") from e
        if globs is None:
            raise Refused("exec without explicit globals")
        target = locs if locs is not None else globs
        for st in tree.body:
            if isinstance(st, ast.FunctionDef):
                fn = Sym(f"compiled:{st.name}", {"__name__": st.name})
                fn.strict = True
                fn.node, fn.globals, fn.source = st, globs, source
                target[st.name] = fn
            else:
                raise Refused("generated module has statements besides function definitions")

    # ------------------------------------------------------------------ module environment
    def provide(self, module: str, name: str) -> Any:
        if module == "enum":
            return {"Enum": self.classes["PyEnum"], "IntEnum": Sym("class:IntEnum"), "IntFlag": Sym("class:IntFlag"), "Flag": Sym("class:PyFlag")}.get(name)
        if module == "textwrap":
            return {"dedent": textwrap.dedent, "indent": textwrap.indent}.get(name)
        if module.startswith("dissect.cstruct"):
            if name == "BitBuffer":
                return Host(self._bitbuffer)
            if name == "_struct":
                return Host(lambda endian, fmt: _struct_host(f"{endian}{fmt}"))
            if name in self.classes:
                return self.classes[name]
        return None

    def _bitbuffer(self, stream: Any, endian: Any) -> Sym:
        bb = self.bb.buffer(endian)
        bb.attrs["stream"] = stream
        return bb

    def module_env(self) -> dict[str, Any]:
        def string_io(initial: str = "") -> Sym:
            buf = [initial]
            return Sym("StringIO", {}, {"write": Host(lambda t: (buf.append(t), len(t))[1]), "getvalue": Host(lambda: "".join(buf)),
                                        "writelines": Host(lambda ls: buf.extend(ls))})

        io_sym = Sym("io", {"SEEK_CUR": 1, "SEEK_SET": 0, "SEEK_END": 2}, {"StringIO": Host(string_io)})
        log = Sym("log", {}, {m: Host(lambda *a, **k: None) for m in ("debug", "info", "warning", "error", "exception", "log")})
        env: dict[str, Any] = dict(self.bb.base_env)
        env.update({
            "isinstance": Host(self._isinstance), "issubclass": Host(self._issubclass), "len": Host(self._len), "getattr": Host(self._getattr),
            "hasattr": Host(lambda o, n: isinstance(o, Sym) and (n in o.attrs or n in o.methods)),
            "compile": Host(self._compile), "exec": Host(self._exec), "classmethod": Host(lambda f: f), "staticmethod": Host(lambda f: f),
            "__name__": "dissect.cstruct.compiler", "TYPE_CHECKING": False,
            "int": int, "str": str, "bytes": bytes, "list": list, "tuple": tuple, "dict": dict, "type": type,
        })
        modules = {"io": io_sym, "logging": Sym("logging", {"DEBUG": 10}, {"getLogger": Host(lambda *a: log)}),
                   "textwrap": Sym("textwrap", {}, {"dedent": Host(textwrap.dedent), "indent": Host(textwrap.indent)}),
                   "struct": Sym("struct", {}, {"Struct": Host(_struct_host), "calcsize": Host(struct.calcsize)}),
                   "enum": Sym("enum", {"Enum": self.classes["PyEnum"]})}
        ev = Evaluator(env, steps=20000)
        for st in self.mod.tree.body:
            if isinstance(st, ast.Import):
                for al in st.names:
                    nm = al.asname or al.name.split(".")[0]
                    if al.name in modules:
                        env[nm] = modules[al.name]
            elif isinstance(st, ast.ImportFrom):
                for al in st.names:
                    v = self.provide(st.module or "", al.name)
                    if v is None and st.module and f"{st.module}.{al.name}".endswith(".types"):
                        v = Sym("types", dict(self.classes))
                    if v is not None:
                        env[al.asname or al.name] = v if not callable(v) or isinstance(v, (Host, Sym)) else Host(v)
            elif isinstance(st, ast.FunctionDef):
                env[st.name] = UserFunc(st, env)
            elif isinstance(st, ast.ClassDef):
                env[st.name] = ClassObj(st, env)
            elif isinstance(st, (ast.Assign, ast.AnnAssign)):
                try:
                    ev.steps = 20000
                    ev.run([st], env)
                except (Refused, Raised):
                    pass
        return env

    # ------------------------------------------------------------------ model types
    def make_types(self, names: set[str], log: list, stream_of, endian: str, ctx_names) -> dict[str, Sym]:
        table = self.table
        types: dict[str, Sym] = {}
        order = "little" if endian == "<" else "big"

        def build(name: str) -> Sym:
            if name in types:
                return types[name]
            k = table[name]
            fam = k["fam"]
            size = k["size"]
            model = {"tags": _TAGS[fam], "size": size, "meta": "EnumMetaType" if fam in ("Enum", "Flag") else ("StructureMetaType" if fam == "Structure" else "MetaType"),
                     "kind": name}
            attrs: dict[str, Any] = {"size": size, "alignment": k["align"], "__name__": name, "__model__": model, "dynamic": size is None}
            if "packchar" in k:
                attrs["packchar"] = k["packchar"]
            if fam == "Int":
                attrs["signed"] = bool(k.get("signed"))
            if k.get("elem"):
                attrs["type"] = build(k["elem"])
            if fam in ("Array", "CharArray", "WcharArray"):
                attrs["num_entries"] = k["n"]
                attrs["null_terminated"] = False
            if k.get("enum_of"):
                attrs["type"] = build(k["enum_of"])
            t = Sym(f"type:{name}", attrs)
            t.strict = True

            def read(stream, context=None, name=name, size=size, k=k):
                st: Stream = stream_of(stream)
                start = st.pos
                if size is None:
                    if st.pos >= len(st.data):
                        raise EOFError("short")
                    n = st.data[st.pos]
                    raw = st.data[st.pos:st.pos + 1 + n]
                    if len(raw) != 1 + n:
                        raise EOFError("short")
                else:
                    raw = st.data[st.pos:st.pos + size]
                    if len(raw) != size:
                        raise EOFError("short")
                st.pos += len(raw)
                log.append(("read", name, start, ctx_names(context)))
                if k.get("host"):
                    return (name, bytes(raw))
                if k["fam"] == "Char":
                    return bytes(raw)  # the bit buffer turns a char unit into an integer itself
                v = decode(name, raw, endian, table)
                return v[1] if k["fam"] in ("Packed", "Int") else v

            def call(*args, **kw):
                if len(args) != 1 or kw:
                    raise Refused(f"{name}(...) with {len(args)} arguments")
                x = args[0]
                if isinstance(x, Sym) and "read" in x.methods:
                    return read(x)
                if isinstance(x, (bytes, bytearray, memoryview)):
                    x = bytes(x)
                    if "bytes" in _TAGS[fam] and len(x) == size:
                        return made(t, x)
                    if size is None:
                        raise Refused("parsing a dynamic type from bytes")
                    if len(x) < size:
                        raise EOFError("short")
                    v = decode(name, x[:size], endian, table)
                    return v
                return made(t, x)

            def new(cls_, value, *extra):
                return made(cls_, value, *extra)

            t.methods.update({"_read": Host(read), "__new__": Host(new), "__default__": Host(lambda: 0)})
            t.call = Host(call)
            types[name] = t
            return t

        def made(T: Any, v: Any, *extra: Any) -> Any:
            if not (isinstance(T, Sym) and "__model__" in T.attrs):
                raise Refused("type.__call__ on something that is not a model type")
            kname = T.attrs["__model__"]["kind"]
            fam = table[kname]["fam"]
            if fam == "Pointer":
                st_ok = bool(extra) and isinstance(extra[0], Sym) and "read" in extra[0].methods
                ctx_ok = len(extra) > 1 and isinstance(extra[1], dict) and ctx_names(extra[1]) is not None
                return ("ptr", kname, v, st_ok, ctx_ok) if isinstance(v, int) and not isinstance(v, bool) else ("BAD", kname, repr(v))
            if extra:
                return ("BAD", kname, f"extra constructor arguments {extra!r}"[:60])
            want: tuple = {"Packed": (float,) if table[kname].get("packchar") in ("e", "f", "d") else (int,), "Int": (int,), "Enum": (int,), "Flag": (int,),
                           "Char": (bytes,), "CharArray": (bytes,), "Wchar": (str,), "WcharArray": (str,), "Array": (list,), "Structure": (), "Void": (), "Custom": ()}[fam]
            if not isinstance(v, want) or isinstance(v, bool):
                return ("BAD", kname, f"{type(v).__name__} {v!r}"[:60])
            return (kname, v)

        for n in names:
            build(n)
        self._made = made
        return types


class Case:
    """Reference image / expectations for one (sequence, align, start, endian)."""

    def __init__(self, table: dict[str, dict], seq: tuple[str, ...], align: bool, start: int, endian: str):
        self.ok = False
        ks = [table[n] for n in seq]
        ref = _ref_struct_layout([{**k, "size": k["size"], "align": k["align"]} for k in ks], align)
        if ref == "raise":
            return
        self.size, self.alignment, self.offs = ref
        order = "little" if endian == "<" else "big"
        image = bytearray(start)
        pos = start
        self.expect_reads: list[tuple[str, int]] = []
        self.expect_vals: dict[str, Any] = {}
        self.expect_sizes: dict[str, int] = {}
        self.raw_at: list[tuple[int, int]] = []
        unit: dict | None = None
        units: list[dict] = []
        fill = itertools.count(0x11)

        def ensure(n: int) -> None:
            if len(image) < n:
                image.extend(b"\x00" * (n - len(image)))

        for i, (n, k) in enumerate(zip(seq, ks)):
            base = base_of(n)
            storage = k.get("storage") or k.get("enum_of") or base
            if k.get("bits"):
                if unit is None or unit["type"] != storage or unit["remaining"] == 0:
                    if self.offs[i] is not None:
                        pos = start + self.offs[i]
                    elif align:
                        pos += -pos & (k["align"] - 1)
                    total = k["size"] * 8
                    unit = {"type": storage, "at": pos, "remaining": total, "total": total, "used": 0, "size": k["size"], "fields": []}
                    units.append(unit)
                    self.expect_reads.append((storage, pos))
                    self.raw_at.append((pos, k["size"]))
                    pos += k["size"]
                v = (next(fill) * 13) & ((1 << k["bits"]) - 1) or 1
                unit["fields"].append((unit["used"], k["bits"], v))
                unit["used"] += k["bits"]
                unit["remaining"] -= k["bits"]
                self.expect_vals[f"f{i}"] = ("bits", base if k["fam"] in ("Enum", "Flag") else None, v)
                continue
            unit = None
            if self.offs[i] is not None:
                pos = start + self.offs[i]
            elif align:
                pos += -pos & (k["align"] - 1)
            if k["size"] is None:
                raw = bytes([3]) + bytes((next(fill) + j) & 0xFF for j in range(3))
            elif k["fam"] in ("Wchar", "WcharArray"):
                raw = "".join(chr(0x41 + (next(fill) + j) % 26) for j in range(k["size"] // 2)).encode("utf-16-le" if endian == "<" else "utf-16-be")
            elif k.get("packchar") == "f" or table.get(k.get("elem") or "", {}).get("packchar") == "f":
                raw = b"".join(struct.pack(endian + "f", float((next(fill) % 7) + 0.5 + j)) for j in range(k["size"] // 4))
            else:
                raw = bytes((next(fill) * 29 + j * 7) & 0xFF or 1 for j in range(k["size"]))
            ensure(pos + len(raw))
            image[pos:pos + len(raw)] = raw
            if k.get("host"):
                self.expect_reads.append((base, pos))
            self.raw_at.append((pos, len(raw)))
            self.expect_vals[f"f{i}"] = decode(base, raw, endian, table)
            self.expect_sizes[f"f{i}"] = len(raw)
            pos += len(raw)
        high = start
        overlap = False
        for p_, ln in self.raw_at:
            if p_ < high and ln:
                overlap = True
            if ln:
                high = max(high, p_ + ln)
        for u in units:
            val = 0
            for used, bits, v in u["fields"]:
                val |= v << (used if endian == "<" else u["total"] - used - bits)
            ensure(u["at"] + u["size"])
            image[u["at"]:u["at"] + u["size"]] = val.to_bytes(u["size"], order)
        if overlap:
            # explicit offsets that overlay an earlier field or move backwards: every field is what the final image holds at its own position
            if any(k["size"] is None or k["fam"] in ("Wchar", "WcharArray") or "f32" in n for n, k in zip(seq, ks)):
                return  # a clobbered length byte / surrogate / NaN would need its own reference: outside this fold
            ui = 0
            pos2 = iter(self.raw_at)
            unit = None
            for i, (n, k) in enumerate(zip(seq, ks)):
                base = base_of(n)
                if k.get("bits"):
                    storage = k.get("storage") or k.get("enum_of") or base
                    if unit is None or unit["type"] != storage or unit["remaining2"] == 0:
                        unit = units[ui]
                        ui += 1
                        next(pos2)
                        unit["remaining2"] = unit["total"]
                        unit["used2"] = 0
                        unit["value2"] = int.from_bytes(image[unit["at"]:unit["at"] + unit["size"]], order)
                    off_ = unit["used2"]
                    v = (unit["value2"] >> (off_ if endian == "<" else unit["total"] - off_ - k["bits"])) & ((1 << k["bits"]) - 1)
                    unit["used2"] += k["bits"]
                    unit["remaining2"] -= k["bits"]
                    self.expect_vals[f"f{i}"] = ("bits", base if k["fam"] in ("Enum", "Flag") else None, v)
                    continue
                unit = None
                p_, ln = next(pos2)
                self.expect_vals[f"f{i}"] = decode(base, bytes(image[p_:p_ + ln]), endian, table)
        self.data_end = high
        end = pos
        if align and self.alignment:
            end += -end & (self.alignment - 1)
        ensure(end)
        self.end = end
        self.image = bytes(image) + b"\xee\xee\xee"
        self.ok = True


def generate(h: Harness, env: dict[str, Any], seq: tuple[str, ...], align: bool, pointer: str, types: dict[str, Sym]) -> tuple[Any, Sym, list[Sym]] | None:
    """Stage 1: interpret compile(structure); returns (compiled function symbol | None, structure symbol, fields)."""
    table = h.table
    ks = [table[n] for n in seq]
    ref = _ref_struct_layout(ks, align)
    if ref == "raise":
        return None
    size, alignment, offs = ref
    fields = []
    for i, (n, k) in enumerate(zip(seq, ks)):
        f = Sym(f"field{i}", {"_name": f"f{i}", "name": f"f{i}", "type": types[base_of(n)], "bits": k.get("bits"), "offset": offs[i], "alignment": k["align"]})
        f.strict = True
        fields.append(f)
    # one cstruct object per pointer configuration for the whole fold: whatever the generator keeps on it (or in its module) between two
    # structures is kept here as well, so a reader handed out again for a different structure shows in that structure's values
    cs = h.cs_objects.get(pointer)
    if cs is None:
        cs = h.cs_objects[pointer] = Sym(f"cs:{pointer}", {"endian": "<", "pointer": types[pointer], "uint8": types["u8"], "__dict__": {}}, {"resolve": Host(lambda t: t)})
        cs.strict = True
    cs.attrs["align"] = align
    for t_ in types.values():
        t_.attrs["cs"] = cs  # every type belongs to the cstruct object
    structure = Sym("S", {"__fields__": fields, "fields": {f.attrs["name"]: f for f in fields}, "__align__": align, "alignment": alignment, "size": size, "cs": cs,
                          "__name__": "S", "__compiled__": False, "__model__": {"tags": {"BaseType", "Structure"}, "size": size, "meta": "StructureMetaType", "kind": "S"},
                          "dynamic": size is None})
    structure.strict = True
    Evaluator(env, steps=150000).call_user(UserFunc(h.entry.node, env), [structure], {})
    fn = structure.attrs.get("_read") if structure.attrs.get("__compiled__") else None
    if fn is not None and not (isinstance(fn, Sym) and hasattr(fn, "node")):
        raise Refused("compile() stored something else than the executed function as _read")
    if fn is not None:
        fn.shared = sorted(k_ for k_, v in fn.globals.items() if isinstance(v, (list, dict, set, bytearray)) or (isinstance(v, Sym) and v.label == "bitbuffer"))
    return fn, structure, fields


def run_compiled(h: Harness, fn: Sym, seq: tuple[str, ...], align: bool, start: int, endian: str, pointer: str) -> list[str]:
    """Stage 2: interpret the generated function on the reference image; complaints (empty = agrees)."""
    table = h.table
    case = Case(table, seq, align, start, endian)
    if not case.ok:
        return []
    log: list = []
    streams: dict[int, Stream] = {}
    state: dict[str, Any] = {}

    def stream_of(sym) -> Stream:
        if id(sym) not in streams:
            raise Refused("a type was asked to read from something that is not the parse stream")
        return streams[id(sym)]

    def ctx_names(ctx):
        return tuple(sorted(ctx)) if isinstance(ctx, dict) else None

    names = {base_of(n) for n in seq} | {"u8", pointer}
    types = h.make_types(names, log, stream_of, endian, ctx_names)
    made = h._made
    # the globals the generator handed to exec refer to the stage-1 types: same labels, rebuilt here with readers bound to this run's stream
    globs: dict[str, Any] = {}
    for k_, v in fn.globals.items():
        if isinstance(v, Sym) and v.label.startswith("type:"):
            globs[k_] = types.get(v.label[5:]) or h.make_types({v.label[5:]}, log, stream_of, endian, ctx_names)[v.label[5:]]
        else:
            globs[k_] = v
    cs = Sym("cs", {"endian": endian, "pointer": types[pointer], "uint8": types["u8"]}, {"resolve": Host(lambda t: t)})
    for t_ in [*types.values(), *[v for v in globs.values() if isinstance(v, Sym) and v.label.startswith("type:")]]:
        t_.attrs["cs"] = cs
    ks = [table[n] for n in seq]
    cls = Sym("S", {"alignment": case.alignment, "size": case.size, "cs": cs, "__align__": align, "__name__": "S"})

    def type_call(c, *a, **kw):
        if c is cls:
            if a:
                raise Refused("positional construction of the result")
            state["values"] = dict(kw)
            return Sym("obj", {"__made_by__": "type.__call__"})
        return made(c, *a, **kw)

    def run_on(data: bytes) -> tuple[str, Any]:
        log.clear()
        state.clear()
        st = Stream(data)
        st.pos = start
        ssym = st.sym()
        streams.clear()
        streams[id(ssym)] = st
        env = dict(h.bb.base_env)
        env.update({"len": Host(Harness._len), "isinstance": Host(h._isinstance), "issubclass": Host(h._issubclass), "getattr": Host(Harness._getattr)})
        env.update(globs)
        env["type"] = Sym("type", {}, {"__call__": Host(type_call)})
        try:
            obj = Evaluator(env, steps=60000).call_user(UserFunc(fn.node, env), [cls, ssym], {})
        except Raised as e:
            return ("raise", str(e))
        except EOFError as e:
            return ("raise", f"EOFError: {e}")
        except (struct.error, UnicodeDecodeError) as e:
            return ("raise", f"{type(e).__name__}: {e}")
        except Refused as e:
            # a name the generated function reads that is neither one of its globals nor a Python builtin: Python raises NameError / UnboundLocalError
            import builtins
            import re as _re

            m = _re.match(r"unknown name (\w+)$", str(e))
            if m and not hasattr(builtins, m.group(1)):
                return ("raise", f"NameError: name '{m.group(1)}' is not defined in the generated reader")
            raise
        return ("ok", (obj, st.pos))

    out: list[str] = []
    if getattr(fn, "shared", None):
        return [f"[shared] the generated reader's globals hold mutable per-parse state {fn.shared} created once at compile time: every parse of the type (nested, re-entrant, "
                "from another thread) shares it, the interpreted reader creates its state per call"]
    kind, res = run_on(case.image)
    if kind == "raise":
        return [f"[raise] generated reader raised {res}"]
    obj, endpos = res
    got_reads = [(b, p) for op, b, p, _c in log if op == "read"]
    if got_reads != case.expect_reads:
        out.append(f"[fetch] nested / dynamic types and bit-field units fetched at (type, absolute position) {got_reads}, reference {case.expect_reads}")
    # context handed to nested readers: the in-progress result with every earlier (non-skipped) field
    vals = state.get("values")
    if vals is None:
        return out + ["[result] the generated reader does not build its result with type.__call__(cls, **values)"]
    got_vals = {}
    for k_, v in vals.items():
        want = case.expect_vals.get(k_)
        if isinstance(want, tuple) and want and want[0] == "bits":
            # a bit-field is an integer made with the storage type (or plain int); an enum bit-field is a member of the enum
            if isinstance(v, tuple) and len(v) == 2 and (want[1] is None or v[0] == want[1]) and (want[1] is not None or table[v[0]]["fam"] in ("Packed", "Int")):
                got_vals[k_] = ("bits", want[1], v[1])
            elif isinstance(v, int) and want[1] is None:
                got_vals[k_] = ("bits", None, v)
            else:
                got_vals[k_] = v
        else:
            got_vals[k_] = v
    optional = {f"f{i}" for i, n in enumerate(seq) if table[n].get("optional")}
    for k_ in optional:
        if k_ not in got_vals:
            got_vals[k_] = case.expect_vals[k_]
        if isinstance(obj, Sym) and isinstance(obj.attrs.get("_sizes"), dict):
            obj.attrs["_sizes"] = {**obj.attrs["_sizes"], k_: obj.attrs["_sizes"].get(k_, 0)}
    if got_vals != case.expect_vals:
        diff = {k_: (got_vals.get(k_), case.expect_vals.get(k_)) for k_ in sorted(set(got_vals) | set(case.expect_vals)) if got_vals.get(k_) != case.expect_vals.get(k_)}
        out.append(f"[values] values differ (got, reference): {diff}")
    if endpos != case.end:
        out.append(f"[end] the generated reader leaves the stream at {endpos}, reference {case.end}")
    sizes = obj.attrs.get("_sizes") if isinstance(obj, Sym) else None
    if sizes != case.expect_sizes:
        out.append(f"[sizes] recorded sizes {sizes}, reference {case.expect_sizes}")
    if isinstance(obj, Sym) and obj.attrs.get("_values") != vals and not optional:
        out.append("[result] the result object's _values is not the dict of parsed values")
    host_fields = [i for i, n in enumerate(seq) if table[n].get("host")]
    for (op, b, p, ctx), i in zip([l_ for l_ in log if l_[0] == "read" and table[l_[1]].get("host")], host_fields):
        want_ctx = tuple(sorted(f"f{j}" for j in range(i)))
        opt_ = {f"f{j}" for j in range(i) if table[seq[j]].get("optional")}
        if ctx is None or set(ctx) - opt_ != set(want_ctx) - opt_:
            out.append(f"[context] field f{i} ({b}) is read with context {ctx}, the interpreted reader passes the in-progress result {want_ctx}")
            break
    if out:
        return out
    # truncated input: the image cut inside the last data byte must raise EOFError
    if case.data_end > start:
        kind, res = run_on(case.image[:case.data_end - 1])
        if kind != "raise" or not str(res).startswith("EOFError"):
            out.append(f"[eof] on an image cut one byte short the generated reader {'returns a result' if kind == 'ok' else 'raises ' + str(res)[:60]}, the interpreted reader raises EOFError")
    return out


TRIPLE_KINDS = ["u8", "u32", "c5", "st", "dyn", "void", "u8:3", "u8:5", "u16:4", "u16:12", "u32:12", "e16:4", "i24:4", "i24:20", "ch:4"]


def sequences(max_len: int) -> list[tuple[str, ...]]:
    """Every sequence of up to min(max_len, 2) kinds, every triple over the reduced list (bit-field runs and what may interrupt them), at
    max_len 4 every quadruple over a list reduced further, and a fixed set of longer ones."""
    seqs: list[tuple[str, ...]] = [()]
    for n in range(1, min(max_len, 2) + 1):
        seqs += list(itertools.product(FIELD_KINDS, repeat=n))
    if max_len >= 2:
        seqs += list(itertools.product(TRIPLE_KINDS, repeat=3))
    if max_len >= 2:
        seqs += [q_ for q_ in itertools.product(["u8", "u32", "dyn", "u8:3", "u16:4", "u16:12", "i24:4"], repeat=4) if sum(":" in k_ for k_ in q_) >= 2]
    if max_len >= 3:
        seqs += [t_ for t_ in itertools.product(FIELD_KINDS, repeat=3) if not all(k_ in TRIPLE_KINDS for k_ in t_) and sum(k_ in TRIPLE_KINDS for k_ in t_) >= 2]
    if max_len >= 4:
        seqs += [q_ for q_ in itertools.product(["u8", "st", "dyn", "u8:3", "u8:5", "u16:4", "u16:12", "i24:4", "u32", "e16:4"], repeat=4) if sum(":" in k_ for k_ in q_) < 2 or "st" in q_ or "u8:5" in q_ or "e16:4" in q_]
    t = kinds()
    seqs += [s for s in LONGER if all(n in t for n in s)]
    return seqs


def _fold_chunk(h: Harness, env: dict[str, Any], gen_types: dict[str, Sym], seqs: list[tuple[str, ...]]) -> dict:
    out: dict = {"cases": 0, "generated": 0, "compiled": 0, "bad": [], "refused": None}
    for seq in seqs:
        for align in (False, True):
            pointers = ["u32"] + (["i24"] if any("p32" in n for n in seq) and len(seq) == 1 else [])
            for pointer in pointers:
                out["generated"] += 1
                try:
                    g = generate(h, env, seq, align, pointer, gen_types)
                except Raised as e:
                    out["bad"].append((list(seq), "aligned" if align else "packed", "-", "-", f"[raise] compile() itself raised {e} (the repository catches generator errors and falls back)"))
                    continue
                if g is not None and g[0] is None:
                    # not compiled: the structure keeps the reader it had, or gets the interpreted one re-bound to itself
                    left = g[1].attrs.get("_read")
                    if left is not None and not (isinstance(left, Sym) and left.label == "Structure._read.__func__"):
                        out["bad"].append((list(seq), "aligned" if align else "packed", "-", "-",
                                           f"[raise] a structure that cannot be compiled is left with {left!r} as its reader instead of the interpreted reader bound to itself "
                                           "(classmethod(Structure._read.__func__)): reading it fails or reads as another class"))
                    if g[1].attrs.get("__compiled__"):
                        out["bad"].append((list(seq), "aligned" if align else "packed", "-", "-", "[raise] a structure that was not compiled is flagged __compiled__"))
                if g is None or g[0] is None:
                    continue
                out["compiled"] += 1
                fn = g[0]
                for endian, start in (("<", 0), ("<", 3), (">", 16)) if len(seq) > 1 else (("<", 0), ("<", 3), (">", 0), (">", 16)):
                    out["cases"] += 1
                    complaints = run_compiled(h, fn, seq, align, start, endian, pointer)
                    for c_ in complaints[:3]:
                        if len(out["bad"]) < 400:
                            out["bad"].append((list(seq), "aligned" if align else "packed", f"endian {endian}", f"stream at {start}", c_))
    return out


_WORK: dict[str, Any] = {}


def _worker(idx: int) -> dict:
    try:
        return _fold_chunk(_WORK["h"], _WORK["env"], _WORK["gen_types"], _WORK["chunks"][idx])
    except (Refused, Exhausted) as e:
        return {"cases": 0, "generated": 0, "compiled": 0, "bad": [], "refused": str(e)}
    except (TypeError, KeyError, IndexError, ValueError, AttributeError, AssertionError) as e:
        return {"cases": 0, "generated": 0, "compiled": 0, "bad": [], "refused": f"{type(e).__name__}: {e}"}


def fold_compiled(repo: Repo, max_len: int = 2, only: list[tuple[str, ...]] | None = None, jobs: int | None = None) -> dict | None:
    """{'cases', 'compiled', 'bad': [(seq, mode, endian, start, complaint)]} or None when the generator is outside the evaluator's whitelist."""
    import os

    out: dict = {"cases": 0, "generated": 0, "compiled": 0, "bad": [], "refused": None}
    cache_file = _cache_file(repo, max_len) if only is None else None
    if cache_file and os.path.exists(cache_file):
        try:
            import json

            with open(cache_file) as fh:
                got = json.load(fh)
            if got is None or isinstance(got, dict):
                if isinstance(got, dict):
                    got["from_cache"] = True
                return got
        except (OSError, ValueError):
            pass
    res = _fold_compiled(repo, max_len, only, jobs)
    if cache_file:
        try:
            import json

            os.makedirs(os.path.dirname(cache_file), exist_ok=True)
            tmp = f"{cache_file}.{os.getpid()}"
            with open(tmp, "w") as fh:
                json.dump(res, fh)
            os.replace(tmp, cache_file)
        except OSError:
            pass
    return res


def _cache_file(repo: Repo, max_len: int) -> str | None:
    """Results are a function of the consulted sources (compiler.py, bitbuffer.py) and of this checker's own code: an accelerator keyed by their
    digest (disable with CSA_FOLD_CACHE=0); nothing is reused across different contents."""
    import glob
    import hashlib
    import os
    import tempfile

    where = os.environ.get("CSA_FOLD_CACHE", "")
    if where == "0":
        return None
    hsh = hashlib.sha256()
    for rel in ("compiler.py", "bitbuffer.py"):
        hsh.update(repo.module(rel).source.encode())
    for f in sorted(glob.glob(os.path.join(os.path.dirname(__file__), "*.py"))):
        with open(f, "rb") as fh:
            hsh.update(fh.read())
    hsh.update(str(max_len).encode())
    base = where or os.path.join(tempfile.gettempdir(), f"csa_fold_cache_{os.getuid()}")
    return os.path.join(base, f"compiled_{hsh.hexdigest()[:24]}.json")


def _fold_compiled(repo: Repo, max_len: int, only: list[tuple[str, ...]] | None, jobs: int | None) -> dict | None:
    import os

    out: dict = {"cases": 0, "generated": 0, "compiled": 0, "bad": [], "refused": None}
    try:
        h = Harness(repo)
        env = h.module_env()
        gen_types = h.make_types(set(h.table) - {n for n in h.table if ":" in n or "@" in n}, [], lambda s: (_ for _ in ()).throw(Refused("read during generation")), "<",
                                 lambda c: None)
        seqs = only if only is not None else sequences(max_len)
        jobs = jobs if jobs is not None else int(os.environ.get("CSA_FOLD_JOBS", "0") or 0) or min(16, os.cpu_count() or 1)
        import multiprocessing as _mp

        if _mp.current_process().daemon:
            jobs = 1  # inside a worker of the self-test pool: no nested pools
        if jobs <= 1 or len(seqs) < 64:
            parts = [_fold_chunk(h, env, gen_types, seqs)]
        else:
            import multiprocessing as mp

            n = jobs * 4
            _WORK.update({"h": h, "env": env, "gen_types": gen_types, "chunks": [seqs[i::n] for i in range(n)]})
            try:
                with mp.get_context("fork").Pool(jobs) as pool:
                    parts = pool.map(_worker, range(n))
            finally:
                _WORK.clear()
        for p_ in parts:
            if p_.get("refused"):
                out["refused"] = p_["refused"]
                return None if only is None else out
            for k_ in ("cases", "generated", "compiled"):
                out[k_] += p_[k_]
            out["bad"] += p_["bad"]
        out["bad"].sort(key=lambda b_: (len(b_[0]), b_[0], b_[1:4]))
        out["bad"] = out["bad"][:600]
        return out
    except (Refused, Exhausted) as e:
        out["refused"] = str(e)
        return None if only is None else out
    except (TypeError, KeyError, IndexError, ValueError, AttributeError, AssertionError) as e:
        out["refused"] = f"{type(e).__name__}: {e}"
        return None if only is None else out
