"""Folding of the scalar codec families (Int, Packed) through all six protocol slots.

For a family the slot implementations are resolved through the class model (class MRO, then metaclass MRO - exactly what ``cls._read_array``
resolves to at run time) and interpreted by the checker's whitelist evaluator over a symbolic class object and an in-memory stream model.
The outcome (values, stream position, bytes written, raise / no raise) is compared with a reference computed by the checker itself with
``int.from_bytes`` / ``int.to_bytes`` / ``struct``.  An optimised override (e.g. a bulk ``_read_array``) is therefore judged by what it
computes, not by how it is written; a new override is covered as soon as it exists.  ``None`` = not foldable (construct outside the whitelist).
"""

from __future__ import annotations

import ast
import struct
import sys
from typing import Any

from .minieval import Evaluator, Exhausted, Host, Raised, Refused, Sym, UserFunc
from .model import Repo
from .foldpool import disk_cached

SLOTS = ("_read", "_read_array", "_read_0", "_write", "_write_array", "_write_0", "__default__")
ORDER = {"@": sys.byteorder, "=": sys.byteorder, "<": "little", ">": "big", "!": "big"}


class Stream:
    def __init__(self, data: bytes = b""):
        self.data, self.pos, self.written = data, 0, bytearray()

    def sym(self) -> Sym:
        def read(n=-1):
            if n is None or n < 0:
                n = len(self.data) - self.pos
            chunk = self.data[self.pos:self.pos + n]
            self.pos += len(chunk)
            return chunk

        def write(b):
            b = bytes(b)
            self.written += b
            return len(b)

        def seek(pos, whence=0):
            self.pos = pos if whence == 0 else (self.pos + pos if whence == 1 else len(self.data) + pos)
            return self.pos

        return Sym("stream", {}, {"read": Host(read), "write": Host(write), "tell": Host(lambda: self.pos), "seek": Host(seek)})


def _module_constant(repo: Repo, rel: str, name: str, env: dict[str, Any]) -> Any:
    mod = repo.module(rel)
    for st in mod.tree.body:
        tgt = None
        if isinstance(st, ast.Assign) and len(st.targets) == 1 and isinstance(st.targets[0], ast.Name):
            tgt, val = st.targets[0].id, st.value
        elif isinstance(st, ast.AnnAssign) and isinstance(st.target, ast.Name) and st.value is not None:
            tgt, val = st.target.id, st.value
        if tgt == name:
            return Evaluator(env).ev(val, env)
    raise Refused(f"module constant {name} not found in {rel}")


def _struct_host(fmt: str) -> Sym:
    s = struct.Struct(fmt)
    return Sym(f"Struct({fmt})", {"size": s.size, "format": fmt}, {"pack": Host(lambda *a: s.pack(*a)), "unpack": Host(lambda b: s.unpack(bytes(b))),
                                                                 "unpack_from": Host(lambda b, off=0: s.unpack_from(bytes(b), off)),
                                                                 "iter_unpack": Host(lambda b: list(s.iter_unpack(bytes(b))))})


class Family:
    def __init__(self, repo: Repo, family: str):
        self.repo, self.family = repo, family
        self.slots = {s: repo.lookup_method(family, s) for s in SLOTS}
        self.env: dict[str, Any] = {"Struct": Host(_struct_host), "isinstance": Host(self._isinstance), "int": int, "float": float, "issubclass": Host(self._issubclass)}
        self.env["ENDIANNESS_MAP"] = _module_constant(repo, "utils.py", "ENDIANNESS_MAP", {"sys": Sym("sys", {"byteorder": sys.byteorder})})
        self.env["EOF"] = _module_constant(repo, "types/base.py", "EOF", {})
        for rel in ["types/base.py", "types/packed.py", "types/int.py", "utils.py", *sorted({f.module.rel for f in self.slots.values() if f is not None})]:
            for q, fi in repo.module(rel).functions.items():
                if "." not in q and q not in self.env:
                    self.env[q] = UserFunc(fi.node)
        # plain module-level constants of the modules the slots live in (chunk sizes, sentinels, ...)
        for f in self.slots.values():
            if f is None:
                continue
            for name, val in f.module.assigns.items():
                if name in self.env:
                    continue
                try:
                    v = Evaluator({}).ev(val, {})
                except (Refused, TypeError, ValueError, KeyError):
                    continue
                if isinstance(v, (int, str, bytes, frozenset, tuple)) or v is None:
                    self.env[name] = v
        self.where = {s: (f.key if f is not None else None) for s, f in self.slots.items()}

    @staticmethod
    def _isinstance(o: Any, k: Any) -> bool:
        if k is int:
            return isinstance(o, int) and not isinstance(o, bool)
        if k is float:
            return isinstance(o, float)
        if isinstance(k, tuple) and all(x in (int, float) for x in k):
            return isinstance(o, k) and not isinstance(o, bool)
        raise Refused("isinstance against a non-builtin class")

    @staticmethod
    def _issubclass(t: Any, k: Any) -> bool:
        ks = k if isinstance(k, tuple) else (k,)
        if isinstance(t, Sym) and all(x in (int, float, bytes, str) for x in ks):
            kind = float if t.attrs.get("packchar") in ("e", "f", "d") else int
            return kind in ks
        raise Refused("issubclass against a non-builtin class")

    def cls(self, *, size: int, endian: str, signed: bool | None = None, packchar: str | None = None) -> Sym:
        attrs: dict[str, Any] = {"size": size, "cs": Sym("cs", {"endian": endian}), "__name__": self.family}
        if signed is not None:
            attrs["signed"] = signed
        if packchar is not None:
            attrs["packchar"] = packchar
        methods: dict[str, Any] = {s: UserFunc(f.node) for s, f in self.slots.items() if f is not None}
        # private helpers the slots call on the class (range checks, cached packers, ...) - resolved through the family's own class
        for f in self.slots.values():
            if f is not None and f.cls is not None:
                for q_, g_ in f.module.functions.items():
                    if q_.startswith(f.cls.name + ".") and q_.count(".") == 1 and q_.split(".")[1] not in methods:
                        methods[q_.split(".")[1]] = UserFunc(g_.node)
        methods["__new__"] = Host(lambda c, v=0: v)
        methods["from_bytes"] = Host(lambda data, order, signed=False: int.from_bytes(bytes(data), order, signed=signed))
        c = Sym(self.family, attrs, methods)
        c.call = Host(lambda *a: a[0] if a else 0)  # constructing a value of a scalar family: the value itself, 0 without argument
        return c

    def run(self, cls: Sym, slot: str, stream: Stream, *args: Any) -> tuple[str, Any]:
        try:
            r = Evaluator(self.env, steps=400000).call_user(UserFunc(self.slots[slot].node), [cls, stream.sym(), *args], {})
            return ("ok", r)
        except Raised as e:
            return ("raise", str(e).split("(")[0])
        except (OverflowError, struct.error, UnicodeError) as e:
            return ("raise", type(e).__name__)


def _int_configs():
    for size in (1, 2, 3, 6, 16):
        for signed in (False, True):
            for endian in ORDER:
                yield {"size": size, "signed": signed, "endian": endian}


def _packed_configs():
    for pc in "bBhHiIqQefd":
        for endian in ORDER:
            yield {"size": struct.calcsize(pc), "packchar": pc, "endian": endian}


def _ref_decode(cfg: dict, chunk: bytes) -> int:
    if "packchar" in cfg:
        return struct.unpack(cfg["endian"] + cfg["packchar"], chunk)[0]
    return int.from_bytes(chunk, ORDER[cfg["endian"]], signed=cfg["signed"])


def _ref_encode(cfg: dict, v: int) -> bytes | None:
    try:
        if "packchar" in cfg:
            return struct.pack(cfg["endian"] + cfg["packchar"], v)
        return v.to_bytes(cfg["size"], ORDER[cfg["endian"]], signed=cfg["signed"])
    except (OverflowError, struct.error):
        return None


def _is_signed(cfg: dict) -> bool:
    return cfg["signed"] if "signed" in cfg else cfg["packchar"].islower()


class _F(float):
    """A float that compares by its IEEE bit pattern (so that -0.0 != 0.0 and nan == nan in the fold's comparisons)."""

    def __eq__(self, other):
        return isinstance(other, float) and struct.pack(">d", self) == struct.pack(">d", other)

    def __ne__(self, other):
        return not self.__eq__(other)

    __hash__ = float.__hash__


def _values(cfg: dict) -> list:
    if cfg.get("packchar") in ("e", "f", "d"):
        return [_F(1.5), _F(-2.0), _F(-0.0), _F(0.25), _F(-0.0)]
    bits = cfg["size"] * 8
    if _is_signed(cfg):
        return [1, -1, 0x5A, -(1 << (bits - 1)), (1 << (bits - 1)) - 1, -2]
    return [1, 0x5A, (1 << bits) - 1, 1 << (bits - 1), 0xA5 % (1 << bits) or 7]


@disk_cached('codecfamily', ('types/', 'utils.py'))
def fold_family(repo: Repo, family: str) -> dict | None:
    """{'cases': n, 'bad': [(slot, config, what, got, want)], 'slots': {slot: implementing function}} or None when not foldable."""
    try:
        fam = Family(repo, family)
        out: dict = {"cases": 0, "bad": [], "slots": fam.where}
        configs = list(_int_configs() if family == "Int" else _packed_configs())
        for cfg in configs:
            cls = fam.cls(**cfg)
            size = cfg["size"]
            vals = _values(cfg)
            enc = [_ref_encode(cfg, v) for v in vals]
            assert all(e is not None for e in enc)
            label = ",".join(f"{k}={v}" for k, v in cfg.items())

            def check(slot: str, what: str, got: Any, want: Any) -> None:
                out["cases"] += 1
                if got != want:
                    out["bad"].append((slot, label, what, got, want))

            # ---- _read: one value, exact bytes; short input raises
            for v, e in zip(vals, enc):
                st = Stream(e + b"\xcc")
                r = fam.run(cls, "_read", st)
                check("_read", f"value {v}", (r, st.pos), (("ok", v), size))
            st = Stream(enc[0][: size - 1])
            r = fam.run(cls, "_read", st)
            check("_read", "short input", r[0], "raise")
            # ---- _read_array: fixed counts
            blob = b"".join(enc)
            for count in (0, 1, len(vals)):
                st = Stream(blob + b"\xcc\xcc")
                r = fam.run(cls, "_read_array", st, count)
                check("_read_array", f"count {count}", (r[0], list(r[1]) if r[0] == "ok" else None, st.pos), ("ok", vals[:count], count * size))
            st = Stream(blob[:-1])
            r = fam.run(cls, "_read_array", st, len(vals))
            check("_read_array", "short input", r[0], "raise")
            # ---- _read_array: until end of stream; trailing partial element must not be dropped silently
            st = Stream(blob)
            r = fam.run(cls, "_read_array", st, fam.env["EOF"])
            check("_read_array", "count EOF, whole elements", (r[0], list(r[1]) if r[0] == "ok" else None, st.pos), ("ok", vals, len(blob)))
            st = Stream(b"")
            r = fam.run(cls, "_read_array", st, fam.env["EOF"])
            check("_read_array", "count EOF, empty input", (r[0], list(r[1]) if r[0] == "ok" else None), ("ok", []))
            if size > 1:
                st = Stream(blob + blob[: size - 1])
                r = fam.run(cls, "_read_array", st, fam.env["EOF"])
                check("_read_array", "count EOF, trailing partial element (bytes consumed must not be dropped)", r[0], "raise")
            # ---- _read_0
            is_float = cfg.get("packchar") in ("e", "f", "d")
            nz = [v for v in vals if (float(v) != 0.0 if is_float else v != 0)]  # -0.0 is a zero element too: it terminates x[]
            zero = _ref_encode(cfg, 0)
            st = Stream(b"".join(_ref_encode(cfg, v) for v in nz) + zero + enc[0])
            r = fam.run(cls, "_read_0", st)
            check("_read_0", "terminated", (r[0], list(r[1]) if r[0] == "ok" else None, st.pos), ("ok", nz, (len(nz) + 1) * size))
            st = Stream(b"".join(_ref_encode(cfg, v) for v in nz))
            r = fam.run(cls, "_read_0", st)
            check("_read_0", "terminator missing", r[0], "raise")
            # ---- _write / _write_array / _write_0
            for v, e in zip(vals, enc):
                st = Stream()
                r = fam.run(cls, "_write", st, v)
                check("_write", f"value {v}", (r, bytes(st.written)), (("ok", size), e))
            bits = size * 8
            for v in () if is_float else ((1 << bits), -(1 << bits) - 1, (1 << (bits - 1)) if _is_signed(cfg) else -1):
                st = Stream()
                r = fam.run(cls, "_write", st, v)
                check("_write", f"out-of-range value {v} (must be refused, not truncated)", (r[0], bytes(st.written)), ("raise", b""))
            st = Stream()
            given = list(vals)
            r = fam.run(cls, "_write_array", st, given)
            check("_write_array", "values", (r, bytes(st.written)), (("ok", len(blob)), blob))
            # dumping is read-only on the value: the caller's list is as it was (a second dump of the same object gives the same bytes)
            check("_write_array", "the list handed in is left unchanged", [repr(x) for x in given], [repr(x) for x in vals])
            st = Stream()
            r = fam.run(cls, "_write_array", st, [])
            check("_write_array", "empty", (r, bytes(st.written)), (("ok", 0), b""))
            zeros = [_F(-0.0), _F(0.0), _F(-0.0)] if is_float else [0, 0, 0]
            zblob = b"".join(_ref_encode(cfg, v) for v in zeros)
            st = Stream()
            r = fam.run(cls, "_write_array", st, list(zeros))
            check("_write_array", "all elements zero (of either sign)", (r, bytes(st.written)), (("ok", len(zblob)), zblob))
            st = Stream(zblob)
            r = fam.run(cls, "_read_array", st, len(zeros))
            check("_read_array", "all elements zero (of either sign)", (r[0], list(r[1]) if r[0] == "ok" else None), ("ok", zeros))
            st = Stream()
            r = fam.run(cls, "_write_0", st, list(nz))
            want = b"".join(_ref_encode(cfg, v) for v in nz) + zero
            check("_write_0", "values + terminator", (r, bytes(st.written)), (("ok", len(want)), want))
        return out
    except (Refused, Exhausted):
        return None
    except (TypeError, KeyError, IndexError, ValueError, AttributeError, AssertionError):
        return None


def _text_isinstance(o: Any, k: Any) -> bool:
    if k in (int, str, bytes, list):
        return isinstance(o, k) and not (k is int and isinstance(o, bool))
    raise Refused("isinstance against a non-builtin class")


@disk_cached('textfamily', ('types/', 'utils.py'))
def fold_text_family(repo: Repo, family: str) -> dict | None:
    """Wchar (UTF-16 in the current byte order) and Char (raw bytes): _read / _read_array / _read_0 / _write against the reference codec."""
    try:
        fam = Family(repo, family)
        fam.env.update({"isinstance": Host(_text_isinstance), "type": Sym("type", {}, {"__call__": Host(lambda c, v=None: v)}), "int": int, "str": str, "list": list})
        ci = repo.cls(family)
        out: dict = {"cases": 0, "bad": [], "slots": fam.where}
        wide = family == "Wchar"
        texts = ["A", "h\u00e9llo", "a\U0001f600b", "\u4e2d\u6587", "A\u4e00B", "\u4e00AB", "\ufeffAB", "long-" * 130] if wide else [b"A", b"hello", b"\xff\x80\x01", b"a b", b"0123456789" * 70]
        for endian in ORDER:
            attrs: dict[str, Any] = {"cs": Sym("cs", {"endian": endian}), "size": 2 if wide else 1, "__name__": family}
            if "__encoding_map__" in ci.attrs:
                attrs["__encoding_map__"] = Evaluator({}).ev(ci.attrs["__encoding_map__"], {"sys": Sym("sys", {"byteorder": sys.byteorder})})
            methods: dict[str, Any] = {s_: UserFunc(f.node) for s_, f in fam.slots.items() if f is not None}
            cls = Sym(family, attrs, methods)
            codec = ("utf-16-le" if ORDER[endian] == "little" else "utf-16-be") if wide else None
            unit = 2 if wide else 1

            def enc(t):
                return t.encode(codec) if wide else t

            def check(slot: str, what: str, got: Any, want: Any) -> None:
                out["cases"] += 1
                if got != want:
                    out["bad"].append((slot, f"endian={endian}", what, got, want))

            for t in texts:
                e = enc(t)
                units = len(e) // unit
                st = Stream(e + b"\xcc\xcc")
                r = fam.run(cls, "_read_array", st, units)
                tl = t if len(t) < 20 else t[:8] + type(t)(b"..." if isinstance(t, bytes) else "...") + f"[{len(t)}]".encode() if isinstance(t, bytes) else (t if len(t) < 20 else t[:8] + f"...[{len(t)}]")
                check("_read_array", f"{tl!r} as {units} units", (r, st.pos), (("ok", t), len(e)))
                st = Stream(e[:-1])
                r = fam.run(cls, "_read_array", st, units)
                check("_read_array", f"{tl!r} one byte short", r[0], "raise")
                st = Stream(e)
                r = fam.run(cls, "_read_array", st, fam.env["EOF"])
                check("_read_array", f"{tl!r} to end of stream", (r, st.pos), (("ok", t), len(e)))
                term = b"\x00" * unit
                st = Stream(e + term + e)
                r = fam.run(cls, "_read_0", st)
                check("_read_0", f"{tl!r} terminated", (r, st.pos), (("ok", t), len(e) + unit))
                st = Stream(e)
                r = fam.run(cls, "_read_0", st)
                check("_read_0", f"{tl!r} terminator missing", r[0], "raise")
                st = Stream()
                r = fam.run(cls, "_write", st, t)
                check("_write", f"{tl!r}", (r, bytes(st.written)), (("ok", len(e)), e))
            first = texts[0]
            st = Stream(enc(first) + b"\xcc\xcc")
            r = fam.run(cls, "_read", st)
            check("_read", f"{first!r}", (r, st.pos), (("ok", first), unit))
            st = Stream(enc(first)[: unit - 1])
            r = fam.run(cls, "_read", st)
            check("_read", "short input", r[0], "raise")
            r = fam.run(cls, "_read_array", Stream(b"\xcc"), 0)
            check("_read_array", "count 0", r, ("ok", "" if wide else b""))
        return out
    except (Refused, Exhausted):
        return None
    except (TypeError, KeyError, IndexError, ValueError, AttributeError, AssertionError, UnicodeError):
        return None


def fold_text_arrays(repo: Repo) -> dict | None:
    """CharArray._write / WcharArray._write over (kind of array, value): what is written is the encoding of the value (raw bytes; UTF-16 in the
    current byte order, where one character may take two code units) plus the terminator of a null-terminated array - nothing is added, nothing
    refused because len(str) differs from the number of code units."""
    out: dict = {"cases": 0, "bad": []}
    try:
        for family, wide in (("CharArray", False), ("WcharArray", True)):
            wr = repo.lookup_method(family, "_write")
            if wr is None:
                raise Refused(f"{family}._write not found")
            wchar = repo.cls("Wchar")
            for endian in "<>":
                codec = "utf-16-le" if endian == "<" else "utf-16-be"
                enc_map = Evaluator({}).ev(wchar.attrs["__encoding_map__"], {"sys": Sym("sys", {"byteorder": sys.byteorder})}) if "__encoding_map__" in wchar.attrs else {}
                values = (["ab", "a\U0001f600", "h\u00e9llo", "\ufeffAB", ""] if wide else [b"ab", b"\xff\x00\x01", [65, 66], "ab", "caf\xe9", b""])
                for v in values:
                    for kind in ("fixed", "dynamic", "null-terminated"):
                        if wide:
                            raw = v.encode(codec)
                            units = len(raw) // 2
                        else:
                            raw = bytes(v) if isinstance(v, list) else (v.encode("latin-1") if isinstance(v, str) else v)
                            units = len(raw)
                        attrs = {"cs": Sym("cs", {"endian": endian}), "null_terminated": kind == "null-terminated", "dynamic": kind != "fixed",
                                 "num_entries": units if kind == "fixed" else None, "size": (units * (2 if wide else 1)) if kind == "fixed" else None, "__name__": family}
                        cls = Sym(family, attrs)
                        st = Stream()
                        env = {"Wchar": Sym("Wchar", {"__encoding_map__": enc_map}), "isinstance": Host(_text_isinstance), "bytes": bytes, "str": str, "list": list, "int": int,
                               "len": len, "ArraySizeError": Sym("ArraySizeError")}
                        want = raw + ((b"\x00\x00" if wide else b"\x00") if kind == "null-terminated" else b"")
                        try:
                            r = Evaluator(env, steps=3000).call_user(UserFunc(wr.node), [cls, st.sym(), list(v) if isinstance(v, list) else v], {})
                            got: Any = (r, bytes(st.written))
                        except Raised as e:
                            got = f"raise {e}"
                        out["cases"] += 1
                        if got != (len(want), want):
                            out["bad"].append((family, f"endian={endian}", kind, v if not isinstance(v, bytes) else v.hex(), got if isinstance(got, str) else (got[0], got[1].hex()), want.hex()))
        # reading: the array class wraps exactly what the generic array reader returns (no stripping of a leading U+FEFF, no re-decoding)
        for family, sample in (("WcharArray", "\ufeffAB"), ("WcharArray", "ab\u4e00"), ("CharArray", b"\xef\xbb\xbfab")):
            rd = repo.lookup_method(family, "_read")
            if rd is None:
                continue
            cls = Sym(family, {"cs": Sym("cs", {"endian": "<"}), "null_terminated": False, "dynamic": False, "num_entries": len(sample), "__name__": family})
            env = {"super": Host(lambda *a, sample=sample: Sym("super", {}, {"_read": Host(lambda *a2, **k2: sample)})), "type": Sym("type", {}, {"__call__": Host(lambda c, v=None: v)}),
                   "isinstance": Host(_text_isinstance), "bytes": bytes, "str": str}
            try:
                got = Evaluator(env, steps=2000).call_user(UserFunc(rd.node), [cls, Stream(b"").sym(), None], {})
            except Raised as e:
                got = f"raise {e}"
            out["cases"] += 1
            if got != sample:
                out["bad"].append((family, "endian=<", "reading", sample if isinstance(sample, str) else sample.hex(), repr(got), repr(sample)))
        return out
    except (Refused, Exhausted):
        return None
    except (TypeError, KeyError, IndexError, ValueError, AttributeError):
        return None
