"""Program model of /repo/dissect/cstruct built from the AST only."""

from __future__ import annotations

import ast
import hashlib
import os
from dataclasses import dataclass, field
from typing import Iterator

from . import PKG_REL, REPO_ROOT
from .util import AnalysisError, chain, norm, strip_docstring, walk_body, walk_local

SLOTS = ("_read", "_read_array", "_read_0", "_write", "_write_array", "_write_0", "__default__")

# External bases: leaves of the hierarchy with the facts the rules need.
EXTERNAL_BASES = {
    "int": {"mutable": False},
    "float": {"mutable": False},
    "bytes": {"mutable": False},
    "str": {"mutable": False},
    "list": {"mutable": True},
    "dict": {"mutable": True},
    "type": {"mutable": True},
    "object": {"mutable": False},
    "Exception": {"mutable": False},
    "EnumMeta": {"mutable": True},
    "IntEnum": {"mutable": False},
    "IntFlag": {"mutable": False},
    "Generic": {"mutable": False},
}


@dataclass
class FuncInfo:
    module: "Module"
    qualname: str
    node: ast.FunctionDef
    cls: "ClassInfo | None"
    kind: str  # function | method | classmethod | staticmethod | property | nested
    parent: "FuncInfo | None" = None

    @property
    def name(self) -> str:
        return self.node.name

    @property
    def key(self) -> str:
        return f"{self.module.rel}:{self.qualname}"

    @property
    def params(self) -> list[str]:
        a = self.node.args
        return [x.arg for x in [*a.posonlyargs, *a.args]] + ([a.vararg.arg] if a.vararg else []) + [
            x.arg for x in a.kwonlyargs
        ] + ([a.kwarg.arg] if a.kwarg else [])

    @property
    def self_name(self) -> str | None:
        if self.kind in ("method", "classmethod", "property") and self.node.args.args:
            return self.node.args.args[0].arg
        return None

    def annotation(self, param: str) -> str | None:
        a = self.node.args
        for x in [*a.posonlyargs, *a.args, *a.kwonlyargs]:
            if x.arg == param and x.annotation is not None:
                return norm(x.annotation)
        return None

    @property
    def body(self) -> list[ast.stmt]:
        return strip_docstring(self.node.body)

    def is_abstract(self) -> bool:
        b = self.body
        return len(b) == 1 and isinstance(b[0], ast.Raise) and "NotImplementedError" in norm(b[0])

    def loc(self, node: ast.AST | None = None) -> str:
        ln = getattr(node, "lineno", None) or self.node.lineno
        return f"{self.module.path}:{ln}"


@dataclass
class ClassInfo:
    module: "Module"
    name: str
    node: ast.ClassDef
    bases: list[str]
    metaclass: str | None
    methods: dict[str, FuncInfo] = field(default_factory=dict)
    attrs: dict[str, ast.AST] = field(default_factory=dict)  # class-level assignments name -> value node
    ann_only: set[str] = field(default_factory=set)

    @property
    def key(self) -> str:
        return f"{self.module.rel}:{self.name}"


@dataclass
class Module:
    rel: str  # e.g. 'types/base.py'
    path: str
    source: str
    tree: ast.Module
    functions: dict[str, FuncInfo] = field(default_factory=dict)
    classes: dict[str, ClassInfo] = field(default_factory=dict)
    assigns: dict[str, ast.AST] = field(default_factory=dict)  # module-level name -> value

    @property
    def dotted(self) -> str:
        return "dissect.cstruct." + self.rel[:-3].replace("/", ".")


def _decorators(node: ast.FunctionDef) -> list[str]:
    out = []
    for d in node.decorator_list:
        c = chain(d.func if isinstance(d, ast.Call) else d)
        out.append(".".join(c) if c else norm(d))
    return out


def _canonicalise(tree: ast.Module) -> None:
    """Alpha-rename, per function, the variable that iterates over a field list to ``field``.

    The rules speak about "the current field" of the structure walkers; which identifier the code uses for it is irrelevant, so the
    loop variable of ``for X in <...__fields__ | ....fields | fields>`` is renamed to ``field`` (line numbers are untouched).  Skipped when
    the function already uses ``field`` for something else.
    """
    import re as _re

    for fn in ast.walk(tree):
        if not isinstance(fn, (ast.FunctionDef, ast.AsyncFunctionDef)):
            continue
        names = {n.id for n in ast.walk(fn) if isinstance(n, ast.Name)} | {a.arg for a in ast.walk(fn) if isinstance(a, ast.arg)}
        if "field" in names:
            continue
        cands = set()
        for lp in ast.walk(fn):
            if isinstance(lp, (ast.For, ast.comprehension)) and isinstance(lp.target, ast.Name) and _re.search(r"(__fields__|\.fields|^fields)$", norm(lp.iter)):
                cands.add(lp.target.id)
        for a_ in [*fn.args.posonlyargs, *fn.args.args, *fn.args.kwonlyargs]:
            if a_.annotation is not None and norm(a_.annotation) in ("Field", "'Field'"):
                cands.add(a_.arg)
        if len(cands) != 1:
            continue
        old = next(iter(cands))
        for n in ast.walk(fn):
            if isinstance(n, ast.Name) and n.id == old:
                n.id = "field"
            elif isinstance(n, ast.arg) and n.arg == old:
                n.arg = "field"
            elif isinstance(n, ast.keyword) and n.arg == old:
                pass  # keyword names at call sites belong to the callee


class Repo:
    def __init__(self, root: str | None = None):
        self.root = root or REPO_ROOT
        self.pkg = os.path.join(self.root, PKG_REL)
        if not os.path.isdir(self.pkg):
            raise AnalysisError(f"package directory missing: {self.pkg}")
        self.modules: dict[str, Module] = {}
        self.classes: dict[str, ClassInfo] = {}
        self.normalisation: dict[str, dict] = {}
        self._load()
        self._mro_cache: dict[str, list[str]] = {}

    # ------------------------------------------------------------------ loading
    def _load(self) -> None:
        for dirpath, dirnames, filenames in os.walk(self.pkg):
            dirnames[:] = sorted(d for d in dirnames if d != "__pycache__")
            for fn in sorted(filenames):
                if not fn.endswith(".py"):
                    continue
                path = os.path.join(dirpath, fn)
                rel = os.path.relpath(path, self.pkg)
                with open(path, encoding="utf-8") as fh:
                    src = fh.read()
                try:
                    tree = ast.parse(src, filename=path)
                except SyntaxError as e:
                    raise AnalysisError(f"{path} does not parse: {e}") from e
                try:
                    from .normalize import normalize_module

                    self.normalisation[rel] = normalize_module(rel, tree)
                except Exception as e:  # a failing normalisation must never take the analysis down: analyse the tree as written
                    self.normalisation[rel] = {"error": f"{type(e).__name__}: {e}"}
                    tree = ast.parse(src, filename=path)
                _canonicalise(tree)
                mod = Module(rel=rel, path=path, source=src, tree=tree)
                self._index_module(mod)
                self.modules[rel] = mod
        for mod in self.modules.values():
            for ci in mod.classes.values():
                if ci.name in self.classes:
                    raise AnalysisError(f"duplicate class name {ci.name} in {mod.rel} and {self.classes[ci.name].module.rel}")
                self.classes[ci.name] = ci

    def _index_module(self, mod: Module) -> None:
        def visit_body(body, cls: ClassInfo | None, parent: FuncInfo | None, prefix: str) -> None:
            for st in body:
                if isinstance(st, (ast.FunctionDef, ast.AsyncFunctionDef)):
                    decs = _decorators(st)
                    if parent is not None:
                        kind = "nested"
                    elif cls is None:
                        kind = "function"
                    elif "classmethod" in decs:
                        kind = "classmethod"
                    elif "staticmethod" in decs:
                        kind = "staticmethod"
                    elif "property" in decs or any(d.endswith(".setter") for d in decs):
                        kind = "property"
                    else:
                        kind = "method"
                    if "overload" in decs:
                        continue
                    fi = FuncInfo(mod, prefix + st.name, st, cls, kind, parent)
                    mod.functions[fi.qualname] = fi
                    if cls is not None and parent is None:
                        cls.methods[st.name] = fi
                    visit_body(st.body, cls, fi, prefix + st.name + ".<locals>.")
                elif isinstance(st, ast.ClassDef) and parent is None and cls is None:
                    bases = []
                    for b in st.bases:
                        bb = b.value if isinstance(b, ast.Subscript) else b
                        c = chain(bb)
                        bases.append(c[-1] if c else norm(bb))
                    meta = None
                    for kw in st.keywords:
                        if kw.arg == "metaclass":
                            c = chain(kw.value)
                            meta = c[-1] if c else norm(kw.value)
                    ci = ClassInfo(mod, st.name, st, bases, meta)
                    mod.classes[st.name] = ci
                    visit_body(st.body, ci, None, st.name + ".")
                elif isinstance(st, (ast.If, ast.Try)) :
                    # version switches / TYPE_CHECKING blocks: index definitions inside (not TYPE_CHECKING)
                    if isinstance(st, ast.If) and "TYPE_CHECKING" in norm(st.test):
                        continue
                    for sub in ([st.body, st.orelse] if isinstance(st, ast.If) else [st.body, st.orelse, st.finalbody]):
                        visit_body(sub, cls, parent, prefix)
                elif isinstance(st, ast.Assign) and parent is None:
                    for t in st.targets:
                        if isinstance(t, ast.Name):
                            (cls.attrs if cls is not None else mod.assigns)[t.id] = st.value
                elif isinstance(st, ast.AnnAssign) and parent is None and isinstance(st.target, ast.Name):
                    if st.value is not None:
                        (cls.attrs if cls is not None else mod.assigns)[st.target.id] = st.value
                    elif cls is not None:
                        cls.ann_only.add(st.target.id)

        visit_body(mod.tree.body, None, None, "")

    # ------------------------------------------------------------------ lookup
    def module(self, rel: str) -> Module:
        if rel not in self.modules:
            raise AnalysisError(f"anchor module vanished: {rel}")
        return self.modules[rel]

    def func(self, rel: str, qualname: str) -> FuncInfo:
        m = self.module(rel)
        if qualname not in m.functions:
            raise AnalysisError(f"anchor function vanished: {rel}:{qualname}")
        return m.functions[qualname]

    def func_opt(self, rel: str, qualname: str) -> FuncInfo | None:
        m = self.modules.get(rel)
        return m.functions.get(qualname) if m else None

    def cls(self, name: str) -> ClassInfo:
        if name not in self.classes:
            raise AnalysisError(f"anchor class vanished: {name}")
        return self.classes[name]

    def all_functions(self) -> Iterator[FuncInfo]:
        for m in self.modules.values():
            yield from m.functions.values()

    def digest(self) -> str:
        h = hashlib.sha256()
        for rel in sorted(self.modules):
            h.update(rel.encode())
            h.update(self.modules[rel].source.encode())
        return h.hexdigest()[:16]

    # ------------------------------------------------------------------ hierarchy
    def mro(self, name: str) -> list[str]:
        """C3 linearisation by class name; external bases are leaves."""
        if name in self._mro_cache:
            return self._mro_cache[name]
        ci = self.classes.get(name)
        if ci is None:
            res = [name]
        else:
            seqs = [self.mro(b)[:] for b in ci.bases] + [list(ci.bases)]
            res = [name]
            while True:
                seqs = [s for s in seqs if s]
                if not seqs:
                    break
                for s in seqs:
                    cand = s[0]
                    if not any(cand in t[1:] for t in seqs):
                        break
                else:
                    raise AnalysisError(f"inconsistent MRO for {name}")
                res.append(cand)
                for s in seqs:
                    if s and s[0] == cand:
                        del s[0]
        self._mro_cache[name] = res
        return res

    def metaclass_of(self, name: str) -> str | None:
        """Most derived metaclass among the MRO (first explicit one found walking the MRO)."""
        best = None
        for c in self.mro(name):
            ci = self.classes.get(c)
            if ci is not None and ci.metaclass:
                if best is None or best in self.mro(ci.metaclass):
                    best = ci.metaclass
        return best

    def is_subclass(self, name: str, base: str) -> bool:
        return base in self.mro(name)

    def subclasses(self, base: str) -> list[str]:
        return [c for c in self.classes if base in self.mro(c)]

    def lookup_method(self, cls_name: str, meth: str, *, after: str | None = None) -> FuncInfo | None:
        """Attribute lookup on the *class object* ``cls_name``: class MRO first, then the metaclass MRO."""
        mro = self.mro(cls_name)
        if after is not None and after in mro:
            mro = mro[mro.index(after) + 1 :]
        for c in mro:
            ci = self.classes.get(c)
            if ci is not None:
                if meth in ci.methods:
                    return ci.methods[meth]
                if meth in ci.attrs:
                    tgt = self._alias_target(ci.attrs[meth])
                    if tgt is not None:
                        return tgt
        meta = self.metaclass_of(cls_name)
        if meta:
            for c in self.mro(meta):
                ci = self.classes.get(c)
                if ci is not None:
                    if meth in ci.methods:
                        return ci.methods[meth]
                    if meth in ci.attrs:
                        tgt = self._alias_target(ci.attrs[meth])
                        if tgt is not None:
                            return tgt
        return None

    def lookup_instance_method(self, cls_name: str, meth: str, *, after: str | None = None) -> FuncInfo | None:
        mro = self.mro(cls_name)
        if after is not None and after in mro:
            mro = mro[mro.index(after) + 1 :]
        for c in mro:
            ci = self.classes.get(c)
            if ci is not None and meth in ci.methods:
                return ci.methods[meth]
            if ci is not None and meth in ci.attrs:
                tgt = self._alias_target(ci.attrs[meth])
                if tgt is not None:
                    return tgt
        return None

    def _alias_target(self, value: ast.AST) -> FuncInfo | None:
        """``__len__ = MetaType.__len__`` -> that function."""
        c = chain(value)
        if c and len(c) == 2 and c[0] in self.classes and c[1] in self.classes[c[0]].methods:
            return self.classes[c[0]].methods[c[1]]
        return None

    # ------------------------------------------------------------------ families and slots
    FAMILY_ROOTS = (
        "Packed",
        "Int",
        "Char",
        "CharArray",
        "Wchar",
        "WcharArray",
        "LEB128",
        "Void",
        "Pointer",
        "Enum",
        "Flag",
        "Structure",
        "Union",
        "Array",
    )

    def families(self) -> list[str]:
        """Concrete type families: every package class deriving from BaseType, minus the abstract bases."""
        fams = [c for c in self.classes if "BaseType" in self.mro(c) and c not in ("BaseType", "BaseArray")]
        return sorted(fams)

    def slot_table(self) -> dict[str, dict[str, FuncInfo | None]]:
        return {fam: {s: self.lookup_method(fam, s) for s in SLOTS} for fam in self.families()}


def iter_functions_with(repo: Repo, pred) -> Iterator[FuncInfo]:
    for fi in repo.all_functions():
        if pred(fi):
            yield fi


def func_calls(fi: FuncInfo) -> Iterator[ast.Call]:
    for n in walk_body(fi.node.body):
        if isinstance(n, ast.Call):
            yield n
