"""Lints over regex ASTs (re._parser): keyword boundaries and whitespace tolerance between lexical parts."""

from __future__ import annotations

import re._constants as sc
import re._parser as sp
from dataclasses import dataclass, field

WORD = set("abcdefghijklmnopqrstuvwxyzABCDEFGHIJKLMNOPQRSTUVWXYZ0123456789_")
SPACE = set(" \t\n\r\f\v")


@dataclass
class El:
    kind: str  # lit | class | repeat | group | branch | assert | other
    ch: str = ""  # lit
    chars: set = field(default_factory=set)  # class: explicit positive members (when not negated)
    negated: bool = False
    cats: set = field(default_factory=set)  # class categories: space / word / digit (positive) ...
    lo: int = 1
    hi: int = 1
    kids: list = field(default_factory=list)  # repeat/group/assert body, branch alternatives (list of lists)
    direction: int = 1  # assert: 1 ahead, -1 behind
    negative: bool = False
    name: str | None = None

    def __repr__(self) -> str:
        return f"<{self.kind} {self.ch or ''}{'^' if self.negated else ''}{sorted(self.cats) or ''} {self.lo}-{self.hi}>"


def parse(rx: str) -> list[El]:
    p = sp.parse(rx)
    names = {v: k for k, v in p.state.groupdict.items()}
    return _conv(list(p), names)


def _conv(items, names) -> list[El]:
    out = []
    for op, av in items:
        if op is sc.LITERAL:
            out.append(El("lit", ch=chr(av)))
        elif op is sc.NOT_LITERAL:
            out.append(El("class", chars={chr(av)}, negated=True))
        elif op is sc.ANY:
            out.append(El("class", negated=True))
        elif op is sc.IN:
            out.append(_cls(av))
        elif op in (sc.MAX_REPEAT, sc.MIN_REPEAT, sc.POSSESSIVE_REPEAT):
            lo, hi, body = av
            out.append(El("repeat", lo=lo, hi=(10**9 if hi is sc.MAXREPEAT else hi), kids=_conv(list(body), names)))
        elif op is sc.SUBPATTERN:
            gid, _a, _d, body = av
            out.append(El("group", kids=_conv(list(body), names), name=names.get(gid)))
        elif op is sc.BRANCH:
            out.append(El("branch", kids=[_conv(list(alt), names) for alt in av[1]]))
        elif op in (sc.ASSERT, sc.ASSERT_NOT):
            d, body = av
            out.append(El("assert", kids=_conv(list(body), names), direction=d, negative=op is sc.ASSERT_NOT))
        elif op is sc.AT:
            out.append(El("at", ch=str(av)))
        elif op is sc.CATEGORY:
            out.append(_cls([(sc.CATEGORY, av)]))
        else:
            out.append(El("other"))
    return out


def _cls(av) -> El:
    e = El("class")
    for op, v in av:
        if op is sc.NEGATE:
            e.negated = True
        elif op is sc.LITERAL:
            e.chars.add(chr(v))
        elif op is sc.RANGE:
            e.chars |= {chr(c) for c in range(v[0], min(v[1], 0x2FF) + 1)}
        elif op is sc.CATEGORY:
            e.cats.add(str(v).replace("CATEGORY_", "").lower())
    return e


def class_may_match(e: El, chars: set) -> bool:
    """May this character class match at least one of ``chars``?"""
    def member(c: str) -> bool:
        pos = c in e.chars
        for cat in e.cats:
            if cat == "space" and c in SPACE:
                pos = True
            if cat == "not_space" and c not in SPACE:
                pos = True
            if cat == "word" and c in WORD:
                pos = True
            if cat == "not_word" and c not in WORD:
                pos = True
            if cat == "digit" and c.isdigit():
                pos = True
            if cat == "not_digit" and not c.isdigit():
                pos = True
        return pos != e.negated

    return any(member(c) for c in chars)


def is_ws_repeat(e: El) -> bool:
    """\\s* / \\s+ (a repeat whose body is exactly one whitespace class), or a bare \\s."""
    if e.kind == "repeat" and len(e.kids) == 1 and e.kids[0].kind == "class":
        k = e.kids[0]
        return not k.negated and k.cats == {"space"} and not (k.chars - SPACE)
    return False


def is_raw_capture(e: El) -> bool:
    """A repeat over a negated class ([^;\\n]*, [^{]+?): captures raw text including blanks."""
    if e.kind == "group" and len(e.kids) == 1:
        return is_raw_capture(e.kids[0])
    if e.kind == "repeat" and len(e.kids) == 1 and e.kids[0].kind == "class" and e.kids[0].negated:
        return class_may_match(e.kids[0], {" "}) or True
    return False


def may_start_with(seq: list[El], chars: set) -> bool:
    """May a match of the sequence begin with one of ``chars`` (or be empty so that what follows decides: returns True)?"""
    for e in seq:
        r, empty = _starts(e, chars)
        if r:
            return True
        if not empty:
            return False
    return True  # sequence can be empty: unknown follower


def _starts(e: El, chars: set) -> tuple[bool, bool]:
    """(may start with one of chars, may match empty)"""
    if e.kind == "lit":
        return e.ch in chars, False
    if e.kind == "class":
        return class_may_match(e, chars), False
    if e.kind == "repeat":
        r = False
        empty_body = True
        for k in e.kids:
            rr, em = _starts(k, chars)
            r = r or rr
            if not em:
                empty_body = False
                break
        return r, e.lo == 0 or empty_body
    if e.kind == "group":
        r = False
        for k in e.kids:
            rr, em = _starts(k, chars)
            r = r or rr
            if not em:
                return r, False
        return r, True
    if e.kind == "branch":
        rs = [(_seq_starts(alt, chars)) for alt in e.kids]
        return any(r for r, _ in rs), any(em for _, em in rs)
    if e.kind == "assert":
        return False, True
    if e.kind == "at":
        return False, True
    return True, True


def _seq_starts(seq: list[El], chars: set) -> tuple[bool, bool]:
    r = False
    for k in seq:
        rr, em = _starts(k, chars)
        r = r or rr
        if not em:
            return r, False
    return r, True


# ---------------------------------------------------------------------------------------------------------------
# keyword boundary

def leading_keyword(seq: list[El]) -> tuple[list[str], int] | None:
    """([keywords], index of the element after the keyword) when the regex begins with an alphabetic keyword (optionally '#')."""
    i = 0
    word = ""
    if seq and seq[0].kind == "lit" and seq[0].ch in "#":
        word = seq[0].ch
        i = 1
    start = i
    while i < len(seq) and seq[i].kind == "lit" and seq[i].ch.isalpha():
        word += seq[i].ch
        i += 1
    if i - start >= 3:
        return [word], i
    if start < len(seq):
        e = seq[start]
        inner = e
        if e.kind == "group" and len(e.kids) == 1 and e.kids[0].kind == "branch":
            inner = e.kids[0]
        if inner.kind == "branch":
            words = []
            for alt in inner.kids:
                if alt and all(k.kind == "lit" and k.ch.isalpha() for k in alt) and len(alt) >= 3:
                    words.append("".join(k.ch for k in alt))
                else:
                    return None
            return words, start + 1
    return None


def keyword_boundary_ok(seq: list[El]) -> tuple[bool, str]:
    lk = leading_keyword(seq)
    if lk is None:
        return True, "no leading keyword"
    words, i = lk
    if i >= len(seq):
        return False, f"keyword {words} is the whole pattern: '{words[0]}x' would match the keyword prefix"
    nxt = seq[i]
    if nxt.kind == "assert" and nxt.direction == 1 and not nxt.negative:
        if _seq_starts(nxt.kids, WORD)[0]:
            return False, f"the look-ahead after {words} admits a word character"
        if _seq_starts(nxt.kids, WORD)[1]:
            return False, f"the look-ahead after {words} can be empty"
        return True, f"{words} followed by a look-ahead that excludes word characters"
    if nxt.kind == "assert" and nxt.direction == 1 and nxt.negative:
        # (?!\w)
        if nxt.kids and all(_starts(k, WORD)[0] for k in nxt.kids[:1]) and class_covers_word(nxt.kids[0]):
            return True, f"{words} followed by a negative look-ahead for word characters"
        return False, f"negative look-ahead after {words} does not cover all word characters"
    if nxt.kind == "at" and "BOUNDARY" in nxt.ch.upper() and "NON" not in nxt.ch.upper():
        return True, f"{words} followed by \\b"
    r, empty = _starts(nxt, WORD)
    if not r and not empty:
        return True, f"{words} followed by a mandatory non-word element"
    return False, f"after the keyword {words} the pattern can continue with a word character (or nothing): an identifier that merely starts with " \
                  f"the keyword would be split"


def class_covers_word(e: El) -> bool:
    if e.kind != "class":
        return False
    return all(class_may_match(e, {c}) for c in WORD)


# ---------------------------------------------------------------------------------------------------------------
# whitespace tolerance around punctuation that separates lexical parts

PUNCT = set(":[{,")


def _flatten_context(seq: list[El], prefix_prev):
    """Yield (element, prev_resolver, next_resolver) for punctuation literals at any depth outside asserts."""
    for idx, e in enumerate(seq):
        def prev_of(i=idx):
            return seq[i - 1] if i > 0 else prefix_prev()
        yield e, idx, seq, prefix_prev


def whitespace_gaps(seq: list[El]) -> list[tuple[str, bool, str]]:
    """[(punctuation char + position, ok, why)] for every separator literal of the pattern."""
    out: list[tuple[str, bool, str]] = []
    counter = {"n": 0}

    def walk(s: list[El], before_ok, after_ok, optional: bool) -> None:
        """before_ok(): is whitespace tolerated right before this sequence?  after_ok(): right after it?"""
        for i, e in enumerate(s):
            def prev_ok(i=i) -> bool:
                j = i - 1
                if j < 0:
                    return before_ok()
                p = s[j]
                if is_ws_repeat(p) or is_raw_capture(p):
                    return True
                if p.kind == "assert":
                    # look-behind / look-ahead consume nothing: look further left
                    return prev_ok(j)
                if p.kind in ("group", "repeat") and p.kids:
                    last_ok = _ends_with_ws(p)
                    if p.kind == "repeat" and p.lo == 0:
                        return last_ok and prev_ok(j)
                    return last_ok
                return False

            def next_ok(i=i) -> bool:
                j = i + 1
                if j >= len(s):
                    return after_ok()
                nx = s[j]
                if is_ws_repeat(nx) or is_raw_capture(nx):
                    return True
                if nx.kind in ("group", "repeat") and nx.kids:
                    first_ok = _starts_with_ws(nx)
                    if nx.kind == "repeat" and nx.lo == 0:
                        return first_ok and next_ok(j)
                    return first_ok
                if nx.kind == "assert":
                    return True
                return False

            if e.kind == "lit" and e.ch in PUNCT:
                counter["n"] += 1
                tag = f"'{e.ch}'#{counter['n']}"
                po, no = prev_ok(), next_ok()
                if po and no:
                    out.append((tag, True, "whitespace tolerated on both sides"))
                else:
                    side = "before" if not po else "after"
                    out.append((tag, False, f"no whitespace is tolerated {side} the separator '{e.ch}'"))
            elif e.kind in ("group", "repeat"):
                walk(e.kids, prev_ok, next_ok, optional or (e.kind == "repeat" and e.lo == 0))
            elif e.kind == "branch":
                for alt in e.kids:
                    walk(alt, prev_ok, next_ok, optional)

    walk(seq, lambda: True, lambda: True, False)
    return out


def _ends_with_ws(e: El) -> bool:
    if is_ws_repeat(e) or is_raw_capture(e):
        return True
    if e.kind in ("group", "repeat") and e.kids:
        return _ends_with_ws(e.kids[-1])
    return False


def _starts_with_ws(e: El) -> bool:
    if is_ws_repeat(e) or is_raw_capture(e):
        return True
    if e.kind in ("group", "repeat") and e.kids:
        return _starts_with_ws(e.kids[0])
    return False
