"""csa - static analysis of dissect.cstruct against properties C01..C20.

Nothing from /repo is imported or executed.  Sources are read and parsed on
every run (ast, compile-without-exec, re._parser).
"""

import os

REPO_ROOT = os.environ.get("CSA_REPO", "/repo")
PKG_REL = "dissect/cstruct"
VERIF_ROOT = os.path.dirname(os.path.dirname(os.path.abspath(__file__)))
