"""Statement-level control-flow graph with dominators and correlated-branch-sensitive reachability.

One node per simple statement and one per compound-statement header (the test of an ``if``/``while``,
the iterable of a ``for``, the items of a ``with``, the entry of a ``try``, each ``except`` header).
Edges carry a label: None, 'T', 'F', 'loop', 'done', 'exc'.
"""

from __future__ import annotations

import ast
from dataclasses import dataclass, field

from .util import norm, names_stored, walk_local


@dataclass
class Node:
    id: int
    kind: str  # entry | exit | raise | stmt | if | while | for | with | try | except | match
    ast: ast.AST | None = None
    stmt: ast.stmt | None = None  # owning statement (== ast for simple statements)

    def __hash__(self) -> int:
        return self.id

    def __repr__(self) -> str:
        ln = getattr(self.ast, "lineno", "-")
        return f"<{self.id}:{self.kind}@{ln}>"

    @property
    def lineno(self) -> int:
        return getattr(self.ast, "lineno", 0) or 0

    def expr(self) -> ast.AST | None:
        """The expression evaluated at this node (test / iterable / items), or the statement itself."""
        if self.kind in ("if", "while"):
            return self.ast.test
        if self.kind == "for":
            return self.ast.iter
        if self.kind == "with":
            return ast.Tuple(elts=[i.context_expr for i in self.ast.items], ctx=ast.Load())
        if self.kind == "match":
            return self.ast.subject
        if self.kind in ("try", "entry", "exit", "raise"):
            return None
        if self.kind == "except":
            return self.ast.type
        return self.ast


class CFG:
    def __init__(self, func: ast.FunctionDef | ast.Module | list):
        self.nodes: list[Node] = []
        self.succ: dict[int, list[tuple[int, str | None]]] = {}
        self.pred: dict[int, list[tuple[int, str | None]]] = {}
        self.by_ast: dict[int, Node] = {}  # id(ast stmt) -> header node
        self.entry = self._new("entry")
        self.exit = self._new("exit")
        self.raise_exit = self._new("raise")
        body = func if isinstance(func, list) else func.body
        self.func = func
        ends = self._body(body, [(self.entry.id, None)], loop=None, handlers=[])
        for e in ends:
            self._edge(e, self.exit.id)
        self._dom = None
        self._pdom = None

    # ------------------------------------------------------------------ construction
    def _new(self, kind: str, node: ast.AST | None = None, stmt: ast.stmt | None = None) -> Node:
        n = Node(len(self.nodes), kind, node, stmt if stmt is not None else (node if isinstance(node, ast.stmt) else None))
        self.nodes.append(n)
        self.succ[n.id] = []
        self.pred[n.id] = []
        if node is not None and kind not in ("except",):
            self.by_ast.setdefault(id(node), n)
        return n

    def _edge(self, src, dst: int) -> None:
        s, lab = src if isinstance(src, tuple) else (src, None)
        if (dst, lab) not in self.succ[s]:
            self.succ[s].append((dst, lab))
            self.pred[dst].append((s, lab))

    def _connect(self, ins: list, node: Node) -> None:
        for i in ins:
            self._edge(i, node.id)

    def _exc_targets(self, handlers: list) -> list[int]:
        """Where an exception raised here may go: innermost handlers (all) then outward; or the raise exit."""
        return handlers[-1] if handlers else [self.raise_exit.id]

    def _body(self, body: list[ast.stmt], ins: list, loop, handlers: list) -> list:
        """Wire ``body`` after the dangling edges ``ins``; return the dangling out-edges."""
        cur = ins
        for st in body:
            cur = self._stmt(st, cur, loop, handlers)
        return cur

    def _stmt(self, st: ast.stmt, ins: list, loop, handlers: list) -> list:
        in_try = bool(handlers)
        if isinstance(st, ast.If):
            n = self._new("if", st)
            self._connect(ins, n)
            if in_try:
                for h in self._exc_targets(handlers):
                    self._edge((n.id, "exc"), h)
            t_out = self._body(st.body, [(n.id, "T")], loop, handlers)
            f_out = self._body(st.orelse, [(n.id, "F")], loop, handlers) if st.orelse else [(n.id, "F")]
            return t_out + f_out
        if isinstance(st, ast.While):
            n = self._new("while", st)
            self._connect(ins, n)
            if in_try:
                for h in self._exc_targets(handlers):
                    self._edge((n.id, "exc"), h)
            brk: list = []
            lp = {"head": n.id, "breaks": brk}
            body_out = self._body(st.body, [(n.id, "T")], lp, handlers)
            for o in body_out:
                self._edge(o, n.id)
            const_true = isinstance(st.test, ast.Constant) and bool(st.test.value) is True
            outs = [] if const_true else [(n.id, "F")]
            if st.orelse and outs:
                outs = self._body(st.orelse, outs, loop, handlers)
            return outs + brk
        if isinstance(st, (ast.For, ast.AsyncFor)):
            n = self._new("for", st)
            self._connect(ins, n)
            if in_try:
                for h in self._exc_targets(handlers):
                    self._edge((n.id, "exc"), h)
            brk = []
            lp = {"head": n.id, "breaks": brk}
            body_out = self._body(st.body, [(n.id, "loop")], lp, handlers)
            for o in body_out:
                self._edge(o, n.id)
            outs = [(n.id, "done")]
            if st.orelse:
                outs = self._body(st.orelse, outs, loop, handlers)
            return outs + brk
        if isinstance(st, (ast.With, ast.AsyncWith)):
            n = self._new("with", st)
            self._connect(ins, n)
            if in_try:
                for h in self._exc_targets(handlers):
                    self._edge((n.id, "exc"), h)
            return self._body(st.body, [(n.id, None)], loop, handlers)
        if isinstance(st, ast.Try) or (hasattr(ast, "TryStar") and isinstance(st, ast.TryStar)):
            n = self._new("try", st)
            self._connect(ins, n)
            hnodes = [self._new("except", h, st) for h in st.handlers]
            fin_entry: Node | None = None
            if st.finalbody:
                fin_entry = self._new("stmt", ast.Pass(), st)  # synthetic entry of the finally block
            inner_targets = [h.id for h in hnodes]
            catches_all = any(
                h.type is None or norm(h.type) in ("Exception", "BaseException") for h in st.handlers
            )
            if not catches_all:
                # an exception may also propagate past these handlers
                inner_targets += [fin_entry.id] if fin_entry else self._exc_targets(handlers)
            if not inner_targets:
                inner_targets = [fin_entry.id] if fin_entry else self._exc_targets(handlers)
            body_out = self._body(st.body, [(n.id, None)], loop, handlers + [inner_targets])
            if st.orelse:
                body_out = self._body(st.orelse, body_out, loop, handlers + ([[fin_entry.id]] if fin_entry else []))
            outs = list(body_out)
            # handlers: an exception inside a handler goes to finally / outward
            h_handlers = handlers + ([[fin_entry.id]] if fin_entry else [])
            for hn, h in zip(hnodes, st.handlers):
                outs += self._body(h.body, [(hn.id, None)], loop, h_handlers)
            if fin_entry is not None:
                self._connect(outs, fin_entry)
                fouts = self._body(st.finalbody, [(fin_entry.id, None)], loop, handlers)
                # after finally: normal continuation, or re-raise outward (over-approximation)
                for o in fouts:
                    for h in self._exc_targets(handlers):
                        self._edge((o[0] if isinstance(o, tuple) else o, "exc"), h)
                    if self._has_return(st):
                        self._edge(o, self.exit.id)
                return fouts
            return outs
        if hasattr(ast, "Match") and isinstance(st, ast.Match):
            n = self._new("match", st)
            self._connect(ins, n)
            outs = [(n.id, "F")]
            for case in st.cases:
                outs += self._body(case.body, [(n.id, "T")], loop, handlers)
            return outs
        # ---------------- simple statements
        n = self._new("stmt", st)
        self._connect(ins, n)
        if isinstance(st, ast.Return):
            self._edge(n.id, self.exit.id)
            return []
        if isinstance(st, ast.Raise):
            for h in self._exc_targets(handlers):
                self._edge((n.id, "exc"), h)
            return []
        if isinstance(st, ast.Break):
            if loop is not None:
                loop["breaks"].append((n.id, None))
            return []
        if isinstance(st, ast.Continue):
            if loop is not None:
                self._edge(n.id, loop["head"])
            return []
        if in_try:
            for h in self._exc_targets(handlers):
                self._edge((n.id, "exc"), h)
        return [(n.id, None)]

    @staticmethod
    def _has_return(st: ast.AST) -> bool:
        return any(isinstance(x, ast.Return) for x in walk_local(st))

    # ------------------------------------------------------------------ queries
    def node_of(self, st: ast.AST) -> Node | None:
        return self.by_ast.get(id(st))

    def stmt_nodes(self):
        return [n for n in self.nodes if n.kind not in ("entry", "exit", "raise")]

    def successors(self, nid: int):
        return self.succ[nid]

    def reachable(self, src: int, *, avoid: set[int] = frozenset(), skip_exc: bool = False, first_edge: str | None = "*") -> set[int]:
        """Nodes reachable from ``src`` (exclusive of src unless on a cycle) without entering ``avoid``."""
        seen: set[int] = set()
        stack = []
        for d, lab in self.succ[src]:
            if first_edge != "*" and lab != first_edge:
                continue
            if skip_exc and lab == "exc":
                continue
            stack.append(d)
        while stack:
            c = stack.pop()
            if c in seen or c in avoid:
                continue
            seen.add(c)
            for d, lab in self.succ[c]:
                if skip_exc and lab == "exc":
                    continue
                stack.append(d)
        return seen

    def must_pass(self, src: int, dst: int, via: set[int], *, skip_exc: bool = True) -> bool:
        """True when every path src -> dst passes through a node of ``via`` (vacuously true if unreachable)."""
        if dst in via:
            return True
        return dst not in self.reachable(src, avoid=via, skip_exc=skip_exc)

    def dominators(self) -> dict[int, set[int]]:
        if self._dom is None:
            self._dom = _dominators(self.entry.id, [n.id for n in self.nodes], self.pred, self.succ)
        return self._dom

    def dominates(self, a: int, b: int) -> bool:
        return a in self.dominators().get(b, set())

    def postdominators(self) -> dict[int, set[int]]:
        """Post-dominators w.r.t. the normal exit (exception edges ignored)."""
        if self._pdom is None:
            succ = {k: [(d, l) for d, l in v if l != "exc"] for k, v in self.succ.items()}
            pred = {k: [(s, l) for s, l in v if l != "exc"] for k, v in self.pred.items()}
            self._pdom = _dominators(self.exit.id, [n.id for n in self.nodes], succ, pred)
        return self._pdom

    def postdominates(self, a: int, b: int) -> bool:
        return a in self.postdominators().get(b, set())

    # ---- correlated-branch-sensitive reachability --------------------------------------------
    def reachable_sensitive(self, src: int, *, avoid: set[int] = frozenset(), skip_exc: bool = True,
                            init: dict[str, bool] | None = None, first_edge: str | None = "*") -> set[int]:
        """Like ``reachable`` but two ``if`` tests over the same (or negated) pure expression take consistent arms.

        A test ``A`` / ``not A`` / ``X is None`` vs ``X is not None`` / ``a == b`` vs ``a != b`` is tracked as one
        atom as long as no name occurring in it is re-assigned on the way.
        """
        start = frozenset((init or {}).items())
        seen: set[tuple[int, frozenset]] = set()
        out: set[int] = set()
        stack: list[tuple[int, frozenset]] = []

        def push_succ(nid: int, facts: frozenset, only: str | None = "*") -> None:
            node = self.nodes[nid]
            atom = None
            if node.kind == "if":
                atom = atom_of(node.ast.test)
            for d, lab in self.succ[nid]:
                if only != "*" and lab != only:
                    continue
                if skip_exc and lab == "exc":
                    continue
                f = facts
                if atom is not None and lab in ("T", "F"):
                    text, pos = atom
                    val = (lab == "T") == pos
                    known = dict(f).get(text)
                    if known is not None and known != val:
                        continue  # infeasible arm
                    f = frozenset({*f, (text, val)})
                stack.append((d, f))

        self._last_states = seen
        push_succ(src, start, first_edge)
        while stack:
            nid, facts = stack.pop()
            if nid in avoid or (nid, facts) in seen:
                continue
            seen.add((nid, facts))
            out.add(nid)
            node = self.nodes[nid]
            # kill facts whose names are re-assigned here
            killed = set()
            if node.kind == "stmt" and node.ast is not None:
                killed = names_stored(node.ast)
            elif node.kind == "for":
                killed = names_stored(node.ast.target)
            elif node.kind in ("if", "while") :
                killed = names_stored(node.ast.test)
            if killed:
                facts = frozenset((t, v) for t, v in facts if not (_names_in_text(t) & killed))
            push_succ(nid, facts)
        return out


def arrival_facts(g: "CFG", src: int, target: int) -> list[dict[str, bool]]:
    """Fact sets (branch atoms known true/false) with which ``target`` can be reached from ``src``."""
    g.reachable_sensitive(src)
    out = []
    for nid, facts in g._last_states:
        if nid == target:
            out.append(dict(facts))
    return out


def _names_in_text(text: str) -> set[str]:
    try:
        return {n.id for n in ast.walk(ast.parse(text, mode="eval")) if isinstance(n, ast.Name)}
    except SyntaxError:  # pragma: no cover
        return set()


def atom_of(test: ast.AST) -> tuple[str, bool] | None:
    """Canonical (text, polarity) of a test that is a single comparison / name / negation; None for and/or."""
    pos = True
    while isinstance(test, ast.UnaryOp) and isinstance(test.op, ast.Not):
        test = test.operand
        pos = not pos
    if isinstance(test, ast.BoolOp):
        return None
    if isinstance(test, ast.Compare) and len(test.ops) == 1:
        op = test.ops[0]
        l, r = norm(test.left), norm(test.comparators[0])
        table = {ast.IsNot: ("is", False), ast.Is: ("is", True), ast.NotEq: ("==", False), ast.Eq: ("==", True),
                 ast.NotIn: ("in", False), ast.In: ("in", True)}
        if type(op) in table:
            sym, p = table[type(op)]
            if sym == "==" and r < l:
                l, r = r, l
            return f"({l}) {sym} ({r})", pos == p
    if any(isinstance(n, (ast.Call, ast.NamedExpr)) for n in ast.walk(test)):
        # calls are not assumed pure, except len()/isinstance()/issubclass()
        for n in ast.walk(test):
            if isinstance(n, ast.NamedExpr):
                return None
            if isinstance(n, ast.Call) and norm(n.func) not in ("len", "isinstance", "issubclass"):
                return None
    return norm(test), pos


def _dominators(entry: int, ids: list[int], pred, succ) -> dict[int, set[int]]:
    # restrict to nodes reachable from entry
    reach = set()
    st = [entry]
    while st:
        c = st.pop()
        if c in reach:
            continue
        reach.add(c)
        st.extend(d for d, _ in succ[c])
    dom = {n: set(reach) for n in reach}
    dom[entry] = {entry}
    changed = True
    order = [n for n in ids if n in reach and n != entry]
    while changed:
        changed = False
        for n in order:
            ps = [p for p, _ in pred[n] if p in reach]
            new = set.intersection(*(dom[p] for p in ps)) if ps else set()
            new = new | {n}
            if new != dom[n]:
                dom[n] = new
                changed = True
    return dom


def build(func_node: ast.FunctionDef) -> CFG:
    return CFG(func_node)


# ---------------------------------------------------------------------------------------------------------------
# reaching definitions

def _defs_of_node(n: Node) -> dict[str, ast.AST | None]:
    """name -> value expression (None when the value is not a plain expression) defined at this node."""
    out: dict[str, ast.AST | None] = {}
    a = n.ast
    if n.kind == "stmt" and a is not None:
        if isinstance(a, ast.Assign):
            for t in a.targets:
                if isinstance(t, ast.Name):
                    out[t.id] = a.value
                elif isinstance(t, (ast.Tuple, ast.List)):
                    for e in ast.walk(t):
                        if isinstance(e, ast.Name):
                            out[e.id] = None
        elif isinstance(a, ast.AnnAssign) and isinstance(a.target, ast.Name) and a.value is not None:
            out[a.target.id] = a.value
        elif isinstance(a, ast.AugAssign) and isinstance(a.target, ast.Name):
            out[a.target.id] = a  # marker: augmented (depends on the previous value and a.value)
        for x in walk_local(a):
            if isinstance(x, ast.NamedExpr):
                out[x.target.id] = x.value
    elif n.kind == "for":
        for e in ast.walk(a.target):
            if isinstance(e, ast.Name):
                out[e.id] = None
    elif n.kind in ("if", "while"):
        for x in ast.walk(a.test):
            if isinstance(x, ast.NamedExpr):
                out[x.target.id] = x.value
    elif n.kind == "with":
        for it in a.items:
            if isinstance(it.optional_vars, ast.Name):
                out[it.optional_vars.id] = None
    elif n.kind == "except" and getattr(a, "name", None):
        out[a.name] = None
    return out


class ReachingDefs:
    """IN sets of (name, defining node id) per CFG node; parameters are definitions at the entry node."""

    def __init__(self, g: CFG, params: list[str] | None = None):
        self.g = g
        self.defs = {n.id: _defs_of_node(n) for n in g.nodes}
        if params:
            self.defs[g.entry.id] = {p: None for p in params}
        self.IN: dict[int, frozenset] = {n.id: frozenset() for n in g.nodes}
        OUT: dict[int, frozenset] = {n.id: frozenset() for n in g.nodes}
        changed = True
        while changed:
            changed = False
            for n in g.nodes:
                i = frozenset().union(*[OUT[p] for p, _ in g.pred[n.id]]) if g.pred[n.id] else frozenset()
                d = self.defs[n.id]
                o = frozenset((nm, nid) for nm, nid in i if nm not in d) | frozenset((nm, n.id) for nm in d)
                if i != self.IN[n.id] or o != OUT[n.id]:
                    self.IN[n.id], OUT[n.id] = i, o
                    changed = True

    def reaching(self, node_id: int, name: str) -> list[tuple[int, ast.AST | None]]:
        """[(defining node id, value expr or None)] of ``name`` that reach the *entry* of ``node_id``."""
        return [(nid, self.defs[nid].get(name)) for nm, nid in self.IN[node_id] if nm == name]
