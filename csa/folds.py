"""Folds of small factory functions over a finite set of abstract inputs (see bbfold for the idea): the function's source is interpreted by the
whitelist evaluator over symbolic objects and the captured outcome is compared with the documented result, so the rules built on it are
indifferent to local names, nesting of tests and hoisting.  ``None`` means "not foldable" and the caller keeps its structural rule."""

from __future__ import annotations

from typing import Any

from .minieval import Evaluator, Host, Raised, Refused, Sym, UserFunc
from .model import Repo


class Opaque:
    """Subscriptable placeholder for typing constructs such as ``type[Array]``."""

    def __getitem__(self, item: Any) -> "Opaque":
        return self


def fold_make_array(repo: Repo) -> dict | None:
    fi = repo.func("cstruct.py", "cstruct._make_array")
    expr = Sym("expr")
    expression_cls = Sym("Expression")
    out: dict = {"cases": 0, "size_bad": [], "nt_bad": [], "align_bad": [], "attrs_bad": [], "name_bad": []}
    elem_kinds = {
        "static": {"size": 4, "dynamic": False},
        "dynamic": {"size": None, "dynamic": True},
        "unsized": {"size": None, "dynamic": False},
    }
    try:
        for nlabel, n in (("[]", None), ("[expr]", expr), ("[3]", 3), ("[0]", 0)):
            for elabel, eattrs in elem_kinds.items():
                made: list = []

                def make_type(name, bases, size, alignment=None, attrs=None, made=made):
                    made.append({"name": name, "bases": bases, "size": size, "alignment": alignment, "attrs": attrs or {}})
                    return Sym("made")

                elem = Sym("T", {"__name__": "T", "alignment": 4, "ArrayType": Sym("ArrayType"), **eattrs})
                cs = Sym("cs", {}, {"_make_type": Host(make_type)})
                env = {"isinstance": Host(lambda o, k: k == expression_cls and o is expr), "Expression": expression_cls, "cast": Host(lambda t, v: v),
                       "type": Opaque(), "Array": Opaque(), "T": Opaque()}
                try:
                    Evaluator(env, steps=5000).call_user(UserFunc(fi.node), [cs, elem, n], {})
                    res = made[-1] if made else None
                except Raised as e:
                    res = ("raise", str(e))
                out["cases"] += 1
                case = f"{elabel} element, {nlabel}"
                if isinstance(n, int) and elabel == "unsized":
                    if not (isinstance(res, tuple) and res[0] == "raise"):
                        out["size_bad"].append((case, "an array of an unsized, non-dynamic element must be refused", res if not isinstance(res, dict) else res["size"]))
                    continue
                if not isinstance(res, dict):
                    out["size_bad"].append((case, "no type was created", res))
                    continue
                want_size = n * 4 if isinstance(n, int) and elabel == "static" else None
                if res["size"] != want_size:
                    out["size_bad"].append((case, f"size {res['size']!r}", f"expected {want_size!r}"))
                if res["attrs"].get("null_terminated") is not (n is None):
                    out["nt_bad"].append((case, res["attrs"].get("null_terminated")))
                if res["alignment"] != 4:
                    out["align_bad"].append((case, res["alignment"]))
                if res["attrs"].get("type") is not elem or res["attrs"].get("num_entries") is not n:
                    out["attrs_bad"].append((case, {k: v for k, v in res["attrs"].items() if k != "null_terminated"}))
                want_name = "T[]" if n is None else f"T[{n}]"
                if res["name"] != want_name:
                    out["name_bad"].append((case, res["name"], want_name))
    except Refused:
        return None
    except (TypeError, KeyError, IndexError, ValueError, AttributeError):
        return None
    return out


def fold_resolve(repo: Repo) -> dict | None:
    """cstruct.resolve over alias tables: direct, chains, unknown names, cycles, over-long chains; a returned value must never be a string."""
    fi = repo.func("cstruct.py", "cstruct.resolve")
    ty = Sym("a-type")
    tables = {
        "type object passed through": ({}, ty, ty),
        "direct name": ({"t": ty}, "t", ty),
        "alias chain of 3": ({"a": "b", "b": "c", "c": ty}, "a", ty),
        "alias chain of 9": ({**{f"n{i}": f"n{i + 1}" for i in range(8)}, "n8": ty}, "n0", ty),
        "unknown name": ({"t": ty}, "u", "raise"),
        "dangling alias": ({"a": "b"}, "a", "raise"),
        "alias cycle": ({"a": "b", "b": "a"}, "a", "raise"),
        "self alias": ({"a": "a"}, "a", "raise"),
        "alias chain of 40": ({**{f"n{i}": f"n{i + 1}" for i in range(40)}, "n40": ty}, "n0", "raise-or-type"),
    }
    out: dict = {"cases": 0, "bad": []}
    try:
        for label, (typedefs, name, want) in tables.items():
            cs = Sym("cs", {"typedefs": dict(typedefs)})
            env = {"isinstance": Host(lambda o, k: k is str and isinstance(o, str)), "str": str}
            try:
                r = Evaluator(env, steps=20000).call_user(UserFunc(fi.node), [cs, name], {})
                got: Any = r
            except Raised:
                got = "raise"
            out["cases"] += 1
            if isinstance(got, str) and got != "raise":
                out["bad"].append((label, f"returned the string {got!r}", "a type or ResolveError"))
            elif want == "raise-or-type":
                if got not in ("raise", ty):
                    out["bad"].append((label, got, "a type or ResolveError"))
            elif got != want:
                out["bad"].append((label, got, want))
    except Refused:
        return None
    except (TypeError, KeyError, IndexError, ValueError, AttributeError):
        return None
    return out
